"""Shared constants for the per-property tables."""

MIRI_BASE = "-Zmiri-ignore-leaks"
