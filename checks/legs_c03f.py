"""C03 secondary legs — protocol replica of the driver's wake flag (harness module vpure/src/c03f.rs).

MODEL-ASSISTED evidence: the real `AwakeFlag` (compio_driver::VerifAwakeFlag) driven by a replica of
iour::Driver::poll/flush, poll::Driver::poll and Notify::wake_by_ref; the eventfd is a counter + condvar;
the mailbox uses SeqCst (`sc`) or Release/Acquire (`ra`, what compio-executor's Shared::pending uses).
Trusted base: the replica mirrors those functions as of this tree; a change to the real loop is not
seen by these legs (the runtime legs of C03 see that).

Merge with:  from legs_c03f import C03F_LEGS;  PROP["legs"] += C03F_LEGS
"""

C03F_LEGS = [
    # Miri: real threads, weak-memory emulation, every program another interleaving
    {"name": "flag-replica-miri", "build": "miri", "pkg": "vpure", "cmd": "c03f", "shards": {"quick": 8, "thorough": 16}, "schedule_dependent": True,
     "miriflags": "",
     "args": {"quick": ["--iters", 30],
              "thorough": ["--iters", 400]},
     "timeout_s": {"quick": 400, "thorough": 3000}},
    # another schedule stream, 5x preemption rate (switches between fetch_or and the eventfd write,
    # between reset() and the wait, between set_awake() and the mailbox read)
    {"name": "flag-replica-miri-p5", "build": "miri", "pkg": "vpure", "cmd": "c03f", "shards": {"quick": 3, "thorough": 8}, "schedule_dependent": True,
     "miriflags": "-Zmiri-seed=3 -Zmiri-preemption-rate=0.05",
     "args": {"quick": ["--iters", 30],
              "thorough": ["--iters", 400]},
     "timeout_s": {"quick": 400, "thorough": 3000}},
    # native stress: persistent threads, up to 200 quiescence rounds per program
    {"name": "flag-replica-native", "build": "plain", "pkg": "vpure", "cmd": "c03f", "shards": {"quick": 2, "thorough": 6}, "schedule_dependent": True,
     "args": {"quick": ["--iters", 60, "--budget-ms", 30000],
              "thorough": ["--iters", 3000, "--budget-ms", 300000]},
     "timeout_s": {"quick": 200, "thorough": 900}},
]
