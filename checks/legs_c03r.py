"""C03 runtime / external-event-loop legs (harness module vdrv/src/c03r.rs)."""

C03R_LEGS = [
    {"name": "rt", "build": "plain", "pkg": "vdrv", "cmd": "c03r", "shards": 16, "schedule_dependent": True,
     "args": {"quick": ["--iters", 120, "--budget-ms", 50000], "thorough": ["--iters", 4000, "--budget-ms", 420000]},
     "timeout_s": {"quick": 240, "thorough": 900}},
    {"name": "rt-tsan", "build": "tsan", "pkg": "vdrv", "cmd": "c03r", "shards": 4, "schedule_dependent": True,
     "args": {"quick": ["--iters", 40, "--budget-ms", 45000], "thorough": ["--iters", 1000, "--budget-ms", 420000]},
     "timeout_s": {"quick": 240, "thorough": 900}},
]
