"""C03 runtime / external-event-loop legs (harness module vdrv/src/c03r.rs)."""

C03R_LEGS = [
    {"name": "rt", "build": "plain", "pkg": "vdrv", "cmd": "c03r", "shards": 16, "schedule_dependent": True,
     "args": {"quick": ["--iters", 120, "--budget-ms", 50000], "thorough": ["--iters", 4000, "--budget-ms", 420000]},
     "timeout_s": {"quick": 240, "thorough": 900}},
    {"name": "rt-tsan", "build": "tsan", "pkg": "vdrv", "cmd": "c03r", "shards": 4, "schedule_dependent": True,
     "args": {"quick": ["--iters", 40, "--budget-ms", 45000], "thorough": ["--iters", 1000, "--budget-ms", 420000]},
     "timeout_s": {"quick": 240, "thorough": 900}},
    # single-driver configurations of compio-driver (io-uring only = compio's default build; polling only)
    {"name": "rt-iour-only", "build": "plain-iour", "pkg": "vdrv", "cmd": "c03r", "shards": 3, "schedule_dependent": True,
     "args": {"quick": ["--driver", "iour", "--iters", 60, "--budget-ms", 40000], "thorough": ["--driver", "iour", "--iters", 1500, "--budget-ms", 300000]},
     "timeout_s": {"quick": 240, "thorough": 900}},
    {"name": "rt-poll-only", "build": "plain-poll", "pkg": "vdrv", "cmd": "c03r", "shards": 3, "schedule_dependent": True,
     "args": {"quick": ["--driver", "poll", "--iters", 60, "--budget-ms", 40000], "thorough": ["--driver", "poll", "--iters", 1500, "--budget-ms", 300000]},
     "timeout_s": {"quick": 240, "thorough": 900}},
]
