"""C01 — in-flight operations keep their memory and descriptors alive."""

SOUP_RULE = ("programs = seeded soups of 1-12 operations {pipe Read, socket Recv, Accept, PollOnce, ReadAt, Write into a full pipe, "
             "zero-copy Send, gated thread-pool job (Asyncify), multishot Recv with the buffer pool} over the Proactor API with a "
             "schedule of {push, make-ready, poll, pop, cancel, key drop, cancel token, proactor drop}, on the io_uring and the polling "
             "driver with submission-queue capacities {1,2,4,8,1024}; after the proactor is dropped every peer is made ready so that an "
             "OS still holding a pointer would write into quarantined (canary-filled) memory. A case is non-trivial if an operation was "
             "still pending when its submitter let go (cancel/token/key drop/proactor drop) or >= 2 operations were pending at once; "
             "distinct = distinct (driver, capacity class, op kind, submit route, who released first, result class) tuples")

PROP = {
    "level": "exploration",
    "level_text": ("Seeded hostile workloads over the real drivers, judged by an offline checker over the hooked event log "
                   "(storage freed / descriptor closed / buffer handed back while the OS or a pool thread holds the operation; "
                   "dangling user_data; freed exactly once; nothing leaked), by a quarantining canary allocator that makes kernel "
                   "writes into released memory visible, and by ASan/TSan builds of the same workloads. Held on the executions "
                   "observed; says nothing about operation kinds or orders no program produced."),
    "level_note": ("Trusted: the kernel stops touching operation memory once close(ring_fd) returns; hooks in compio-driver report "
                   "events faithfully (they are add-only and sit next to the real actions); the canary byte pattern is not what a "
                   "legitimate completion would write. Runtime-level futures (compio-runtime Submit/SubmitMulti drop paths) are "
                   "exercised by the C05/C06/C07/C14 workloads, not here."
                   " Builds: the fusion build (both drivers in one binary) carries the bulk of the runs; the legs `iour-only` / `poll-only` repeat the workloads with compio-driver compiled for a single driver (io-uring only is the default build of compio), so the #[cfg(not(fusion))] glue is exercised too, at a smaller volume."),
    "technique": "runtime monitoring: event-log trace checker + quarantining canary allocator + ASan/TSan over seeded operation soups",
    "rule": SOUP_RULE,
    "assumptions": ["kernel io_uring semantics as documented", "loopback/pipe/socketpair semantics of this sandbox"],
    "legs": [
        {"name": "plain", "build": "plain", "pkg": "vdrv", "cmd": "c01", "shards": 16,
         "args": {"quick": ["--iters", 250, "--budget-ms", 60000], "thorough": ["--iters", 6000, "--budget-ms", 420000]},
         "timeout_s": {"quick": 240, "thorough": 900}},
        {"name": "asan", "build": "asan", "pkg": "vdrv", "cmd": "c01", "shards": 8,
         "args": {"quick": ["--no-canary", "--iters", 60, "--budget-ms", 45000], "thorough": ["--no-canary", "--iters", 1500, "--budget-ms", 420000]},
         "timeout_s": {"quick": 240, "thorough": 900}},
        {"name": "tsan", "build": "tsan", "pkg": "vdrv", "cmd": "c01", "shards": 4,
         "args": {"quick": ["--no-canary", "--no-log", "--kinds", "Asyncify,ReadAt,PipeRead,SockRecv", "--iters", 60, "--budget-ms", 45000],
                  "thorough": ["--no-canary", "--no-log", "--kinds", "Asyncify,ReadAt,PipeRead,SockRecv", "--iters", 1500, "--budget-ms", 420000]},
         "timeout_s": {"quick": 240, "thorough": 900}},
        # single-driver configuration (the default build of compio): the #[cfg(not(fusion))] glue of compio-driver
        {"name": "iour-only", "build": "plain-iour", "pkg": "vdrv", "cmd": "c01", "shards": 3,
         "args": {"quick": [] + ["--driver", "iour", "--iters", 150, "--budget-ms", 40000],
                  "thorough": [] + ["--driver", "iour", "--iters", 3000, "--budget-ms", 300000]},
         "timeout_s": {"quick": 240, "thorough": 900}},
        # single-driver configuration (polling only): the #[cfg(not(fusion))] glue of compio-driver
        {"name": "poll-only", "build": "plain-poll", "pkg": "vdrv", "cmd": "c01", "shards": 3,
         "args": {"quick": [] + ["--driver", "poll", "--iters", 150, "--budget-ms", 40000],
                  "thorough": [] + ["--driver", "poll", "--iters", 3000, "--budget-ms", 300000]},
         "timeout_s": {"quick": 240, "thorough": 900}},
    ],
}
