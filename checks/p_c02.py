"""C02 — every operation completes exactly once, with its own result."""
from p_c01 import SOUP_RULE

PROP = {
    "level": "exploration",
    "level_text": ("Seeded soups with many concurrently pending operations, completion bursts, 1-2 entry submission queues and "
                   "unusual readiness orders on both drivers. Data oracle with position-dependent stream content and per-operation "
                   "tags (own buffer back, own bytes, counts within capacity, no fabricated/duplicated/invented data; for several "
                   "readers of one descriptor: the pieces are consecutive pieces of what was written), log oracle (exactly one final "
                   "result per operation, never two, nothing stranded), bounded progress decided logically (readiness produced and "
                   "confirmed with poll(2), then at most 5 driver polls)."),
    "level_note": ("Trusted: kernel delivers pipe/socket data in FIFO order per descriptor; the order in which several pending reads "
                   "on one descriptor are served is the kernel's business (conservation only). Thread-pool jobs are judged late only "
                   "after the log shows the pool thread finished."),
    "technique": "runtime monitoring: tagged-data conservation oracle + event-log exactly-once checker over seeded operation soups",
    "rule": SOUP_RULE + "; C02 weighting: 2-12 ops, readiness/poll/pop dominated schedules, completion bursts",
    "assumptions": ["loopback/pipe/socketpair semantics of this sandbox"],
    "legs": [
        {"name": "plain", "build": "plain", "pkg": "vdrv", "cmd": "c02", "shards": 16,
         "args": {"quick": ["--iters", 300, "--budget-ms", 60000], "thorough": ["--iters", 8000, "--budget-ms", 420000]},
         "timeout_s": {"quick": 240, "thorough": 900}},
        {"name": "asan", "build": "asan", "pkg": "vdrv", "cmd": "c02", "shards": 8,
         "args": {"quick": ["--no-canary", "--iters", 60, "--budget-ms", 45000], "thorough": ["--no-canary", "--iters", 1500, "--budget-ms", 420000]},
         "timeout_s": {"quick": 240, "thorough": 900}},
    ],
}
