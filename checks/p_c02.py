"""C02 — every operation completes exactly once, with its own result."""
from p_c01 import SOUP_RULE

PROP = {
    "level": "exploration",
    "level_text": ("Seeded soups with many concurrently pending operations, completion bursts, 1-2 entry submission queues and "
                   "unusual readiness orders on both drivers. Data oracle with position-dependent stream content and per-operation "
                   "tags (own buffer back, own bytes, counts within capacity, no fabricated/duplicated/invented data; for several "
                   "readers of one descriptor: the pieces are consecutive pieces of what was written), log oracle (exactly one final "
                   "result per operation, never two, nothing stranded), bounded progress decided logically (readiness produced and "
                   "confirmed with poll(2), then at most 5 driver polls)."),
    "level_note": ("Trusted: kernel delivers pipe/socket data in FIFO order per descriptor; the order in which several pending reads "
                   "on one descriptor are served is the kernel's business (conservation only). Thread-pool jobs are judged late only "
                   "after the log shows the pool thread finished. Legs `rt*`: the same question one level up — 2-8 receive / pipe "
                   "read / file read / accept operations awaited inside the block_on future (waker = the driver's own waker) or in "
                   "spawned tasks, data present before submission or provided by feeder threads while the runtime sleeps, queue "
                   "capacity 1..64 (completions reaped inside a submission). Oracle: own result exactly once; and logical "
                   "quiescence — all data provided, program unfinished, runtime thread asleep (state S, no context switch, five "
                   "looks): an unrelated I/O completion (kick) that lets it finish proves a reaped completion whose wake-up was "
                   "lost; data still unread in a descriptor with its read pending after the kick is a stranded operation; anything "
                   "else is inconclusive."
                   " Builds: the fusion build (both drivers in one binary) carries the bulk of the runs; the legs `iour-only` / `poll-only` repeat the workloads with compio-driver compiled for a single driver (io-uring only is the default build of compio), so the #[cfg(not(fusion))] glue is exercised too, at a smaller volume."),
    "technique": "runtime monitoring: tagged-data conservation oracle + event-log exactly-once checker over seeded operation soups",
    "rule": SOUP_RULE + "; C02 weighting: 2-12 ops, readiness/poll/pop dominated schedules, completion bursts; rt legs: a case is one "
             "program, distinct = (driver, queue-capacity class, op kind, awaited in main future / task, data ready at submit / "
             "fed late, more ops than queue entries?)",
    "assumptions": ["loopback/pipe/socketpair semantics of this sandbox"],
    "legs": [
        {"name": "plain", "build": "plain", "pkg": "vdrv", "cmd": "c02", "shards": 16,
         "args": {"quick": ["--iters", 300, "--budget-ms", 60000], "thorough": ["--iters", 8000, "--budget-ms", 420000]},
         "timeout_s": {"quick": 240, "thorough": 900}},
        {"name": "asan", "build": "asan", "pkg": "vdrv", "cmd": "c02", "shards": 8,
         "args": {"quick": ["--no-canary", "--iters", 60, "--budget-ms", 45000], "thorough": ["--no-canary", "--iters", 1500, "--budget-ms", 420000]},
         "timeout_s": {"quick": 240, "thorough": 900}},
        {"name": "rt", "build": "plain", "pkg": "vdrv", "cmd": "c02r", "shards": 8,
         "args": {"quick": ["--iters", 1200, "--budget-ms", 50000], "thorough": ["--iters", 40000, "--budget-ms", 420000]},
         "timeout_s": {"quick": 240, "thorough": 900}},
        {"name": "rt-asan", "build": "asan", "pkg": "vdrv", "cmd": "c02r", "shards": 2,
         "args": {"quick": ["--iters", 300, "--budget-ms", 45000], "thorough": ["--iters", 8000, "--budget-ms", 420000]},
         "timeout_s": {"quick": 240, "thorough": 900}},
        # single-driver configuration (the default build of compio): the #[cfg(not(fusion))] glue of compio-driver
        {"name": "iour-only", "build": "plain-iour", "pkg": "vdrv", "cmd": "c02", "shards": 3,
         "args": {"quick": [] + ["--driver", "iour", "--iters", 150, "--budget-ms", 40000],
                  "thorough": [] + ["--driver", "iour", "--iters", 3000, "--budget-ms", 300000]},
         "timeout_s": {"quick": 240, "thorough": 900}},
        {"name": "rt-iour-only", "build": "plain-iour", "pkg": "vdrv", "cmd": "c02r", "shards": 2,
         "args": {"quick": ["--driver", "iour", "--iters", 500, "--budget-ms", 40000],
                  "thorough": ["--driver", "iour", "--iters", 15000, "--budget-ms", 300000]},
         "timeout_s": {"quick": 240, "thorough": 900}},
        # single-driver configuration (polling only): the #[cfg(not(fusion))] glue of compio-driver
        {"name": "poll-only", "build": "plain-poll", "pkg": "vdrv", "cmd": "c02", "shards": 3,
         "args": {"quick": [] + ["--driver", "poll", "--iters", 150, "--budget-ms", 40000],
                  "thorough": [] + ["--driver", "poll", "--iters", 3000, "--budget-ms", 300000]},
         "timeout_s": {"quick": 240, "thorough": 900}},
        {"name": "rt-poll-only", "build": "plain-poll", "pkg": "vdrv", "cmd": "c02r", "shards": 2,
         "args": {"quick": ["--driver", "poll", "--iters", 500, "--budget-ms", 40000],
                  "thorough": ["--driver", "poll", "--iters", 15000, "--budget-ms", 300000]},
         "timeout_s": {"quick": 240, "thorough": 900}},
    ],
}
