"""C03 — a wake-up from any thread is never lost.

Legs are grouped by what runs the wake-up: EXECUTOR_LEGS (this file's first
block: the real compio-executor under Miri / native / TSan, subcommand
`c03x`), then the protocol replica of the driver flag (`c03f`), then the
runtime / external-loop legs (vrt). Append further groups to `PROP["legs"]`
at the bottom.
"""

# Leak check on, weak-memory emulation and race detection on (Miri defaults).
# -Zmiri-disable-isolation only so that `--replay <file>` can be read and
# `--budget-ms` is real time (the harness does no other I/O).
# Many programs per process: the scheduler RNG runs on across programs, every
# program and every replay repetition gets a new schedule; (seed, shard)
# reproduce a process exactly.
MIRI_X = "-Zmiri-disable-isolation"


def _a(base, q_iters, q_ms, t_iters, t_ms):
    return {"quick": base + ["--iters", q_iters, "--budget-ms", q_ms],
            "thorough": base + ["--iters", t_iters, "--budget-ms", t_ms]}


_STRESS_Q = ["--stress", "--threads", 16, "--max-wakes", 40000]
_STRESS_T = ["--stress", "--threads", 16, "--max-wakes", 1000000]

EXECUTOR_LEGS = [
    # N in {1,2,3} waker threads x <= 4 wakes x 1-2 epochs x sync queue {1,2,64} x tasks {1,2} x max_interval {1,2,61}
    # x owner model {always ticking, notify-driven} x slow owner callback
    {"name": "x-miri", "build": "miri", "pkg": "vpure", "cmd": "c03x", "shards": {"quick": 6, "thorough": 8},
     "miriflags": MIRI_X,
     "args": _a([], 400, 40000, 8000, 240000), "timeout_s": {"quick": 400, "thorough": 1500}},
    # small configurations natively: thousands of OS schedules
    {"name": "x-plain", "build": "plain", "pkg": "vpure", "cmd": "c03x", "shards": {"quick": 1, "thorough": 2},
    
     "args": _a([], 4000000, 15000, 40000000, 240000), "timeout_s": {"quick": 300, "thorough": 1500}},
    # stress: up to 16 waker threads, up to 1e6 wakes per program, 1-32 tasks, queues {1,2,3,8,64}, epochs with a
    # quiescence check after each, random yields/spins
    {"name": "x-plain-stress", "build": "plain", "pkg": "vpure", "cmd": "c03x", "shards": {"quick": 2, "thorough": 2},
    
     "args": {"quick": _STRESS_Q + ["--iters", 100000, "--budget-ms", 25000],
              "thorough": _STRESS_T + ["--iters", 100000, "--budget-ms", 220000]},
     "timeout_s": {"quick": 400, "thorough": 1800}},
    {"name": "x-tsan", "build": "tsan", "pkg": "vpure", "cmd": "c03x", "shards": {"quick": 1, "thorough": 2},
    
     "args": _a([], 4000000, 20000, 40000000, 240000), "timeout_s": {"quick": 300, "thorough": 1500}},
    {"name": "x-tsan-stress", "build": "tsan", "pkg": "vpure", "cmd": "c03x", "shards": {"quick": 2, "thorough": 2},
    
     "args": {"quick": _STRESS_Q + ["--iters", 100000, "--budget-ms", 25000],
              "thorough": _STRESS_T + ["--iters", 100000, "--budget-ms", 220000]},
     "timeout_s": {"quick": 400, "thorough": 1800}},
]

PROP = {
    "level": "exploration",
    "level_text": ("Mailbox conservation at logical quiescence: waker threads do `posted += 1; waker.wake()`, the woken task "
                   "moves posted into seen on every poll; once every waking thread has returned from wake() the owner must poll "
                   "the task again within a bounded number of its own steps so that seen == posted. Executor legs: the real "
                   "compio-executor with real threads under Miri (random preemption, weak-memory emulation, data-race/UB/leak "
                   "detection; 1-3 wakers x <= 4 wakes x queue sizes 1/2/64 x 1-2 tasks) and natively / under TSan (up to 16 "
                   "threads and 1e6 wakes per program, queues down to 1). Two owner models: ticking unconditionally (bound "
                   "ceil(tasks/max_interval)+1 ticks) and notify-driven like compio-runtime (ticks only after an "
                   "ExecutorConfig::waker notification or while tick() reports hot tasks). Exploration of interleavings, not "
                   "exhaustive."),
    "level_note": ("Executor legs trust: the harness mailbox (SeqCst counters), thread spawn as waker hand-over, a SeqCst "
                   "counter as 'returned from wake()'. Owner-callback guarantee demanded: one notification per pushed id, made "
                   "by the pushing thread (polls - 1 <= notifications attributed to wakes of that task), and no stranded id "
                   "with the owner asleep. A waking thread that does not return is a violation only under Miri (its scheduler "
                   "gives every runnable thread a turn per yield); natively it is inconclusive."),
    "technique": ("runtime monitoring: conservation oracle over instrumented futures and wakers at logical quiescence; Miri "
                  "(weak memory, seeded schedules), ThreadSanitizer, native stress"),
    "rule": ("executor legs: a case is one program (queue size, tasks, waker threads, wakes, epochs, max_interval, owner model, "
             "slow owner callback, yield pattern); non-trivial if at least one remote wake pushed an id (was not coalesced); "
             "distinct = (leg, queue size, tasks, wakers, max_interval, owner model, set of owner phases {asleep, ticking, "
             "awake} seen at wake entry, coalesced wake seen?, wake that waited across a tick seen?, slow callback?)"),
    "assumptions": [
        "the owner model `notify` mirrors compio-runtime's block_on loop: tick; if tick() returned false sleep until the driver waker is invoked",
        "sync queue size >= 1, max_interval >= 1",
    ],
    "legs": list(EXECUTOR_LEGS),
}

# --- further leg groups (flag replica c03f, runtime, external loop) are appended below ---------------------------
from legs_c03f import C03F_LEGS  # noqa: E402
from legs_c03r import C03R_LEGS  # noqa: E402

PROP["legs"] += C03R_LEGS + C03F_LEGS
PROP["level_text"] += (
    " Runtime legs (`rt`, `rt-tsan`): the real compio-runtime / compio-driver on both drivers — block_on, the "
    "compat-futures and compat-tokio external loops and a hand-written external loop that sleeps in poll(2) on the driver's "
    "fd — a remote thread wakes a task while the owner is (per /proc task state and the driver's PollEnter/PollExit events) "
    "asleep in the kernel, about to sleep (pause hooks between flag reset and the wait) or awake; the oracle is the same "
    "conservation at logical quiescence, with a 'kick' I/O as last resort that distinguishes a lost wake (kick rescues it) "
    "from a dead harness. Flag-replica legs (`flag-replica-*`): model-assisted — the real AwakeFlag driven by a replica of "
    "the driver loops under Miri weak memory; they see memory-ordering defects in the flag, not changes to the real loops.")
PROP["rule"] += (
    "; runtime legs: a case is one (loop kind, driver, owner state at wake, pause point, number of wakers) scenario; "
    "non-trivial if the wake arrived while the owner was asleep or between reset and wait; distinct = (loop kind, driver, "
    "owner state at wake, pause point); flag-replica legs: a case is one replica program; distinct = (driver loop, "
    "mailbox ordering, wakers, owner phase at wake)")
PROP["assumptions"] += [
    "runtime legs: 'asleep' is read from /proc/self/task/<tid> state S/wchan plus the hook events PollEnter without PollExit",
    "flag-replica legs trust that the replica mirrors iour::Driver::poll/flush, poll::Driver::poll and Notify::wake_by_ref of this tree",
]
