"""C04 — task and join-handle lifecycle (compio-executor)."""

# Miri flags: -Zmiri-disable-isolation only so that `--replay <file>` can be read
# and `--budget-ms` is real time (the harness does no other I/O); leak check ON (the executor frees every task allocation at
# teardown and the harness joins all threads and drops every handle/waker),
# weak-memory emulation and data-race detection on (defaults). No
# -Zmiri-many-seeds: every process runs many programs back to back, Miri's
# scheduler RNG is consumed across them, so every program (and every
# repetition of a replay) sees a different preemption schedule; the run is
# reproducible from (seed, shard) alone, which is what the recorded argv is.
MIRI = "-Zmiri-disable-isolation"

_ST = ["--mode", "st"]
_LIVE = ["--mode", "xt", "--xdrop", 0]       # executor dropped after the foreign threads are joined
_TEAR = ["--mode", "xt", "--xdrop", 1]       # executor dropped while they run
_MIX = ["--mode", "both", "--st-pct", 35, "--xdrop", 0, "--long"]


def _a(base, q_iters, q_ms, t_iters, t_ms):
    return {"quick": base + ["--iters", q_iters, "--budget-ms", q_ms],
            "thorough": base + ["--iters", t_iters, "--budget-ms", t_ms]}


PROP = {
    "level": "exploration",
    "level_text": ("The real compio-executor is run under seeded programs of spawn / wake / self-wake / tick / join / "
                   "cancel().await / detach / handle drop / panic / in-poll spawn and handle drop / executor drop: single-threaded "
                   "with an exact model (every join result, is_finished, no poll after cancel, join-waker notification, FIFO "
                   "starvation bound, differential run for panic isolation), and with JoinHandle poll/cancel/drop/detach and Waker "
                   "clone/wake/drop on 1-3 foreign threads racing tick() and Executor::drop. Instrumented futures and outputs "
                   "count polls/drops per thread. Schedules: Miri (random preemption, weak-memory emulation, data-race + "
                   "use-after-free + leak detection) on small programs, native/TSan/ASan on many long ones. Exploration of "
                   "interleavings, not exhaustive; verdicts on liveness only at logical quiescence."),
    "level_note": ("Trusted: the probe futures (Relaxed counters only, so they add no happens-before that could hide an executor "
                   "race), thread spawn/join as hand-over. Starvation bound derived from the code: a task made hot while L other "
                   "tasks are alive is polled (or, if cancelled, dropped) in a tick numbered <= ticks_started + 1 + floor(L / "
                   "max_interval); the bound is reached exactly (floor `st:starvation-bound-reached-exactly`). Remote "
                   "cancel/handle-drop: 'not polled again' is judged after the foreign thread is joined (an in-flight poll "
                   "cannot be told from a late one without hooks). Dropping / cancelling a handle on another thread: once that call has returned (thread joined) the owner ticks 2 + floor(tasks / max_interval) times (first tick drains the sync queue and appends the task to the FIFO hot list) and the future must be dropped by then (`C04/future-drop/late/*`, logical bound in owner ticks, no clock). A JoinHandle pending on another thread when the Executor is "
                   "dropped is never woken (it would observe Cancelled if polled): counted as an observation, the statement does "
                   "not promise that wake-up. Programs that drop the executor while foreign threads are active run in their own "
                   "legs (`*-teardown`) because a use-after-free ends the process and with it the shard."),
    "technique": ("runtime monitoring: instrumented futures/outputs + exact single-thread model + differential runs; Miri "
                  "(UB/data race/leak, weak memory, seeded schedules), ThreadSanitizer, AddressSanitizer, native stress"),
    "rule": ("programs = executor config (sync queue 1/2/64, max_interval 1/2/3/61, owner waker, slow owner callback) x task "
             "behaviours (ready at k-th poll, panic at k-th poll, self-wake by ref/by clone, wake peer, spawn child in poll, drop "
             "a handle in poll, Send/!Send output) x op sequence; a case is non-trivial if a cancel / handle drop / detach / "
             "panic / executor drop hit a live task (single thread) or at least one foreign-thread handle or waker action or a "
             "post-teardown waker use happened (cross thread); distinct = (shape, leg, threads or max_interval class, set of "
             "raced action kinds, set of task end states {ready-taken, ready-dropped, panic-taken, panic-dropped, cancelled})"),
    "assumptions": [
        "futures are polled by Executor::tick on the thread that created the executor; the harness never sends the Executor",
        "panic payloads and outputs are plain values with counting destructors that never panic",
        "single-thread programs are deterministic (needed for the exact model and the panic differential)",
        "native hang-type conditions (a foreign call not returning after 5e5 drain+yield rounds, the last 4e5 of them 100 us apart) are inconclusive, never violations",
    ],
    "legs": [
        {"name": "miri-st", "build": "miri", "pkg": "vpure", "cmd": "c04", "shards": {"quick": 2, "thorough": 2},
         "miriflags": MIRI, "args": _a(_ST, 400, 40000, 6000, 250000),
         "timeout_s": {"quick": 400, "thorough": 1500}},
        {"name": "miri-live", "build": "miri", "pkg": "vpure", "cmd": "c04", "shards": {"quick": 6, "thorough": 8},
         "miriflags": MIRI, "args": _a(_LIVE, 400, 40000, 6000, 250000),
         "timeout_s": {"quick": 400, "thorough": 1500}},
        {"name": "miri-teardown", "build": "miri", "pkg": "vpure", "cmd": "c04", "shards": {"quick": 4, "thorough": 6},
         "miriflags": MIRI, "args": _a(_TEAR, 400, 40000, 6000, 250000),
         "timeout_s": {"quick": 400, "thorough": 1500}},
        {"name": "plain", "build": "plain", "pkg": "vpure", "cmd": "c04", "shards": {"quick": 3, "thorough": 3},
         "args": _a(_MIX, 4000000, 25000, 40000000, 240000),
         "timeout_s": {"quick": 300, "thorough": 1500}},
        {"name": "plain-teardown", "build": "plain", "pkg": "vpure", "cmd": "c04", "shards": {"quick": 2, "thorough": 3},
         "args": _a(_TEAR + ["--long"], 4000000, 15000, 40000000, 200000),
         "timeout_s": {"quick": 300, "thorough": 1500}},
        {"name": "tsan", "build": "tsan", "pkg": "vpure", "cmd": "c04", "shards": {"quick": 3, "thorough": 3},
         "args": _a(_MIX, 4000000, 25000, 40000000, 240000),
         "timeout_s": {"quick": 300, "thorough": 1500}},
        {"name": "tsan-teardown", "build": "tsan", "pkg": "vpure", "cmd": "c04", "shards": {"quick": 1, "thorough": 2},
         "args": _a(_TEAR + ["--long"], 4000000, 15000, 40000000, 200000),
         "timeout_s": {"quick": 300, "thorough": 1500}},
        {"name": "asan", "build": "asan", "pkg": "vpure", "cmd": "c04", "shards": {"quick": 3, "thorough": 3},
         "args": _a(_MIX, 4000000, 25000, 40000000, 240000),
         "timeout_s": {"quick": 300, "thorough": 1500}},
        {"name": "asan-teardown", "build": "asan", "pkg": "vpure", "cmd": "c04", "shards": {"quick": 2, "thorough": 2},
         "args": _a(_TEAR + ["--long"], 4000000, 15000, 40000000, 200000),
         "timeout_s": {"quick": 300, "thorough": 1500}},
    ],
}
