"""C05 — cancellation is prompt, honest and local."""
from p_c01 import SOUP_RULE

PROP = {
    "level": "exploration",
    "level_text": ("Seeded soups dominated by cancel / cancel-token / key-drop actions placed before, between and after readiness and "
                   "completion, on both drivers and tiny queues. Oracle: a cancelled interruptible operation has an outcome within 5 "
                   "bounded driver polls, and that outcome is a cancellation error or genuine (Ok(n) only with n tagged bytes really "
                   "written, accept only with a real connection, never Ok(0) on an open stream); operations nobody cancelled never "
                   "report cancellation and later complete with their own data; firing a token twice / after completion is a no-op."),
    "level_note": ("Legs `plain`/`asan`: driver-level routes (Proactor::cancel, cancel_token, key drop). Legs `rt`/`rt-asan`: the "
                   "runtime-level routes — future dropped select-style, CancelToken through with_cancel (plain, fail_fast, nested: "
                   "innermost wins, combined with with_personality either way round, registered after the fire), time::timeout — on "
                   "tasks of one runtime the harness turns itself (run + poll_with), 2-7 receive / pipe-read / accept / readiness "
                   "operations, several per descriptor. Oracles there: an operation whose route fired has an outcome within one "
                   "runtime turn per started operation plus four; outcome is a cancellation error or a genuine result (bytes are the "
                   "next bytes of a position-tagged stream); every other operation stays pending, never fails, and after a barrier "
                   "receives every byte sent (a cancelled/dropped operation that still consumes is seen as a gap). "
                   "Thread-pool operations are excluded as documented (not interruptible); they are only checked to be unaffected."
                   " Builds: the fusion build (both drivers in one binary) carries the bulk of the runs; the legs `iour-only` / `poll-only` repeat the workloads with compio-driver compiled for a single driver (io-uring only is the default build of compio), so the #[cfg(not(fusion))] glue is exercised too, at a smaller volume."),
    "technique": "runtime monitoring: bounded-progress + honesty oracle over seeded cancellation soups, event-log checker",
    "rule": SOUP_RULE + ("; C05 weighting: cancel/token actions dominate; non-trivial if a cancel hit a pending op. rt legs: a case is "
                         "one program; non-trivial if some route fired while its operation was pending; distinct = (driver, op kind, "
                         "route, fired?, registered-late?, descriptor shared?, outcome class)"),
    "assumptions": ["ECANCELED is the cancellation error on both drivers"],
    "legs": [
        {"name": "plain", "build": "plain", "pkg": "vdrv", "cmd": "c05", "shards": 16,
         "args": {"quick": ["--iters", 300, "--budget-ms", 60000], "thorough": ["--iters", 8000, "--budget-ms", 420000]},
         "timeout_s": {"quick": 240, "thorough": 900}},
        {"name": "asan", "build": "asan", "pkg": "vdrv", "cmd": "c05", "shards": 8,
         "args": {"quick": ["--no-canary", "--iters", 60, "--budget-ms", 45000], "thorough": ["--no-canary", "--iters", 1500, "--budget-ms", 420000]},
         "timeout_s": {"quick": 240, "thorough": 900}},
        {"name": "rt", "build": "plain", "pkg": "vdrv", "cmd": "c05r", "shards": 8,
         "args": {"quick": ["--iters", 400, "--budget-ms", 50000], "thorough": ["--iters", 12000, "--budget-ms", 420000]},
         "timeout_s": {"quick": 240, "thorough": 900}},
        {"name": "rt-asan", "build": "asan", "pkg": "vdrv", "cmd": "c05r", "shards": 4,
         "args": {"quick": ["--iters", 100, "--budget-ms", 45000], "thorough": ["--iters", 3000, "--budget-ms", 420000]},
         "timeout_s": {"quick": 240, "thorough": 900}},
        # single-driver configuration (the default build of compio): the #[cfg(not(fusion))] glue of compio-driver
        {"name": "iour-only", "build": "plain-iour", "pkg": "vdrv", "cmd": "c05", "shards": 3,
         "args": {"quick": [] + ["--driver", "iour", "--iters", 150, "--budget-ms", 40000],
                  "thorough": [] + ["--driver", "iour", "--iters", 3000, "--budget-ms", 300000]},
         "timeout_s": {"quick": 240, "thorough": 900}},
        {"name": "rt-iour-only", "build": "plain-iour", "pkg": "vdrv", "cmd": "c05r", "shards": 2,
         "args": {"quick": ["--driver", "iour", "--iters", 200, "--budget-ms", 40000],
                  "thorough": ["--driver", "iour", "--iters", 6000, "--budget-ms", 300000]},
         "timeout_s": {"quick": 240, "thorough": 900}},
        # single-driver configuration (polling only): the #[cfg(not(fusion))] glue of compio-driver
        {"name": "poll-only", "build": "plain-poll", "pkg": "vdrv", "cmd": "c05", "shards": 3,
         "args": {"quick": [] + ["--driver", "poll", "--iters", 150, "--budget-ms", 40000],
                  "thorough": [] + ["--driver", "poll", "--iters", 3000, "--budget-ms", 300000]},
         "timeout_s": {"quick": 240, "thorough": 900}},
        {"name": "rt-poll-only", "build": "plain-poll", "pkg": "vdrv", "cmd": "c05r", "shards": 2,
         "args": {"quick": ["--driver", "poll", "--iters", 200, "--budget-ms", 40000],
                  "thorough": ["--driver", "poll", "--iters", 6000, "--budget-ms", 300000]},
         "timeout_s": {"quick": 240, "thorough": 900}},
    ],
}
