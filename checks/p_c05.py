"""C05 — cancellation is prompt, honest and local."""
from p_c01 import SOUP_RULE

PROP = {
    "level": "exploration",
    "level_text": ("Seeded soups dominated by cancel / cancel-token / key-drop actions placed before, between and after readiness and "
                   "completion, on both drivers and tiny queues. Oracle: a cancelled interruptible operation has an outcome within 5 "
                   "bounded driver polls, and that outcome is a cancellation error or genuine (Ok(n) only with n tagged bytes really "
                   "written, accept only with a real connection, never Ok(0) on an open stream); operations nobody cancelled never "
                   "report cancellation and later complete with their own data; firing a token twice / after completion is a no-op."),
    "level_note": ("Driver-level routes (Proactor::cancel, cancel_token, key drop). The runtime-level routes (future drop, CancelToken "
                   "combinator, time::timeout) sit on top of exactly these calls and are exercised by the C09/C14 workloads. "
                   "Thread-pool operations are excluded as documented (not interruptible); they are only checked to be unaffected."),
    "technique": "runtime monitoring: bounded-progress + honesty oracle over seeded cancellation soups, event-log checker",
    "rule": SOUP_RULE + "; C05 weighting: cancel/token actions dominate; non-trivial if a cancel hit a pending op",
    "assumptions": ["ECANCELED is the cancellation error on both drivers"],
    "legs": [
        {"name": "plain", "build": "plain", "pkg": "vdrv", "cmd": "c05", "shards": 16,
         "args": {"quick": ["--iters", 300, "--budget-ms", 60000], "thorough": ["--iters", 8000, "--budget-ms", 420000]},
         "timeout_s": {"quick": 240, "thorough": 900}},
        {"name": "asan", "build": "asan", "pkg": "vdrv", "cmd": "c05", "shards": 8,
         "args": {"quick": ["--no-canary", "--iters", 60, "--budget-ms", 45000], "thorough": ["--no-canary", "--iters", 1500, "--budget-ms", 420000]},
         "timeout_s": {"quick": 240, "thorough": 900}},
    ],
}
