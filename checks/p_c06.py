"""C06 — descriptors are closed exactly once, never in use, never leaked."""

# Monitor 1 (SharedFd take/drop protocol, harness module vpure/src/c06a.rs).
# The native driver-level and runtime-level legs (monitors 2 and 3) are appended to `LEGS` below.
LEGS = [
    # all orders of release/poll/give-up for k <= 4 other handles (single thread, exhaustive) + threaded stress
    {"name": "sharedfd-native", "build": "plain", "pkg": "vpure", "cmd": "c06a", "shards": {"quick": 2, "thorough": 8}, "schedule_dependent": True,
     "args": {"quick": ["--seq-k", 4, "--iters", 1500, "--budget-ms", 40000],
              "thorough": ["--seq-k", 4, "--iters", 60000, "--budget-ms", 300000]},
     "timeout_s": {"quick": 200, "thorough": 900}},
    # Miri: real threads, every run another interleaving; data races / use-after-free / leaks (leak check ON:
    # every thread is joined) / weak memory. The enumeration is repeated for small k (UB detection only).
    {"name": "sharedfd-miri", "build": "miri", "pkg": "vpure", "cmd": "c06a", "shards": {"quick": 10, "thorough": 16}, "schedule_dependent": True,
     "miriflags": "",
     "args": {"quick": ["--seq-k", 2, "--iters", 30],
              "thorough": ["--seq-k", 3, "--iters", 600]},
     "timeout_s": {"quick": 400, "thorough": 3000}},
    # same programs, another schedule stream and a 5x higher preemption rate (switches inside the
    # wake-then-release window of SharedFd::drop)
    {"name": "sharedfd-miri-p5", "build": "miri", "pkg": "vpure", "cmd": "c06a", "shards": {"quick": 3, "thorough": 8}, "schedule_dependent": True,
     "miriflags": "-Zmiri-seed=7 -Zmiri-preemption-rate=0.05",
     "args": {"quick": ["--seq-k", 0, "--iters", 40],
              "thorough": ["--seq-k", 0, "--iters", 800]},
     "timeout_s": {"quick": 400, "thorough": 3000}},
    {"name": "sharedfd-tsan", "build": "tsan", "pkg": "vpure", "cmd": "c06a", "shards": {"quick": 1, "thorough": 4}, "schedule_dependent": True,
     "args": {"quick": ["--seq-k", 3, "--iters", 800, "--budget-ms", 40000],
              "thorough": ["--seq-k", 4, "--iters", 30000, "--budget-ms", 300000]},
     "timeout_s": {"quick": 300, "thorough": 900}},
]

PROP = {
    "level": "exploration",
    "level_text": ("SharedFd take/drop protocol: every order of {release of one of k <= 4 other handles by drop / clone+drop / "
                   "second take() / unpolled take(), poll of the taker, taker gives up} is enumerated on one thread "
                   "(exhaustive inside that bound, `sync` flavour), and the same releases are run on 1-3 other threads against "
                   "an executor-faithful taker under Miri (hundreds of interleavings per run, data-race/UAF/leak detection, "
                   "weak memory), ThreadSanitizer and natively. Interleavings are sampled, not enumerated: evidence, not proof."),
    "level_note": ("Trusted: ProbeFd (a fake descriptor whose Drop is the 'close'), the harness' counting waker and its "
                   "started/done counters (SeqCst). The `unsync` flavour of SharedFd (Rc + RefCell slot) is NOT covered by the "
                   "protocol leg: compio-driver's feature `sync` is crate-wide and this binary needs it for the threaded part. "
                   "Liveness is judged executor-faithfully: a take() that is Pending after every other handle is gone with no "
                   "wake outstanding never completes under any executor; no clock is involved."
                   " Builds: the fusion build (both drivers in one binary) carries the bulk of the runs; the legs `iour-only` / `poll-only` repeat the workloads with compio-driver compiled for a single driver (io-uring only is the default build of compio), so the #[cfg(not(fusion))] glue is exercised too, at a smaller volume."),
    "technique": ("runtime monitoring: protocol oracle over enumerated single-thread orders and Miri/TSan/native multi-thread runs "
                  "of the real SharedFd<ProbeFd>"),
    "rule": ("c06a case = (k other handles, release kind per handle, threads, taker plan: pre-poll / wait / give up after n polls); "
             "oracle: take() Pending while any other handle has not begun to be released; once every release call has returned, "
             "either a wake is outstanding and the next poll is Ready(Some), or the taker already has the fd (otherwise: stuck); "
             "first taker never gets None, a second concurrent take() gets None at once; ProbeFd dropped exactly once, never "
             "while a handle is alive, by the taker's thread if take() returned it. Non-trivial = >= 2 holders (always here); "
             "distinct = (mode, k, threads, release-kind multiset, last release kind, pre-polled?, closer waiting at the last "
             "release?, polls/wakes class, outcome)"),
    "assumptions": [
        "handles are released only through public API: drop, clone, take() (polled or not)",
        "a wake that arrives while the taker is being polled counts as outstanding (what every executor does)",
    ],
    "legs": LEGS + [
        # runtime level: /proc/self/fd census, close() protocol on File / TcpStream / UnixStream, cancelled fd-producing ops
        {"name": "rt-census", "build": "plain", "pkg": "vdrv", "cmd": "c06", "shards": 8,
         "args": {"quick": ["--iters", 400, "--budget-ms", 45000], "thorough": ["--iters", 20000, "--budget-ms", 400000]},
         "timeout_s": {"quick": 240, "thorough": 900}},
        {"name": "rt-census-asan", "build": "asan", "pkg": "vdrv", "cmd": "c06", "shards": 4,
         "args": {"quick": ["--iters", 100, "--budget-ms", 40000], "thorough": ["--iters", 4000, "--budget-ms", 400000]},
         "timeout_s": {"quick": 240, "thorough": 900}},
        # single-driver configuration of compio-driver (#[cfg(not(fusion))] glue; `iour-only` is compio's default build)
        {"name": "rt-census-iour-only", "build": "plain-iour", "pkg": "vdrv", "cmd": "c06", "shards": 2,
         "args": {"quick": ["--driver", "iour", "--iters", 200, "--budget-ms", 40000], "thorough": ["--driver", "iour", "--iters", 8000, "--budget-ms", 300000]},
         "timeout_s": {"quick": 240, "thorough": 900}},
        # single-driver configuration of compio-driver (#[cfg(not(fusion))] glue; `iour-only` is compio's default build)
        {"name": "rt-census-poll-only", "build": "plain-poll", "pkg": "vdrv", "cmd": "c06", "shards": 2,
         "args": {"quick": ["--driver", "poll", "--iters", 200, "--budget-ms", 40000], "thorough": ["--driver", "poll", "--iters", 8000, "--budget-ms", 300000]},
         "timeout_s": {"quick": 240, "thorough": 900}},
    ],
}
