"""C07 — managed buffer pool: exclusive ownership and conservation."""

PROP = {
    "level": "exploration",
    "level_text": ("Seeded programs of managed and multishot reads (stream socket, pipe, file) over the Proactor API with arbitrary "
                   "hold times of the returned BufferRefs, cancellations, key drops and proactor drops, pool sizes 1-16, buffer "
                   "lengths 8-256, on the io_uring buffer ring and the fallback pool. Oracles: live BufferRefs never overlap; a held "
                   "buffer's content never changes while held; delivered bytes are consecutive pieces of what was sent; a "
                   "behavioural census after each program (exactly pool_size further managed reads succeed while held, the next "
                   "fails promptly with an error, and again after release); buffers outliving the proactor stay readable; canary "
                   "allocator for writes into released pool memory; event-log rules of C01 on every operation."),
    "level_note": ("The census is behavioural on purpose: probing BufferPool::take(id) would itself hand out a buffer the kernel "
                   "may own. Trusted: kernel buffer-ring semantics (IORING_OP_PROVIDE via mapped ring), -ENOBUFS on exhaustion. "
                   "UDP / recv_msg managed variants are exercised by the C14 workloads."
                   " Builds: the fusion build (both drivers in one binary) carries the bulk of the runs; the legs `iour-only` / `poll-only` repeat the workloads with compio-driver compiled for a single driver (io-uring only is the default build of compio), so the #[cfg(not(fusion))] glue is exercised too, at a smaller volume."),
    "technique": "runtime monitoring: aliasing/stability/conservation monitors over seeded managed-read programs, canary allocator, ASan",
    "rule": ("programs = seeded action lists {managed read, multishot read, feed, poll, pop (hold the buffer), release, cancel, key "
             "drop, check, proactor drop} x driver x pool size x buffer length; non-trivial if a buffer was held across a later "
             "completion or exhaustion was reached; distinct = (driver, pool size, buffer length, max held (capped), "
             "held-across-completion?, exhausted?, ended by proactor drop or census)"),
    "assumptions": ["effective pool size = next power of two of the configured size (as the code documents)"],
    "legs": [
        {"name": "plain", "build": "plain", "pkg": "vdrv", "cmd": "c07", "shards": 16,
         "args": {"quick": ["--iters", 500, "--budget-ms", 50000], "thorough": ["--iters", 12000, "--budget-ms", 400000]},
         "timeout_s": {"quick": 240, "thorough": 900}},
        {"name": "asan", "build": "asan", "pkg": "vdrv", "cmd": "c07", "shards": 8,
         "args": {"quick": ["--no-canary", "--iters", 100, "--budget-ms", 40000], "thorough": ["--no-canary", "--iters", 2500, "--budget-ms", 400000]},
         "timeout_s": {"quick": 240, "thorough": 900}},
        # single-driver configuration (the default build of compio): the #[cfg(not(fusion))] glue of compio-driver
        {"name": "iour-only", "build": "plain-iour", "pkg": "vdrv", "cmd": "c07", "shards": 3,
         "args": {"quick": [] + ["--driver", "iour", "--iters", 250, "--budget-ms", 40000],
                  "thorough": [] + ["--driver", "iour", "--iters", 5000, "--budget-ms", 300000]},
         "timeout_s": {"quick": 240, "thorough": 900}},
        # single-driver configuration (polling only): the #[cfg(not(fusion))] glue of compio-driver
        {"name": "poll-only", "build": "plain-poll", "pkg": "vdrv", "cmd": "c07", "shards": 3,
         "args": {"quick": [] + ["--driver", "poll", "--iters", 250, "--budget-ms", 40000],
                  "thorough": [] + ["--driver", "poll", "--iters", 5000, "--budget-ms", 300000]},
         "timeout_s": {"quick": 240, "thorough": 900}},
    ],
}
