"""C08 — file and pipe I/O matches the OS, identically on every driver."""

PROP = {
    "level": "exploration",
    "level_text": ("Seeded random programs of file, pipe and directory operations are executed step by step by four executors "
                   "on their own copies of one initial directory tree: the OS's own synchronous calls (libc/std::fs), compio-fs "
                   "on io_uring, on the polling driver, and on io_uring with a random subset of the opcodes that have a blocking "
                   "fallback forced unsupported. After every step the result (Ok(n) / error kind + errno), every byte of the "
                   "returned buffers' allocations, member lengths, metadata and data results are compared with the reference, "
                   "and after every mutating step the whole tree (type, mode, nlink, length, content). Exploration of a very "
                   "large space (operation x buffer shape x offset/length class x tree state x driver); no exhaustiveness "
                   "claim; an ASan leg re-runs a smaller sample for the pointer/length derivation."),
    "level_note": ("Leg pipe-transfer: writer and reader tasks of one runtime move position-tagged data through an anonymous pipe "
                   "/ FIFO (content + count + EOF oracle); a /proc monitor reports a runtime thread that sleeps inside a data "
                   "system call for 40 consecutive looks without a context switch (blocking descriptor on the runtime thread); "
                   "not finishing for any other reason is inconclusive. Differential legs: trusted: libc/std::fs on tmpfs (/dev/shm) of this sandbox as the reference; the harness's shadow model of "
                   "which bytes a buffer shape exposes to the OS (documented IoBuf/IoBufMut semantics, independent of "
                   "compio-buf's implementation; compio-buf itself is C10). Steps that would block (empty pipe, FIFO open "
                   "without peer, zero-length read waiting for readiness) are decided by the non-blocking reference and skipped "
                   "for all executors. READ/WRITE/READV/WRITEV/FSYNC cannot be forced unsupported (no fallback exists; compio "
                   "requires them for io_uring). Runs as root here: EACCES paths are not reachable. Where two error conditions "
                   "coexist and the kernel's io_uring and syscall paths order them differently (name-level errors such as an "
                   "empty path combined with a second error) no program is generated."),
    "technique": "runtime monitoring: differential execution against a reference executor (libc/std::fs) and across drivers, per-step oracle over results, buffers and tree snapshots; AddressSanitizer leg",
    "rule": ("[pipe-transfer leg: a case is one transfer (driver, anonymous/FIFO, total 1 B..1 MiB, writer chunking, reader "
             "buffer sizes, reader delay, write vs write_all); distinct = (driver, pipe kind, size class vs pipe capacity, "
             "write method, short writes seen?, late reader?)] differential legs: cases = steps compared across the four executors; programs = 6..40 steps from {open with all OpenOptions "
             "combinations/custom_flags/mode, close, read_at, write_at, read_vectored_at, write_vectored_at, set_len, "
             "sync_all/sync_data, File::metadata/set_permissions, metadata/symlink_metadata/set_permissions, create_dir(_all), "
             "DirBuilder.mode, remove_file/dir, rename, symlink, hard_link, fs::read/write, pipe::anonymous, named pipe open "
             "(read_write/unchecked), pipe read/read_vectored/append/write/write_vectored, close, splice}; offsets {0, mid, "
             "EOF-1, EOF, beyond, far, huge, >=2^63}; buffer shapes {Vec len</=cap, empty, [u8;N], Box<[u8]>, Slice, Uninit, "
             "BytesMut, &'static [u8], &str, String, Bytes, Vec<Vec>, [Vec;3], tuple, Vec<Box<[u8]>>, Vec<&[u8]>, "
             "VectoredSlice; members empty / full / partial}; a case is non-trivial when all executors ran the step; "
             "distinct = distinct (op@target, buffer shape class, offset class, length class, outcome class) tuples"),
    "assumptions": [
        "tmpfs semantics of /dev/shm in this sandbox are the reference for errno values and short counts",
        "the harness process owns descriptors 0..2 (stdin is replaced by /dev/null) so a descriptor mix-up inside compio is observable",
        "a hang of one step is reported as inconclusive by the watchdog (20 s without progress), never as a violation",
        "which of two simultaneous error conditions is reported is not part of the property",
    ],
    "legs": [
        {"name": "plain", "build": "plain", "pkg": "vrt", "cmd": "c08", "shards": 16,
         "args": {"quick": ["--iters", 1500, "--budget-ms", 70000],
                  "thorough": ["--iters", 20000, "--budget-ms", 480000]},
         "timeout_s": {"quick": 400, "thorough": 1200}},
        {"name": "asan", "build": "asan", "pkg": "vrt", "cmd": "c08", "shards": 4,
         "args": {"quick": ["--iters", 80, "--budget-ms", 60000, "--min-trials", 8],
                  "thorough": ["--iters", 3000, "--budget-ms", 420000, "--min-trials", 8]},
         "timeout_s": {"quick": 400, "thorough": 1200}},
        # concurrent transfers: writer and reader are tasks of the same runtime, 1 B .. 1 MiB through an anonymous
        # pipe / FIFO in every chunking; content oracle + /proc monitor "runtime thread asleep inside a data syscall"
        {"name": "pipe-transfer", "build": "plain", "pkg": "vdrv", "cmd": "c08p", "shards": 4,
         "args": {"quick": ["--iters", 60, "--budget-ms", 50000], "thorough": ["--iters", 1500, "--budget-ms", 420000]},
         "timeout_s": {"quick": 300, "thorough": 900}},
    ],
}
