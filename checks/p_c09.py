"""C09 — timers never fire early and always fire."""

PROP = {
    "level": "exploration",
    "level_text": ("Seeded timer programs (deadline sets of 1-64 sleeps / deadlines / timeouts / interval ticks with "
                   "creation, drop, park and hold orders, racing pipe reads and cross-thread wakes) run against the "
                   "real compio-runtime on the real clock, on io_uring and on epoll, under an online monitor. "
                   "Exploration of a sampled program space; not exhaustive, and real-time interleavings are not "
                   "controlled."),
    "level_note": ("Trusted: Instant::now() (monotone on the runtime thread), the PollEnter{timeout} event and the "
                   "before/after-wait pause points of the driver hooks, the harness' own model of which timers are "
                   "live. The 'always fires' half is decided from what the run loop asks the driver for and from "
                   "which wakers were woken, never from how late something completed; a watchdog only produces "
                   "INCONCLUSIVE."),
    "technique": ("runtime monitoring: online oracle over the driver-poll event log (PollEnter timeout, wait pause "
                  "points), per-timer probe futures / probe wakers, current_timeout() probes, scripted inner "
                  "futures for timeouts; heartbeat thread for stall detection"),
    "rule": ("program = driver x deadline-set shape {single, equal, 1 ns / 1 us ladders, ms-dense, past/now mix, "
             "2-3 clusters >= 300 ms apart, far (5 s .. 10 y), 17-64 mixed} x per-timer API (sleep, sleep_until, "
             "timeout, timeout_at; interval/interval_at actors) x host (main future or one of up to 4 spawned tasks) x "
             "fate (await / poll once and park / never poll / hold after completion) x actions (drop or create "
             "another timer when one completes, from another task; end-of-program drop order) x races (pipe write "
             "or flag+wake from another thread at deadline +- 0..2 ms) x event_interval {61,1,2,7}. Oracles: "
             "(1) never early: Instant::now() right after Ready >= deadline, no tolerance; (2) every driver poll "
             "entered with waiting timers has a timeout and now+timeout <= max(nearest deadline, now) + 100 ms; "
             "(3) after a driver poll that began after a waiting timer's deadline, the wake pass that follows must "
             "have woken the timer's most recent waker before the next driver poll, and the timer's next poll is "
             "Ready; (4) Runtime::current_timeout() names exactly the nearest live timer (none lost, none left "
             "behind by drop or expiry), and is None when nothing is left; an idle block_on then polls the driver "
             "without timeout until a cross-thread wake; (5) Timeout is Ok(v) iff the scripted inner future "
             "(ready at poll k / once an instant passed / on a cross-thread flag) is ready when polled, inner "
             "first; (6) interval ticks: first tick == start, (t_k - start) mod period == 0, strictly increasing, "
             "not in the future, at most one period after the call. A case is one program; distinct = distinct "
             "(family, shape, size class, event kinds, driver) strings."),
    "assumptions": [
        "the real clock is used (compio reads Instant::now() directly); durations are ms-scale, far deadlines are never awaited",
        "lateness is never a verdict: only the requested driver timeout, the wake pass and current_timeout() are judged; "
        "the 100 ms slack applies to oracle (2) only and that sub-check is skipped when the runtime thread or the heartbeat "
        "thread saw a scheduling stall (counted, INCONCLUSIVE if a finding was suppressed)",
        "mutations that differ only when a deadline equals Instant::now() to the nanosecond (`<` vs `<=` in insert, "
        "generation 0 in wake's split key) are not observable on a real clock and not claimed",
        "re-entrant use (a timer's waker dropping or creating a timer inside wake()) is part of the workload and is held to "
        "the same oracles; a panic inside compio there is reported as C09/panic@<file>/{drop,create}-in-waker/<driver>",
    ],
    "legs": [
        {"name": "plain", "build": "plain", "pkg": "vrt", "cmd": "c09", "shards": 16,
         "args": {"quick": ["--budget-ms", 40000],
                  "thorough": ["--budget-ms", 330000]},
         "timeout_s": {"quick": 240, "thorough": 900}},
    ],
}
