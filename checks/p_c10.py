"""C10 — all buffer views obey one contract."""
from common import MIRI_BASE

PROP = {
    "level": "fault_enumeration",
    "level_text": ("Every view composition and fill sequence inside the stated bound (capacity <= 3-4, <= 2-3 steps, all root "
                   "kinds) is executed against the real compio-buf types and compared with a shadow model of the root "
                   "allocation; larger seeded random programs on top, a sample under Miri (Stacked and Tree Borrows). "
                   "Exhaustive inside the bound, exploration beyond it; not a proof for unbounded sizes."),
    "level_note": ("Trusted: the root types' own accessors as ground truth; the harness wrapper DynBuf that type-erases nested "
                   "views (it only forwards). Pool buffers (BufferRef) only exist next to a driver and cannot run under Miri: legs "
                   "`pool-buffers*` run seeded programs {fill + advance/advance_to/set_len, set_len down, set_capacity up / below "
                   "the recorded length / 0, fill through slice(range) and uninit()} over a buffer popped from the fallback pool "
                   "(polling driver) and a buffer handed out by a managed read on the io_uring ring, exploration only."),
    "technique": "runtime monitoring: shadow-model monitor over enumerated + seeded view programs, Miri (UB/aliasing/uninit)",
    "rule": ("programs = root buffer kind x shape x sequence of view constructions (slice(range), uninit(), "
             "slice+flatten, vectored slice(begin)/slice_mut(begin), owned_iter/next) and fills (append via "
             "advance/advance_to/set_len, I/O-style via advance_to, vectored via set_len/advance_vec_to); "
             "enumerated exhaustively up to the stated capacity/step bound through an odometer over all choice "
             "sequences, plus seeded random programs with larger bounds; a case is non-trivial if it has nesting "
             "depth >= 2 or at least one fill; distinct = distinct (leg, root kind, view/fill-kind path) strings; pool-buffer legs: a case "
             "is one program, distinct = (driver, buffer length, capacity shrunk below the recorded length?, filled through a view?)"),
    "assumptions": [
        "fills respect the unsafe preconditions of SetLen as seen through the view (bytes written before being recorded)",
        "ground truth for roots is the root type's own API (Vec::len/capacity/as_ptr ...), trusted",
        "Miri leg covers a seeded sample of the same programs (aliasing/uninit/out-of-bounds become reports)",
    ],
    "legs": [
        {"name": "native", "build": "plain", "pkg": "vpure", "cmd": "c10", "shards": 16,
         "args": {"quick": ["--ex-cap", 3, "--ex-steps", 2, "--iters", 30000, "--budget-ms", 90000],
                  "thorough": ["--ex-cap", 4, "--ex-steps", 3, "--iters", 600000, "--budget-ms", 420000]},
         "timeout_s": {"quick": 300, "thorough": 900}},
        {"name": "miri", "build": "miri", "pkg": "vpure", "cmd": "c10", "shards": 12,
         "miriflags": MIRI_BASE,
         # Stacked Borrows (Miri default); BytesMut roots (bit 7) run in their own legs below
         "args": {"quick": ["--kinds", 0x17f, "--ex-steps", 0, "--iters", 250, "--rnd-cap", 8, "--rnd-steps", 5, "--budget-ms", 60000],
                  "thorough": ["--kinds", 0x17f, "--ex-steps", 0, "--iters", 4000, "--rnd-cap", 10, "--rnd-steps", 6, "--budget-ms", 400000]},
         "timeout_s": {"quick": 400, "thorough": 1200}},
        {"name": "miri-tb", "build": "miri", "pkg": "vpure", "cmd": "c10", "shards": 3,
         "miriflags": MIRI_BASE + " -Zmiri-tree-borrows",
         "args": {"quick": ["--ex-steps", 0, "--iters", 250, "--rnd-cap", 8, "--rnd-steps", 5, "--budget-ms", 60000],
                  "thorough": ["--ex-steps", 0, "--iters", 4000, "--rnd-cap", 10, "--rnd-steps", 6, "--budget-ms", 400000]},
         "timeout_s": {"quick": 400, "thorough": 1200}},
        {"name": "miri-sb-bytesmut", "build": "miri", "pkg": "vpure", "cmd": "c10", "shards": 1,
         "miriflags": MIRI_BASE,
         "args": ["--kinds", 0x80, "--ex-steps", 0, "--iters", 60, "--rnd-cap", 8, "--rnd-steps", 4, "--budget-ms", 30000],
         "timeout_s": 300},
        # pool buffers (BufferRef): only exist next to a driver -> native crate vdrv, both drivers
        {"name": "pool-buffers", "build": "plain", "pkg": "vdrv", "cmd": "c10p", "shards": 2,
         "args": {"quick": ["--iters", 6000, "--budget-ms", 40000], "thorough": ["--iters", 200000, "--budget-ms", 300000]},
         "timeout_s": {"quick": 200, "thorough": 600}},
        {"name": "pool-buffers-asan", "build": "asan", "pkg": "vdrv", "cmd": "c10p", "shards": 1,
         "args": {"quick": ["--iters", 2000, "--budget-ms", 40000], "thorough": ["--iters", 50000, "--budget-ms", 300000]},
         "timeout_s": {"quick": 200, "thorough": 600}},
    ],
}
