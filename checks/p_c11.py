"""C11 — I/O helpers are invariant under chunking and transient errors."""
from common import MIRI_BASE

PROP = {
    "level": "fault_enumeration",
    "level_text": ("Every program inside the bound is executed against the real compio-io helpers: payload length n <= 7 "
                   "(quick) / 9 (thorough), every composition of n into chunk sizes x every single position of an injected "
                   "Interrupted / other error kind / early Ok(0) x destination capacities {0,1,n-1,n,n+1,2n}, pre-existing "
                   "content, start positions (including beyond the end) and vectored member layouts, for read_exact, "
                   "read_to_end(_at), read_to_string, read_vectored_exact(_at), append, write_all(_at), "
                   "write_vectored_all(_at), copy, BufReader, BufWriter, Take, split halves and the in-memory "
                   "readers/writers/cursors; seeded random scripts with several faults for n <= 4096 on top and a seeded "
                   "sample of the same programs under Miri. Exhaustive inside the bound, exploration beyond it; not a "
                   "proof for unbounded sizes or for more than one fault per enumerated script."),
    "level_note": ("Trusted: the scripted streams of the harness (they record a transfer like compio's own readers: copy into "
                   "as_uninit(), then advance_to / advance_vec_to) and the Vec/slice reference model. The split halves are "
                   "exercised in the flavour the harness is built with (feature `sync`); the unsync flavour is the same "
                   "code over synchrony::unsync and is not built here. flush()/shutdown() of the scripted writer never "
                   "fail. Degenerate buffer capacities 0 (BufReader/BufWriter/copy buffer) are run but only checked for "
                   "no loss / no duplication / no panic, not for completeness."),
    "technique": ("runtime monitoring: scripted in-memory streams + log-based reference oracle over enumerated and seeded "
                  "fault scripts, step bound against endless loops, panic capture, Miri (UB/uninit) on a sample"),
    "rule": ("program = helper x payload length n x script (composition of n into chunk sizes, optionally one injected "
             "step Interrupted | Err(kind) | Ok(0) at any position) x helper parameters (capacity class, pre-existing "
             "content, start position class, member layout, native/default vectored stream); enumerated exhaustively "
             "by an odometer over all choice sequences, sharded by index; plus seeded samples of the same generator "
             "and seeded large scripts (n <= 4096, chunk scales 1..4096, several faults). The oracle is a function of "
             "the stream's own log: destination = bytes delivered (appended after preserved pre-existing content), "
             "consumed = reported, first failing stream call decides the error kind (UnexpectedEof / WriteZero / "
             "propagated kind, Interrupted retried where documented), no call after a failure, no panic in compio, "
             "stream calls <= 4*(steps+n)+64. A case is non-trivial if the stream was called at least once; distinct "
             "= distinct (helper, composition class, fault kind@position class, capacity class) and (helper, API "
             "variant, capacity class, position class) strings"),
    "assumptions": [
        "scripted streams are always ready (futures complete at the first poll); pending/wake behaviour is C12's subject",
        "a transfer is recorded with advance_to / advance_vec_to as compio's own readers and drivers do",
        "after an error the scripted stream stays usable (transient fault); callers of BufReader/BufWriter retry",
        "Miri leg covers a seeded sample of the same programs (uninitialised reads, out-of-bounds, aliasing become reports)",
    ],
    "legs": [
        {"name": "miri", "build": "miri", "pkg": "vpure", "cmd": "c11", "shards": 8,
         "miriflags": MIRI_BASE,
         "args": {"quick": ["--ex", 0, "--sample", 150, "--sample-n", 5, "--iters", 20, "--rnd-n", 48],
                  "thorough": ["--ex", 0, "--sample", 1800, "--sample-n", 6, "--iters", 200, "--rnd-n", 64]},
         "timeout_s": {"quick": 400, "thorough": 1500}},
        {"name": "plain", "build": "plain", "pkg": "vpure", "cmd": "c11", "shards": 16,
         "args": {"quick": ["--ex-n", 7, "--sample", 20000, "--iters", 1000000, "--budget-ms", 30000],
                  "thorough": ["--ex-n", 9, "--sample", 200000, "--iters", 100000000, "--budget-ms", 270000]},
         "timeout_s": {"quick": 300, "thorough": 1200}},
    ],
}
