"""C12 — blocking-style and poll-style adapters are lossless FIFO pipes."""
from common import MIRI_BASE

PROP = {
    "level": "fault_enumeration",
    "level_text": ("Every call script of up to 6 (quick) / 7 (thorough) adapter calls, over every inner transfer script with up "
                   "to 3 (second thorough leg: 4) non-benign steps {short transfer, zero-length accept, Pending-until-released, "
                   "error, early EOF}, for base capacity in {1,2,4} x max_buffer_size in {4,8}, is executed against the real "
                   "SyncStream and AsyncStream and compared after every call with a two-queue reference model; seeded random "
                   "scripts with larger sizes, both directions mixed, several error kinds and changing wakers on top; samples "
                   "under Miri. Exhaustive inside the bound, exploration beyond it; not a proof for unbounded scripts."),
    "level_note": ("Trusted: the scripted inner stream (records what it produced/received; it is the ground truth), the "
                   "counting wakers. The read_buf (nightly BorrowedCursor) entry point is not built. Cancellation (dropping "
                   "fill_read_buf/flush_write_buf futures half-way) is outside the quantifier and not generated for the sync "
                   "adapter. Under Miri the poll adapter is sampled only with inner calls that complete at once, plus one "
                   "tiny deterministic leg with Pending inner calls (re-polling an in-flight boxed future)."),
    "technique": "runtime monitoring: reference-model monitor over enumerated + seeded call scripts x inner transfer scripts, Miri",
    "rule": ("program = adapter in {SyncStream, AsyncStream} x side x (base_capacity, max_buffer_size) x sequence of calls "
             "{read(k), fill_buf+consume(j), read_buf_uninit(k), fill_read_buf, write(m), flush, flush_write_buf, into_parts | "
             "poll_read(k), poll_read_uninit(k), poll_fill_buf+consume(j), poll_write(m), poll_flush, poll_close, release of a "
             "blocked inner call} where every inner read/write/flush/shutdown draws its outcome lazily from the same choice "
             "sequence; enumerated by an odometer over all choice sequences with iterative deepening over the number of calls "
             "(so the first violation of a class is a shortest one), then seeded random programs; after the script the "
             "adapter is drained against a benign inner stream. Non-trivial = at least one WouldBlock/Pending, partial or "
             "failed flush, compaction, limit or other non-benign inner step; distinct = (leg, adapter+side, set of entry "
             "points used, inner script class, limit reached?)"),
    "assumptions": [
        "one caller at a time per adapter (calls are sequential; different entry points model different tasks only through their wakers)",
        "BufRead::consume is called with at most the length fill_buf just returned; no poll_write after the first poll_close",
        "the inner stream follows the completion-style contract (keeps the most recent waker, fills from the start of the buffer it is given)",
        "buffered bytes are measured at the inner stream: accepted - received, produced - handed out",
    ],
    "legs": [
        # Miri legs first: they are the long poles and should start at once.
        {"name": "miri-sync", "build": "miri", "pkg": "vpure", "cmd": "c12", "shards": {"quick": 4, "thorough": 6},
         "miriflags": MIRI_BASE,
         "args": {"quick": ["--adapters", 1, "--ex-ops", 0, "--iters", 22, "--rnd-ops", 14, "--rnd-payload", 40, "--budget-ms", 60000],
                  "thorough": ["--adapters", 1, "--ex-ops", 0, "--iters", 150, "--rnd-ops", 16, "--rnd-payload", 60, "--budget-ms", 420000]},
         "timeout_s": {"quick": 400, "thorough": 1200}},
        {"name": "miri-poll", "build": "miri", "pkg": "vpure", "cmd": "c12", "shards": {"quick": 4, "thorough": 6},
         "miriflags": MIRI_BASE,
         # inner calls complete at once (--pend 0): the boxed futures never outlive one adapter call
         "args": {"quick": ["--adapters", 2, "--pend", 0, "--ex-ops", 0, "--iters", 22, "--rnd-ops", 14, "--rnd-payload", 40, "--budget-ms", 60000],
                  "thorough": ["--adapters", 2, "--pend", 0, "--ex-ops", 0, "--iters", 150, "--rnd-ops", 16, "--rnd-payload", 60, "--budget-ms", 420000]},
         "timeout_s": {"quick": 400, "thorough": 1200}},
        {"name": "miri-poll-pending", "build": "miri", "pkg": "vpure", "cmd": "c12", "shards": 1,
         "miriflags": MIRI_BASE,
         # deterministic, tiny: the shortest programs in which a Pending inner call is polled again
         "args": ["--adapters", 2, "--ex-ops", 2, "--ex-atoms", 1, "--iters", 0, "--budget-ms", 120000],
         "timeout_s": 600},
        {"name": "native", "build": "plain", "pkg": "vpure", "cmd": "c12", "shards": 16,
         "args": {"quick": ["--ex-ops", 6, "--ex-atoms", 3, "--iters", 100000, "--budget-ms", 240000],
                  "thorough": ["--ex-ops", 7, "--ex-atoms", 3, "--iters", 1000000, "--budget-ms", 560000]},
         "timeout_s": {"quick": 600, "thorough": 1500}},
        {"name": "native-atoms4", "build": "plain", "pkg": "vpure", "cmd": "c12", "shards": 16,
         "skip": {"quick": True, "thorough": False},
         "args": ["--ex-ops", 6, "--ex-atoms", 4, "--iters", 0, "--budget-ms", 400000],
         "timeout_s": 1200},
    ],
}
