"""C13 — framing and ancillary codecs: round trip and hostile-input safety."""
from common import MIRI_BASE

TB = MIRI_BASE + " -Zmiri-tree-borrows"

PROP = {
    "level": "fault_enumeration",
    "level_text": ("The real Sink half of Framed encodes frame lists into a recording writer (short writes scripted) and the real "
                   "Stream half decodes the byte stream from an always-ready in-memory reader under EVERY fragmentation and EVERY "
                   "EOF placement for all streams up to 13 (quick) / 16 (thorough) bytes, every pair of cut points resp. (EOF, cut) "
                   "pair for streams up to 40 / 72 bytes, for LengthDelimited width 1..8 x both endiannesses, three CharDelimited, "
                   "five AnyDelimited (multi-byte, self-overlapping) and NoopFramer; seeded lists with boundary payload lengths "
                   "(0,1,2,255,256,...,65536,70000), bytes and serde_json codecs, beyond that. Hostile peers: every string up to "
                   "7 / 8 bytes over header-like resp. delimiter bytes, a boundary dictionary of length fields, seeded garbage, "
                   "compared with a reference parser; debug and overflow-checks-off builds. Ancillary: every message list up to 3 "
                   "messages over 8 value kinds x every capacity, seeded lists over 15 kinds, AncillaryBuf<N> and a heap buffer, "
                   "against libc CMSG_* arithmetic; well-formed and malformed control buffers against a reference walker; a probe "
                   "AncillaryData type observes the slice handed to decode(). A sample of all parts under Miri. Exhaustive inside "
                   "the stated bounds, exploration beyond; not a proof for unbounded streams."),
    "level_note": ("Trusted: the in-memory reader/writer and the step-bounded poll loop of the harness, serde_json, libc's CMSG_* "
                   "functions (compio calls them too; the reference uses own offset arithmetic), the documented wire format as "
                   "reference for peer bytes. Delimiter framers cannot carry payloads in which the delimiter occurs (no escaping): "
                   "such lists are not generated. Malformed control buffers (class invalid-chain) are outside the safety contract of "
                   "the unsafe AncillaryIter::new and outside the property: they are run and counted (obs_invalid_chain:*), never judged."),
    "technique": ("runtime monitoring: differential oracle (encoded list vs decoded list; reference parser; libc CMSG arithmetic) over "
                  "enumerated fragmentations + seeded inputs, panic capture in debug and release, step bound on reads, probe type for "
                  "slice bounds, Miri (Stacked and Tree Borrows) on samples"),
    "rule": ("round trip: (framer params, codec, frame list, sink mode + short-write script, fragmentation, EOF placement); "
             "enumerated: all compositions x all truncations of every stream <= N bytes built from payload lengths {0,1,2,3} "
             "(0..4 frames), all cut pairs for streams <= M bytes from payload lengths {0,2,9}; hostile: all strings <= K bytes "
             "over a 4..5 letter alphabet per framer x {whole, bytewise, every 2-split}, dictionary of length-field values "
             "(0, field max, 2^32-1, 2^63, 2^64-1 ...), seeded classes; ancillary: all lists <= 3 over 8 kinds x every capacity "
             "0..=SPACE+17; a case is trivial if it is a single frame (or none) delivered whole without truncation, or an empty "
             "message list; distinct = distinct (leg, part, framer, codec, #frames, fragmentation class, EOF class) resp. "
             "(buffer type, #messages, last kind, fit class) resp. (hostile class, outcome class) strings"),
    "assumptions": [
        "reader and writer are always ready; a Pending from Framed on such a source is reported as a stall",
        "payloads of delimiter framers do not contain the delimiter (and do not form it with the appended delimiter)",
        "the documented wire format (length prefix of the configured width/endianness; payload followed by the delimiter) is what a peer speaks",
        "hostile control buffers: valid-chain = what a kernel can deliver (well-formed chain, foreign data lengths, truncated last message); "
        "invalid-chain = malformed cmsg_len, outside the unsafe contract of AncillaryIter::new: observed and counted only",
        "Miri legs run seeded samples and tiny enumerations only (cost), with exact heap allocations for the control buffer",
    ],
    "legs": [
        {"name": "native", "build": "plain", "pkg": "vpure", "cmd": "c13", "shards": 16,
         "args": {"quick": ["--ex-n", 13, "--cuts-n", 40, "--hostile-n", 7, "--iters", 2500, "--hostile-iters", 6000,
                            "--anc-iters", 20000, "--anc-hostile-iters", 10000, "--budget-ms", 80000],
                  "thorough": ["--ex-n", 16, "--cuts-n", 72, "--hostile-n", 8, "--iters", 40000, "--hostile-iters", 60000,
                               "--anc-iters", 200000, "--anc-hostile-iters", 100000, "--budget-ms", 450000]},
         "timeout_s": {"quick": 400, "thorough": 1200}},
        # overflow checks off: what an attacker-chosen length does when the addition wraps
        {"name": "release", "build": "release", "pkg": "vpure", "cmd": "c13", "shards": 4,
         "args": {"quick": ["--parts", "hostile-ex,hostile-rand,custom-err,anc-hostile,rt-rand", "--hostile-n", 7, "--iters", 600,
                            "--hostile-iters", 20000, "--anc-hostile-iters", 20000, "--budget-ms", 60000],
                  "thorough": ["--parts", "hostile-ex,hostile-rand,custom-err,anc-hostile,rt-rand", "--hostile-n", 8, "--iters", 12000,
                               "--hostile-iters", 200000, "--anc-hostile-iters", 200000, "--budget-ms", 200000]},
         "timeout_s": {"quick": 300, "thorough": 1200}},
        # Miri, Stacked Borrows: framing state machines and buffer handling
        {"name": "miri-frame", "build": "miri", "pkg": "vpure", "cmd": "c13", "shards": {"quick": 4, "thorough": 6},
         "miriflags": MIRI_BASE,
         "args": {"quick": ["--parts", "rt-ex,rt-rand", "--ex-n", 3, "--iters", 8, "--rnd-max-len", 70, "--budget-ms", 40000],
                  "thorough": ["--parts", "rt-ex,rt-rand", "--ex-n", 4, "--iters", 200, "--rnd-max-len", 300, "--budget-ms", 260000]},
         "timeout_s": {"quick": 400, "thorough": 1500}},
        {"name": "miri-hostile", "build": "miri", "pkg": "vpure", "cmd": "c13", "shards": {"quick": 3, "thorough": 4},
         "miriflags": MIRI_BASE,
         "args": {"quick": ["--parts", "custom-err,hostile-rand", "--hostile-iters", 30, "--dict-stride", 23, "--budget-ms", 40000],
                  "thorough": ["--parts", "custom-err,hostile-rand,hostile-ex", "--hostile-iters", 400, "--dict-stride", 3, "--hostile-n", 3,
                               "--budget-ms", 260000]},
         "timeout_s": {"quick": 400, "thorough": 1500}},
        # Miri, Tree Borrows: CMSG pointer code with a heap control buffer; data() only where even a slice of cmsg_len
        # bytes from the data pointer would stay inside the allocation (data() on every message: leg miri-tb-anc-data)
        {"name": "miri-tb-anc", "build": "miri", "pkg": "vpure", "cmd": "c13", "shards": {"quick": 3, "thorough": 5},
         "miriflags": TB,
         "args": {"quick": ["--parts", "anc-rand,anc-hostile", "--anc-buf", "dyn", "--anc-data", "safe", "--anc-iters", 25,
                            "--anc-hostile-iters", 25, "--budget-ms", 40000],
                  "thorough": ["--parts", "anc-ex,anc-rand,anc-hostile", "--anc-ex-list", 1, "--anc-buf", "dyn", "--anc-data", "safe",
                               "--anc-iters", 300, "--anc-hostile-iters", 300, "--budget-ms", 260000]},
         "timeout_s": {"quick": 400, "thorough": 1500}},
        # single-purpose Miri legs: each isolates one aliasing / bounds question so that a finding there cannot mask the rest
        {"name": "miri-tb-anc-data", "build": "miri", "pkg": "vpure", "cmd": "c13", "shards": 1, "miriflags": TB,
         "args": ["--parts", "anc-rand", "--anc-buf", "dyn", "--anc-data", "all", "--anc-iters", 80, "--budget-ms", 40000],
         "timeout_s": 400},
        {"name": "miri-tb-ancbuf", "build": "miri", "pkg": "vpure", "cmd": "c13", "shards": 1, "miriflags": TB,
         "args": ["--parts", "anc-rand", "--anc-buf", "fixed", "--anc-data", "none", "--anc-iters", 250, "--budget-ms", 40000],
         "timeout_s": 400},
        {"name": "miri-sb-anc", "build": "miri", "pkg": "vpure", "cmd": "c13", "shards": 1, "miriflags": MIRI_BASE,
         "args": ["--parts", "anc-rand", "--anc-buf", "dyn", "--anc-data", "none", "--anc-iters", 12, "--budget-ms", 40000],
         "timeout_s": 400},
    ],
}
