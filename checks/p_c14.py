"""C14 — socket transports deliver exactly what was sent."""

PROP = {
    "level": "exploration",
    "level_text": ("Seeded programs over real loopback sockets inside one compio runtime per program, on both drivers "
                   "(io_uring and polling): TCP / Unix stream connections whose sender mixes write, vectored, write_all, "
                   "zero-copy (incl. deferred buffer futures), send_msg with ancillary data and split halves with sizes from "
                   "1 byte to several socket buffers, and whose receiver reconstructs the stream with read, vectored, "
                   "read_exact, managed, multishot (cancel + drain) and recv_msg variants into buffers that carry a tail "
                   "pattern; UDP datagram exchanges with unique ids, truncating buffers, source address and MSG_TRUNC checks; "
                   "accept scripts mixing single accepts with multishot incoming() streams that are dropped or cancelled "
                   "midway and re-armed. A sample of the programs runs under AddressSanitizer. Exploration of the program "
                   "space, not exhaustive; hangs are decided by logical quiescence."),
    "level_note": ("Trusted: the kernel's loopback transport, poll()/TIOCOUTQ/SO_MEMINFO as ground truth for 'readable', "
                   "'bytes still in flight' and 'kernel dropped'; std::net peers in the thread-peer variant. Not covered: "
                   "Unix datagram sockets (compio-net offers none), out-of-band data, Windows. A TSan leg was left out: the "
                   "code under test runs on one thread per runtime, the only second thread is a std::net peer."
                   " Builds: the fusion build (both drivers in one binary) carries the bulk of the runs; the legs `iour-only` / `poll-only` repeat the workloads with compio-driver compiled for a single driver (io-uring only is the default build of compio), so the #[cfg(not(fusion))] glue is exercised too, at a smaller volume."),
    "technique": ("runtime monitoring: end-to-end byte-stream / datagram / connection oracles with position-dependent "
                  "content, receive buffers with tail patterns, kernel-state probes for stall analysis; AddressSanitizer"),
    "rule": ("program = family (stream | dgram | accept) x transport x driver x connection set-up (compio connect/accept, "
             "from_std, std thread peer) x seeded operation scripts for both peers (kinds, sizes, buffer shapes, vectored "
             "cuts, pauses) x socket buffer sizes x buffer-pool geometry; a case is non-trivial always (every program moves "
             "data); distinct = distinct (family, transport, driver, set-up, send-kind set, recv-kind set, partial sends / "
             "truncation seen) strings"),
    "assumptions": [
        "loopback does not lose stream bytes; datagram volume in flight is kept below the receive buffer (the generator "
        "charges every datagram pessimistically), a kernel drop counted by SO_MEMINFO turns the case inconclusive",
        "a send that returns an error accepted nothing; zero-copy refused with EOPNOTSUPP (Unix sockets) counts as not offered",
        "ResourceBusy from an exhausted buffer pool is a transient condition (retried), never end-of-stream",
        "a stall verdict needs: no harness progress and no driver completion over the idle bound, and poll() on the "
        "blocked side reporting readiness (or an empty kernel send queue for lost bytes / missing EOF); everything else "
        "ends as inconclusive through the watchdog",
    ],
    "legs": [
        {"name": "plain", "build": "plain", "pkg": "vrt", "cmd": "c14", "shards": 16,
         "args": {"quick": ["--iters", 700, "--budget-ms", 75000],
                  "thorough": ["--iters", 4000, "--budget-ms", 480000]},
         "timeout_s": {"quick": 300, "thorough": 1200}},
        {"name": "asan", "build": "asan", "pkg": "vrt", "cmd": "c14", "shards": 8,
         "args": {"quick": ["--iters", 60, "--budget-ms", 60000, "--watchdog-ms", 60000],
                  "thorough": ["--iters", 700, "--budget-ms", 420000, "--watchdog-ms", 90000]},
         "timeout_s": {"quick": 400, "thorough": 1200}},
        # single-driver configuration of compio-driver (the #[cfg(not(fusion))] glue of the multishot / zero-copy / managed
        # operations; `iour-only` is compio's default build)
        {"name": "iour-only", "build": "plain-iour", "pkg": "vrt", "cmd": "c14", "shards": 4,
         "args": {"quick": ["--driver", "iour", "--iters", 300, "--budget-ms", 60000],
                  "thorough": ["--driver", "iour", "--iters", 2500, "--budget-ms", 420000]},
         "timeout_s": {"quick": 300, "thorough": 1200}},
        # single-driver configuration of compio-driver (the #[cfg(not(fusion))] glue of the multishot / zero-copy / managed
        # operations; `iour-only` is compio's default build)
        {"name": "poll-only", "build": "plain-poll", "pkg": "vrt", "cmd": "c14", "shards": 4,
         "args": {"quick": ["--driver", "poll", "--iters", 300, "--budget-ms", 60000],
                  "thorough": ["--driver", "poll", "--iters", 2500, "--budget-ms", 420000]},
         "timeout_s": {"quick": 300, "thorough": 1200}},
    ],
}
