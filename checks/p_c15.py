"""C15 — TLS and WebSocket layers preserve the stream over any transport behaviour."""

ASAN_OPTS = ("halt_on_error=1:abort_on_error=0:detect_leaks=0:symbolize=1:"
             "detect_stack_use_after_return=1")

PROP = {
    "level": "exploration",
    "level_text": ("TLS: the real compio-tls connector/acceptor/stream (native-tls/OpenSSL and rustls+ring, all four "
                   "client/server pairings, TLS 1.3 and 1.2) run without a runtime against an in-memory scripted duplex "
                   "under a deterministic two-task executor; the script family {per-call read limit, per-call write limit} "
                   "in {1,2,3,5,inf}^2 x transport {direct, buffering-until-flush, completion-model end behind the real "
                   "compio_io::compat::AsyncStream} x Pending patterns (never; Pending-then-k-ready for k=1..4 on read+write; "
                   "the same on read+write+flush+close) x hostile role {client, server, both} is enumerated completely, plus "
                   "seeded irregular scripts, schedules and message lists (0 B .. 64 KiB). WebSocket: compio-ws inside a "
                   "compio runtime (io_uring and poll drivers) over a fragmenting relay thread between two socket pairs "
                   "(unix/TCP, minimal socket buffers), plain and TLS-wrapped, seeded relay scripts and message lists "
                   "(text/binary/ping, 0 B .. 1 MiB, half duplex and full duplex through split() with the halves joined in one task or in two tasks, close from either side). Verdicts are logical "
                   "(executor deadlock detection / relay-probe quiescence), never by time. Exhaustive inside the stated "
                   "script family for TLS, exploration for everything seeded and for WebSocket; not a proof for all schedules."),
    "level_note": ("Trusted: OpenSSL, rustls, ring, tungstenite protocol logic; the harness duplex/executor/relay. "
                   "tungstenite's deliberate handshake 'attack check' (upgrade header in > 64 reads averaging < 128 B is "
                   "rejected) is counted, not judged. futures-rustls and async-tungstenite are part of the layer under test "
                   "as compio-tls / compio-ws ship them. Real kernel sockets make WebSocket runs schedule dependent; the "
                   "watchdog only yields inconclusive."),
    "technique": ("runtime monitoring: reference-stream oracle (position-dependent plaintext / per-message payloads), "
                  "logical deadlock and spin detection in a step-counting executor, relay-probe quiescence detection in "
                  "the compio runtime, AddressSanitizer (with stack-use-after-return) over the OpenSSL BIO callback boundary"),
    "rule": ("TLS case = (back-end pair, TLS version, transfer scripts of both ends, message lists both ways, flush policy, "
             "application read sizes, closer role, schedule); oracle: handshake completes; plaintext read == written, in "
             "order, exactly once, both directions; close => peer reads Ok(0), both ways; no deadlock (no task woken, no "
             "wake outstanding, tasks pending), no spin (steps <= 64 + 4 x transport work units; <= 2000 polls without "
             "progress; <= 200000 idle transport calls inside one poll), nothing left staged or unread at the end. "
             "WS case = (driver, link, TLS wrapping, socket buffers, relay script, message lists, duplex mode, closer, "
             "tungstenite write-buffer config); oracle: messages read == sent (kind+payload), in order, exactly once; "
             "pongs are an in-order subsequence of pings sent; ping answered while the peer only reads; close frame "
             "unchanged and echoed, then ConnectionClosed on both sides; both tasks terminate; hang = relay stalled "
             "(probe/ack) + nothing in flight + 150 runtime iterations without any event. A case is non-trivial if a "
             "script is hostile (TLS) / a message is sent (WS); distinct = distinct (layer, back-end, role, read limit, "
             "write limit, pending pattern, transport) resp. (layer, driver, link, relay class, socket buffer, duplex, "
             "size class, kinds, closer) strings"),
    "assumptions": [
        "the in-memory duplex never loses or reorders bytes and wakes the last registered waker (harness, trusted)",
        "a Pending returned by the scripted transport is followed by a wake (deferred by 0..7 executor steps)",
        "completion-model end: a submitted write is performed by the 'kernel' whether or not its future is polled again",
        "WebSocket workloads are free of application-level deadlock except the full-duplex case, which is legitimate use",
        "TCP loopback runs use TCP_NODELAY and non-minimal buffers (zero-window probing only adds wall time)",
    ],
    "legs": [
        # schedule_dependent: the scripts are deterministic, but handshake messages are not (random nonces,
        # ECDSA signature length 70..72 B), so the alignment of a call pattern with a particular flush can
        # differ between runs: a replay is repeated until it fires
        {"name": "tls", "build": "plain", "pkg": "vsec", "cmd": "c15t", "shards": 16, "schedule_dependent": True,
         "args": {"quick": ["--iters", 400, "--budget-ms", 60000],
                  "thorough": ["--iters", 12000, "--budget-ms", 450000]},
         "timeout_s": {"quick": 400, "thorough": 1500}},
        {"name": "ws", "build": "plain", "pkg": "vsec", "cmd": "c15w", "shards": 16, "schedule_dependent": True,
         "args": {"quick": ["--iters", 1000000, "--budget-ms", 25000, "--case-watchdog-ms", 20000],
                  "thorough": ["--iters", 1000000, "--budget-ms", 420000, "--case-watchdog-ms", 60000]},
         "timeout_s": {"quick": 400, "thorough": 1500}},
        # OpenSSL FFI boundary: BIO callbacks running with the smuggled task context
        {"name": "tls-asan", "build": "asan", "pkg": "vsec", "cmd": "c15t", "shards": 8, "schedule_dependent": True,
         "env": {"ASAN_OPTIONS": ASAN_OPTS},
         "args": {"quick": ["--enum-stride", 13, "--iters", 25, "--budget-ms", 30000],
                  "thorough": ["--enum-stride", 2, "--iters", 600, "--budget-ms", 420000]},
         "timeout_s": {"quick": 400, "thorough": 1500}},
    ],
}
