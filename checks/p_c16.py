"""C16 — QUIC streams and datagrams: ordered, exactly-once, never stranded."""

PROP = {
    "level": "exploration",
    "level_text": ("Seeded connection programs against the real compio-quic glue (quinn-proto underneath) over loopback UDP, "
                   "client and server inside one compio runtime that is driven by a hand-written loop, on both drivers "
                   "(io_uring, poll). Transfer programs: 0-16 concurrent uni/bi streams, payload 0 B - 2 MiB, write/read chunk "
                   "sizes 1 B - 64 KiB through every write API (write, write_all, write_chunks, write_all_chunks) and read API "
                   "(read, read_chunk ordered/unordered, read_chunks, read_to_end), stream/connection/send windows from 1 byte "
                   "to 8 MiB, stream limits 0/1/4/100 (raised later when 0), reader pacing scripts, datagrams alongside. "
                   "One third of the transfer programs let readers abandon streams: RecvStream::stop(code) after k bytes (k = 0, 1, "
                   "some, all) or drop of the RecvStream with unread data, issued while the writer is blocked on flow control (the "
                   "reader waits until it sees the writer pending), idle (paused, or inside stopped()), mid-transfer or already "
                   "finished; stream windows 16 B - 16 KiB, with and without connection-level limits, stream limits 1-2 with up to "
                   "8 flows; the writer must get WriteError::Stopped(code) / stopped() = Some(code) instead of hanging. "
                   "Close programs: a seeded set of futures parked (read, write blocked on the window, stopped, "
                   "received_reset, open_uni/bi_wait at the stream limit, accept_uni/bi, recv_datagram, send_datagram_wait, "
                   "closed, wait_incoming, Connecting and handshake_data of a black-holed connect), then Connection::close / "
                   "Endpoint::close / drop of the last handle at a seeded point, then close of everything, then "
                   "Endpoint::shutdown. Sampling, not exhaustive."),
    "level_note": ("Trusted: quinn-proto's protocol logic (loss recovery, flow-control arithmetic, its bound on buffered "
                   "out-of-order chunks) and the kernel's loopback UDP. Two quinn-proto 0.11.17 effects are classified "
                   "inconclusive and avoided by the generator: the INTERNAL_ERROR 'too many gaps in stream buffer' for slow "
                   "unordered readers, and an arithmetic underflow in DatagramState when send_datagram evicts queued datagrams. "
                   "0-RTT, connection migration, retry/refuse of Incoming and the h3 adapter are not exercised."),
    "technique": ("runtime monitoring: reference oracle over per-stream byte positions and datagram multisets, flow-control "
                  "invariant from byte counters, stranded-future detection by logical quiescence of the whole runtime "
                  "(no runnable task, no timer, no operation in flight except parked receives, kernel queues empty, no driver "
                  "event); panic capture with location"),
    "rule": ("program = transport config per side x stream flows (opener, uni/bi, open vs open_wait, per leg: length, write "
             "API + chunking + pacing, finish kind, read API + buffer + pacing, optional writer/reader stall) x datagram "
             "senders/receivers x accept tasks x fixtures x close plan (kind, side, point: after completion / when every task "
             "is blocked / after k executor ticks) x executor event interval x driver; every executed program that reached "
             "its close point is non-trivial; distinct = distinct (driver, mode, window classes, stream mix + limit class, "
             "reader pacing set, close kind@point, set of future kinds pending at the close instant) strings; stop legs add "
             "(k, stop vs drop, code, stop point, idle writer yes/no) and the signature of such a program also carries the set of "
             "{stop|drop} x {writer blocked | idle | finished | active at the stop} x {connection-level limit configured}"),
    "assumptions": [
        "bytes count as written by the return values of the write calls; a write_all that fails counts nothing",
        "datagrams may be lost (QUIC datagrams are unreliable); only corruption and duplication are violations",
        "a future completing with Ok after the close is accepted (its condition may have been met just before); only a "
        "future that never completes is a violation",
        "in transfer programs no idle timeout is configured, so a peer-side future left pending because the single "
        "CONNECTION_CLOSE packet never arrived is inconclusive, not a violation; close programs configure 8-12 s",
        "an idle timeout that fires before the close point of a close program (process starved) is inconclusive",
        "watchdog (25 s / 45 s per program) alone is inconclusive",
        "a stop that arrives after the writer finished is a no-op: write calls may return Ok for bytes accepted before the "
        "STOP_SENDING arrived, finish()/shutdown() after the stop may return Ok or ClosedStream, stopped() after finish may "
        "yield None or Some(code); only a hang, a wrong code, Stopped before the reader acted, or wrong data is a violation",
        "after WriteError::Stopped the writer drops (resets) the SendStream; a held, unfinished SendStream legitimately keeps "
        "the stream slot occupied; the first stop() may answer ClosedStream when the last read already consumed the end of stream",
        "connection-level flow-control accounting is not checked towards a side whose readers abandon streams (quinn-proto "
        "0.11.17 credits the unread bytes of a stopped stream at stop() and again at RESET_STREAM: arithmetic of the trusted layer)",
        "the stranded-writer oracle is applied in transfer programs only; close programs get no stop legs",
    ],
    "legs": [
        {"name": "plain", "build": "plain", "pkg": "vsec", "cmd": "c16", "shards": 16,
         "args": {"quick": ["--budget-ms", 70000],
                  "thorough": ["--budget-ms", 540000]},
         "timeout_s": {"quick": 240, "thorough": 900},
         "schedule_dependent": True},
    ],
}
