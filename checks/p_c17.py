"""C17 — the blocking pool is bounded and loses nothing."""
from common import MIRI_BASE

# Pool-alone legs (harness module vpure/src/c17m.rs: AsyncifyPool::dispatch called directly by 1-4 threads sharing a
# cloned pool). The native driver/runtime legs (Asyncify ops, spawn_blocking, panics reaching the submitter) are
# appended to `LEGS` below.
LEGS = [
    {"name": "pool-native", "build": "plain", "pkg": "vpure", "cmd": "c17m", "shards": {"quick": 6, "thorough": 8}, "schedule_dependent": True,
     # ~500 accepted jobs per scenario: quick ~4e5 jobs, thorough >= 2e6 jobs over all shards
     "args": {"quick": ["--iters", 100, "--budget-ms", 40000],
              "thorough": ["--iters", 1500, "--budget-ms", 330000]},
     "timeout_s": {"quick": 240, "thorough": 900}},
    {"name": "pool-tsan", "build": "tsan", "pkg": "vpure", "cmd": "c17m", "shards": {"quick": 3, "thorough": 6}, "schedule_dependent": True,
     "args": {"quick": ["--iters", 30, "--budget-ms", 40000],
              "thorough": ["--iters", 600, "--budget-ms", 300000]},
     "timeout_s": {"quick": 300, "thorough": 900}},
    # small scenarios (limit <= 3, <= 2 sharers, <= 6 jobs per caller and phase); leaks ignored because idle
    # workers may outlive main; time is virtual under Miri, so idle timeouts are 20/50 virtual ms or one hour
    {"name": "pool-miri", "build": "miri", "pkg": "vpure", "cmd": "c17m", "shards": {"quick": 7, "thorough": 16}, "schedule_dependent": True,
     "miriflags": MIRI_BASE,
     "args": {"quick": ["--iters", 12],
              "thorough": ["--iters", 250]},
     "timeout_s": {"quick": 400, "thorough": 3000}},
]

PROP = {
    "level": "exploration",
    "level_text": ("Seeded scenarios (thread_limit 1-8, idle timeout 5/10/20 ms or one hour, 1-4 caller threads sharing one "
                   "cloned pool, struct and closure dispatchables, phases: gated saturation where exactly the accepted jobs "
                   "are provably inside at once, churn with immediate/spin/sleep/panicking bodies and retry-or-abandon on "
                   "refusal, idle periods below/at/beyond the timeout before a burst) run against the real AsyncifyPool "
                   "while per-job counters, a running gauge and the set of worker thread ids are checked; natively "
                   "(10^5-10^6 jobs), under ThreadSanitizer, and small scenarios under Miri for the unsafe give-back cast. "
                   "OS/Miri scheduling is sampled, not enumerated: evidence, not proof."),
    "level_note": ("Trusted: the harness' job records (SeqCst atomics, the job's own Drop as 'dropped without running'), thread "
                   "ids as worker identity, /proc/self/task for the native worker census. 'Workers alive at once <= limit' is "
                   "decided only when the idle timeout is one hour (every worker ever seen is then alive at the end, minus "
                   "those killed by a panicking job) and is reported under its own signature (workers-exceed-limit) next to "
                   "the statement-level gauge (running-exceeds-limit). A dispatch that can never return is decided logically "
                   "by a monitor thread: every caller asleep inside the same dispatch call, no job running, no pool worker "
                   "thread in the process; it is then unblocked by one extra dispatch so the run continues. Under Miri the "
                   "same state is Miri's own deadlock report. A natively stalled completion wait is inconclusive."
                   " rt-pool legs also dispatch jobs straight to AsyncifyPool::dispatch that panic inside the pool worker (nothing catches them first): afterwards a dispatch that is refused while the thread census (/proc/self/task) shows no pool thread is a leaked slot; and they run blocking work through a Dispatcher whose pool is created by default from thread_pool_limit, via dispatch_blocking and via spawn_blocking inside its workers at once, against one gauge (the configured limit bounds both together)."),
    "technique": "runtime monitoring: job-boundary event oracle (run counters, gauge, identity tags), thread census, Miri, ThreadSanitizer",
    "rule": ("scenario = (thread_limit, sharers, idle timeout class, dispatchable flavour, phase list); oracle: every accepted "
             "job ran exactly once and was not dropped unrun; every refused job came back as the same object (id, nonce, heap "
             "canary, context pointer; closures: dropping or re-dispatching what came back accounts for exactly that job) and "
             "never ran; max jobs running at once <= thread_limit; distinct live worker threads <= thread_limit (no-retire "
             "scenarios); dispatch returns; after idle periods beyond the timeout later jobs still run. Non-trivial = the pool "
             "refused at least one job (saturated); distinct = (limit, sharers, timeout class, flavour, phase/idle pattern, "
             "saturation exact/yes/no, retirement seen, panic seen)"
                   "; rt-pool legs: distinct = (driver, limit, runtimes/workers, saturated?, retirement, task panic?, worker panic?, dispatcher?)"),
    "assumptions": [
        "thread_limit >= 1 (0 is documented to panic when the pool is needed)",
        "job bodies terminate; gated jobs are released by the harness",
        "worker retirement itself is not demanded, only that later jobs still run; it is recorded as coverage (native census)",
    ],
    "legs": LEGS + [
        # runtime level: spawn_blocking through 1-4 runtimes sharing one pool, results/panics to their own submitter, gauge, retirement
        {"name": "rt-pool", "build": "plain", "pkg": "vdrv", "cmd": "c17", "shards": 8,
         "args": {"quick": ["--iters", 200, "--budget-ms", 45000], "thorough": ["--iters", 10000, "--budget-ms", 400000]},
         "timeout_s": {"quick": 240, "thorough": 900}},
        {"name": "rt-pool-tsan", "build": "tsan", "pkg": "vdrv", "cmd": "c17", "shards": 4,
         "args": {"quick": ["--iters", 60, "--budget-ms", 40000], "thorough": ["--iters", 2000, "--budget-ms", 400000]},
         "timeout_s": {"quick": 240, "thorough": 900}},
    ],
}
