"""C18 — the dispatcher starts every accepted task exactly once."""

PROP = {
    "level": "exploration",
    "level_text": ("Seeded random cases (workers 1-8, concurrent/sequential, 1-8 dispatching threads with different pacing, "
                   "0-2000 tasks with bodies immediate / yield / compio sleep / pipe I/O / sub-task spawn / panic / "
                   "worker-killing panic / dispatch_blocking, io_uring and polling workers, join after drain / after a "
                   "prefix of the results / immediately) run against the real Dispatcher on real threads while a monitor "
                   "checks every task record, receiver, worker exit and join outcome; the same under ThreadSanitizer. "
                   "Schedule exploration by OS scheduling under 16 racing shard processes, not systematic: evidence, not proof."),
    "level_note": ("Trusted: the harness' per-task records (atomics + one global SeqCst sequence counter), thread-local "
                   "destructor order (TLS destructors run before pthread_join returns), /proc/self/task for the census of "
                   "workers that never ran a task. Hangs are only reported when the rest of the process is logically "
                   "quiescent (no context switch of any other thread for longer than every timeout in play); a watchdog "
                   "firing with threads still active is inconclusive. dispatch cannot race join in safe Rust (join takes "
                   "self), so 'join racing dispatch' means join called while accepted tasks are still queued or running."
                   " One fifth of the accepted dispatches are fire-and-forget (the caller drops the receiver at once): the closure must be started all the same."),
    "technique": "runtime monitoring: event/record oracle over real multi-threaded runs, thread census, panic-payload identity, ThreadSanitizer",
    "rule": ("case = (workers, mode, driver, pool limit, dispatching threads x task list x pacing, join point, fault); "
             "oracle per accepted task: started exactly once, on a worker thread of this dispatcher (thread name, and the "
             "roll-call tid set in sequential mode), not the caller; finished => own receiver yields own (id, nonce) tag; "
             "not finished => receiver cancelled, never another tag, never pending after join; Err(DispatchError(f)) only "
             "when every worker has been killed, f identifies as the same closure and never ran; sequential: per-thread "
             "gauge <= 1, no task dropped unfinished, all ended before join returned; both modes: nothing starts or is "
             "alive after join returned, every worker's TLS exit guard fired before join returned, no worker tid left in "
             "/proc/self/task; join Ok iff no worker died, else it re-raises the payload of the lowest-index dead worker "
             "(bomb id) or the runtime-build failure message. Non-trivial = >= 2 dispatching threads or join called with "
             "unstarted/running tasks; distinct = (workers, mode, dispatchers, observed join class, fault, task-count bucket)"),
    "assumptions": [
        "worker death is provoked only through public behaviour: a panic payload whose destructor panics (sequential mode, "
        "dropped by the worker loop's `task.await.ok()`), or a proactor builder the kernel rejects (all workers fail to start)",
        "in concurrent mode such payloads are not used: the executor aborts the process by design when a stored result's destructor panics",
        "with every worker dead, accepted tasks stay queued until join; the harness then never waits for results before join",
        "the blocking pool's idle timeout is kept at 5 s (before the AsyncifyPool repair a freshly spawned pool thread that timed out "
        "before the spawner's rendezvous send left AsyncifyPool::dispatch, and with it join, blocked for ever: pool behaviour, C17)",
        "known limitation kept out of the random workload: thread_pool_limit = 1 on the polling driver makes join spin for ever when a "
        "worker needs the pool while the only pool thread runs join's closure; such cases drain their results before join (replayed "
        "explicit cases are run as given and end watchdog-inconclusive)",
    ],
    "legs": [
        {"name": "plain", "build": "plain", "pkg": "vrt", "cmd": "c18", "shards": 16, "schedule_dependent": True,
         "args": {"quick": ["--iters", 150, "--budget-ms", 50000],
                  "thorough": ["--iters", 100000, "--budget-ms", 330000]},
         "timeout_s": {"quick": 240, "thorough": 900}},
        {"name": "tsan", "build": "tsan", "pkg": "vrt", "cmd": "c18", "shards": {"quick": 6, "thorough": 8},
         "schedule_dependent": True,
         "args": {"quick": ["--iters", 80, "--big-every", 0, "--budget-ms", 45000],
                  "thorough": ["--iters", 100000, "--big-every", 25, "--budget-ms", 300000]},
         "timeout_s": {"quick": 300, "thorough": 900}},
    ],
}
