"""C20 — child processes: complete stdio and the real exit status."""

PROP = {
    "level": "exploration",
    "level_text": ("Seeded cases, each spawning the helper child `vchild` through compio_process::Command on a fresh compio runtime "
                   "(io_uring and poll driver): a covering prefix of every (driver, child mode, wait/drain order, payload class) "
                   "combination followed by random cases until the budget is used. Every case compares the bytes read from the "
                   "child's stdout/stderr with the position-dependent pattern the child wrote, the child's own length+hash of its "
                   "stdin with what the parent wrote, the returned ExitStatus with the child's last-act marker, and the moment wait "
                   "returned with a reference waitpid/marker timestamp. Hangs are decided by logical quiescence. Exploration, not "
                   "exhaustive: the orders are task-spawn orders on one runtime thread, kernel scheduling of the child is not controlled."),
    "level_note": ("Trusted: libc poll/waitpid/procfs as reference, the helper child (raw libc stdio, blocking descriptors). "
                   "compio-process is built without the nightly-only `linux_pidfd` feature (does not compile on the default toolchain, "
                   "E0554): wait() is the blocking waitpid on the driver's thread pool; the pidfd + PollOnce path is NOT exercised. "
                   "A hang verdict needs: no completed parent operation, unchanged child (state, blocked syscall, context switches, "
                   "cpu time) and unchanged pipe fill levels over 50 further runtime iterations, plus a cause the reference confirms "
                   "(poll(2) readiness / zombie / open write end); a runtime thread stuck inside a blocking syscall is seen by a "
                   "sentinel thread through /proc/<tid>/syscall. Watchdog firings are inconclusive."
                   " Leg wait-keeps-pipes: differential against std::process::Child::wait on the same `sh -c` command line (reference trusted): piped stdout/stderr left inside Child, the child writes 0-60000 bytes 0-400 ms after start, then exits with its code or kills itself; the reported status must equal std's."),
    "technique": "runtime monitoring: reference-model oracle over child stdio/exit status, procfs/poll(2)-based quiescence detector",
    "rule": ("case = driver x child mode (bare | produce stdout+stderr | echo | sink stdin and report length+hash | duplex: all three "
             "pipes at once) x payload per pipe {0, 1, 4 KiB-1, 64 KiB, 64 KiB+1, 1 MiB} x chunk of child / parent reads / parent "
             "writes {1, 7, 4096, 65536} x exit {code 0/1/255, self-signal TERM/KILL, killed by parent} x order {wait first then "
             "drain, drain then wait, all concurrently in a permuted spawn order, wait_with_output, Command::output, Command::status} "
             "x read API {read, read_managed, read_to_end} x write API {write, write_all} x child closes stdio early / holds before "
             "exit x stdin taken or left inside Child; every case is non-trivial; distinct = distinct (payload classes, chunk "
             "classes, mode, exit kind, order, driver) strings"
                   "; wait-keeps-pipes leg: case = (driver, stream written late, size class, late?, way of ending); non-trivial if the child writes; distinct = those tuples with the reference status"),
    "assumptions": [
        "pipe capacity 64 KiB (Linux default); 'wait first' is taken literally only when the child's output fits into the pipes",
        "the child's marker file (pid, CLOCK_MONOTONIC, intended end) is written as its very last act before _exit/kill",
        "one child per case, one runtime thread; the reference waitpid is only issued after compio's wait returned",
    ],
    "legs": [
        {"name": "plain", "build": "plain", "pkg": "vrt", "cmd": "c20", "shards": 16,
         # the helper child must be built into the same target dir (sibling of vrt)
         "extra_pkgs": ["vchild"],
         "args": {"quick": ["--budget-ms", 30000, "--watchdog-ms", 30000],
                  "thorough": ["--budget-ms", 330000, "--watchdog-ms", 60000]},
         "timeout_s": {"quick": 300, "thorough": 900}},
        # differential against std::process::Child::wait: piped stdout/stderr left inside `Child`, the child writes
        # after the parent called wait() and then ends with its own code / signal
        {"name": "wait-keeps-pipes", "build": "plain", "pkg": "vrt", "cmd": "c20w", "shards": 4,
         "args": {"quick": ["--iters", 40, "--budget-ms", 40000], "thorough": ["--iters", 1500, "--budget-ms", 300000]},
         "timeout_s": {"quick": 240, "thorough": 600}},
    ],
}
