"""Declarative table: per property the legs (harness processes) that decide it.

One file `p_cNN.py` per property, each defining `PROP` (or nothing yet). A leg:
name, build (plain|release|asan|tsan|miri), pkg (harness crate), cmd (harness
subcommand), args (list, or {quick: [...], thorough: [...]}), shards,
timeout_s, optional miriflags / env / features / lsan / schedule_dependent.
Values may be given per tier as {"quick": x, "thorough": y}.
"""
import glob
import importlib
import os

HERE = os.path.dirname(os.path.abspath(__file__))

PROPS = {}

# properties not claimed (yet), with the reason shown in MANIFEST.not_applicable
NOT_APPLICABLE = {}

for path in sorted(glob.glob(os.path.join(HERE, "p_c*.py"))):
    name = os.path.basename(path)[:-3]
    mod = importlib.import_module(name)
    pid = name[2:].upper()
    if getattr(mod, "PROP", None):
        PROPS[pid] = mod.PROP
    elif getattr(mod, "NOT_APPLICABLE", None):
        NOT_APPLICABLE[pid] = mod.NOT_APPLICABLE
