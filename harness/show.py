import sys,json
for l in sys.stdin:
    if l.startswith('@@REPORT@@'):
        r=json.loads(l[11:])
        print('evals',r['evaluations'],'trivial',r['trivial'],'sigs',len(r['signatures']),'incon',r['inconclusive'], 'wall_ms', r['wall_ms'])
        print('violation sigs:'); [print('  ',k,v) for k,v in sorted(r['violation_sigs'].items())]
        print(r['counters'], r['notes'], r['exhaustive'], r.get('floors'))
        for v in r['violations'][:int(sys.argv[1]) if len(sys.argv)>1 else 8]: print(json.dumps(v)[:700])
    else:
        print(l, end='')
