//! Helper child process of property C20 (`vrt c20`). Raw `libc` stdio only
//! (no buffering, chosen chunk sizes), blocking descriptors.
//!
//! `vchild key=value ...`
//!
//! * `in=none|echo|sink` – ignore stdin / copy stdin to stdout chunk by chunk
//!   until EOF / read stdin until EOF and print `LEN=.. HASH=..` as the last
//!   line of stdout.
//! * `out=N err=M` – write N (M) position-patterned bytes to stdout (stderr),
//!   alternating chunk-wise between stdin (if `in=sink`), stdout and stderr.
//! * `chunk=C` – size of every read/write the child issues.
//! * `closefirst=1` – close fds 0,1,2 after the stdio work, before `hold`.
//! * `hold=MS` – sleep before the last act.
//! * `exit=C` | `sig=S` | `pause=1` – how the process ends: `_exit(C)`,
//!   `kill(getpid(), S)`, or wait to be killed by the parent.
//! * `marker=PATH` – the very last act before `_exit`/`kill` (or before
//!   `pause`) writes `PATH` containing `pid monotonic_ns intended` where
//!   `intended` is `exit:C`, `sig:S` or `pause`.
//!
//! Failures inside the child end it with exit code 97 (recorded in the marker
//! as `exit:97 <reason>`), never silently.

#[path = "../../vrt/src/c20_proto.rs"]
mod proto;

use std::ffi::CString;

use proto::*;

#[derive(Clone, Copy, PartialEq, Eq)]
enum In {
    None,
    Echo,
    Sink,
}

enum End {
    Exit(i32),
    Sig(i32),
    Pause,
}

struct Cfg {
    input: In,
    out: u64,
    err: u64,
    chunk: usize,
    close_first: bool,
    hold_ms: u64,
    end: End,
    marker: Option<CString>,
}

fn now_ns() -> u64 {
    let mut ts = libc::timespec {
        tv_sec: 0,
        tv_nsec: 0,
    };
    unsafe { libc::clock_gettime(libc::CLOCK_MONOTONIC, &mut ts) };
    ts.tv_sec as u64 * 1_000_000_000 + ts.tv_nsec as u64
}

fn write_marker(path: &Option<CString>, intended: &str) {
    let Some(path) = path else { return };
    let text = format!("{} {} {}\n", unsafe { libc::getpid() }, now_ns(), intended);
    unsafe {
        let fd = libc::open(
            path.as_ptr(),
            libc::O_WRONLY | libc::O_CREAT | libc::O_TRUNC | libc::O_CLOEXEC,
            0o644,
        );
        if fd < 0 {
            libc::_exit(96);
        }
        let mut off = 0;
        let b = text.as_bytes();
        while off < b.len() {
            let n = libc::write(fd, b[off..].as_ptr().cast(), b.len() - off);
            if n < 0 {
                if *libc::__errno_location() == libc::EINTR {
                    continue;
                }
                libc::_exit(96);
            }
            off += n as usize;
        }
        libc::close(fd);
    }
}

fn fail(cfg: &Cfg, why: &str) -> ! {
    write_marker(&cfg.marker, &format!("exit:{CHILD_FAILED} {why}"));
    unsafe { libc::_exit(CHILD_FAILED) }
}

fn rd(cfg: &Cfg, fd: i32, buf: &mut [u8]) -> usize {
    loop {
        let n = unsafe { libc::read(fd, buf.as_mut_ptr().cast(), buf.len()) };
        if n < 0 {
            let e = unsafe { *libc::__errno_location() };
            if e == libc::EINTR {
                continue;
            }
            fail(cfg, &format!("read({fd})-errno-{e}"));
        }
        return n as usize;
    }
}

fn wr_all(cfg: &Cfg, fd: i32, mut buf: &[u8]) {
    while !buf.is_empty() {
        let n = unsafe { libc::write(fd, buf.as_ptr().cast(), buf.len()) };
        if n < 0 {
            let e = unsafe { *libc::__errno_location() };
            if e == libc::EINTR {
                continue;
            }
            fail(cfg, &format!("write({fd})-errno-{e}"));
        }
        buf = &buf[n as usize..];
    }
}

fn parse() -> Result<Cfg, String> {
    let mut cfg = Cfg {
        input: In::None,
        out: 0,
        err: 0,
        chunk: 4096,
        close_first: false,
        hold_ms: 0,
        end: End::Exit(0),
        marker: None,
    };
    for a in std::env::args().skip(1) {
        let (k, v) = a.split_once('=').ok_or_else(|| format!("bad-arg-{a}"))?;
        let num = || v.parse::<u64>().map_err(|_| format!("bad-number-{a}"));
        match k {
            "in" => {
                cfg.input = match v {
                    "none" => In::None,
                    "echo" => In::Echo,
                    "sink" => In::Sink,
                    _ => return Err(format!("bad-arg-{a}")),
                }
            }
            "out" => cfg.out = num()?,
            "err" => cfg.err = num()?,
            "chunk" => cfg.chunk = (num()? as usize).max(1),
            "closefirst" => cfg.close_first = num()? != 0,
            "hold" => cfg.hold_ms = num()?,
            "exit" => cfg.end = End::Exit(num()? as i32),
            "sig" => cfg.end = End::Sig(num()? as i32),
            "pause" => cfg.end = End::Pause,
            "marker" => cfg.marker = Some(CString::new(v).map_err(|_| "bad-marker".to_string())?),
            _ => return Err(format!("bad-arg-{a}")),
        }
    }
    if cfg.input == In::Echo && cfg.out != 0 {
        return Err("echo-with-out".into());
    }
    Ok(cfg)
}

fn main() {
    unsafe {
        // Die with the harness; write errors come back as EPIPE, not SIGPIPE;
        // the signals we end ourselves with have their default action.
        libc::prctl(libc::PR_SET_PDEATHSIG, libc::SIGKILL);
        libc::signal(libc::SIGPIPE, libc::SIG_IGN);
        libc::signal(libc::SIGTERM, libc::SIG_DFL);
        let mut set: libc::sigset_t = std::mem::zeroed();
        libc::sigemptyset(&mut set);
        libc::sigprocmask(libc::SIG_SETMASK, &set, std::ptr::null_mut());
    }
    let cfg = match parse() {
        Ok(c) => c,
        Err(e) => {
            // The marker path may be unknown; best effort.
            let marker = std::env::args()
                .skip(1)
                .find_map(|a| a.strip_prefix("marker=").and_then(|p| CString::new(p).ok()));
            write_marker(&marker, &format!("exit:{CHILD_FAILED} {e}"));
            unsafe { libc::_exit(CHILD_FAILED) }
        }
    };

    let mut buf = vec![0u8; cfg.chunk];
    match cfg.input {
        In::Echo => loop {
            let n = rd(&cfg, 0, &mut buf);
            if n == 0 {
                break;
            }
            wr_all(&cfg, 1, &buf[..n]);
        },
        In::None | In::Sink => {
            let mut in_open = cfg.input == In::Sink;
            let (mut in_len, mut in_hash) = (0u64, FNV_INIT);
            let (mut o, mut e) = (0u64, 0u64);
            while in_open || o < cfg.out || e < cfg.err {
                if in_open {
                    let n = rd(&cfg, 0, &mut buf);
                    if n == 0 {
                        in_open = false;
                    } else {
                        in_len += n as u64;
                        in_hash = fnv(in_hash, &buf[..n]);
                    }
                }
                if o < cfg.out {
                    let n = (cfg.out - o).min(cfg.chunk as u64) as usize;
                    fill(SALT_OUT, o, &mut buf[..n]);
                    wr_all(&cfg, 1, &buf[..n]);
                    o += n as u64;
                }
                if e < cfg.err {
                    let n = (cfg.err - e).min(cfg.chunk as u64) as usize;
                    fill(SALT_ERR, e, &mut buf[..n]);
                    wr_all(&cfg, 2, &buf[..n]);
                    e += n as u64;
                }
            }
            if cfg.input == In::Sink {
                wr_all(&cfg, 1, report_line(in_len, in_hash).as_bytes());
            }
        }
    }

    if cfg.close_first {
        unsafe {
            libc::close(0);
            libc::close(1);
            libc::close(2);
        }
    }
    if cfg.hold_ms > 0 {
        let ts = libc::timespec {
            tv_sec: (cfg.hold_ms / 1000) as _,
            tv_nsec: ((cfg.hold_ms % 1000) * 1_000_000) as _,
        };
        let mut rem = ts;
        unsafe {
            while libc::nanosleep(&rem.clone(), &mut rem) != 0 {}
        }
    }
    match cfg.end {
        End::Exit(c) => {
            write_marker(&cfg.marker, &format!("exit:{c}"));
            unsafe { libc::_exit(c) }
        }
        End::Sig(s) => {
            write_marker(&cfg.marker, &format!("sig:{s}"));
            unsafe {
                libc::kill(libc::getpid(), s);
                // not reached for fatal signals
                loop {
                    libc::pause();
                }
            }
        }
        End::Pause => {
            write_marker(&cfg.marker, "pause");
            unsafe {
                loop {
                    libc::pause();
                }
            }
        }
    }
}
