fn main() {}
