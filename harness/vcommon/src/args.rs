//! `<bin> <subcommand> [--key value]...` — deliberately tiny.

use std::collections::BTreeMap;

#[derive(Debug, Clone)]
pub struct Args {
    pub cmd: String,
    pub kv: BTreeMap<String, String>,
}

impl Args {
    pub fn parse() -> Self {
        Self::from_iter(std::env::args().skip(1))
    }

    pub fn from_iter(it: impl IntoIterator<Item = String>) -> Self {
        let mut it = it.into_iter();
        let cmd = it.next().unwrap_or_default();
        let mut kv = BTreeMap::new();
        let mut pending: Option<String> = None;
        for a in it {
            if let Some(k) = a.strip_prefix("--") {
                if let Some(p) = pending.take() {
                    kv.insert(p, "1".into());
                }
                if let Some((k, v)) = k.split_once('=') {
                    kv.insert(k.to_string(), v.to_string());
                } else {
                    pending = Some(k.to_string());
                }
            } else if let Some(p) = pending.take() {
                kv.insert(p, a);
            }
        }
        if let Some(p) = pending.take() {
            kv.insert(p, "1".into());
        }
        Self { cmd, kv }
    }

    pub fn get(&self, k: &str) -> Option<&str> {
        self.kv.get(k).map(|s| s.as_str())
    }

    pub fn u64(&self, k: &str, default: u64) -> u64 {
        self.get(k).and_then(|v| v.parse().ok()).unwrap_or(default)
    }

    pub fn usize(&self, k: &str, default: usize) -> usize {
        self.u64(k, default as u64) as usize
    }

    pub fn flag(&self, k: &str) -> bool {
        self.get(k).is_some_and(|v| v != "0")
    }

    pub fn str(&self, k: &str, default: &str) -> String {
        self.get(k).unwrap_or(default).to_string()
    }

    pub fn seed(&self) -> u64 {
        self.u64("seed", 1)
    }

    pub fn shard(&self) -> u64 {
        self.u64("shard", 0)
    }

    pub fn nshards(&self) -> u64 {
        self.u64("nshards", 1).max(1)
    }

    pub fn thorough(&self) -> bool {
        self.get("tier") == Some("thorough")
    }

    /// Number of iterations: `--iters`, else the tier default.
    pub fn iters(&self, quick: usize, thorough: usize) -> usize {
        self.usize("iters", if self.thorough() { thorough } else { quick })
    }
}
