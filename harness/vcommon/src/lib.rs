//! Shared machinery of the compio verification harness: PRNG, argument
//! parsing, the report protocol spoken to `/verif/check`, panic capture and a
//! few tiny async utilities. Depends on std + serde_json only so that it also
//! runs under Miri.

pub mod rng;
pub use rng::Rng;
pub mod report;
pub use report::{Report, Verdict};
pub mod args;
pub use args::Args;
pub mod panics;
pub mod task;

pub use serde_json::{self, Value, json};
