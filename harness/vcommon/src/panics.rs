//! Panic capture and classification: a panic raised inside compio code is a
//! violation of whatever property the workload belongs to; a panic raised in
//! harness code is a harness error and must never be reported as a violation.

use std::{
    cell::RefCell,
    panic::{self, AssertUnwindSafe},
    sync::Once,
};

#[derive(Debug, Clone)]
pub struct PanicInfo {
    pub file: String,
    pub line: u32,
    pub message: String,
    pub backtrace: Option<String>,
}

#[derive(Debug, Clone, PartialEq, Eq)]
pub enum Origin {
    /// Inside /repo (compio itself): `file:line`.
    Repo(String),
    Harness(String),
    Other(String),
}

thread_local! {
    static LAST: RefCell<Option<PanicInfo>> = const { RefCell::new(None) };
    static QUIET: RefCell<bool> = const { RefCell::new(false) };
}

static HOOK: Once = Once::new();

fn is_repo(path: &str) -> bool {
    path.starts_with("/repo/") || path.contains("/repo/compio")
}

fn is_harness(path: &str) -> bool {
    path.starts_with("vpure/")
        || path.starts_with("vrt/")
        || path.starts_with("vcommon/")
        || path.starts_with("vtls/")
        || path.starts_with("vchild/")
        || path.contains("/verif/harness/")
}

pub fn install_hook() {
    HOOK.call_once(|| {
        let prev = panic::take_hook();
        panic::set_hook(Box::new(move |info| {
            let (file, line) = info
                .location()
                .map(|l| (l.file().to_string(), l.line()))
                .unwrap_or_default();
            let message = if let Some(s) = info.payload().downcast_ref::<&str>() {
                s.to_string()
            } else if let Some(s) = info.payload().downcast_ref::<String>() {
                s.clone()
            } else {
                "<non-string panic payload>".to_string()
            };
            let backtrace = if !is_repo(&file) && !is_harness(&file) && !cfg!(miri) {
                Some(std::backtrace::Backtrace::force_capture().to_string())
            } else {
                None
            };
            let quiet = QUIET.with(|q| *q.borrow());
            LAST.with(|l| {
                *l.borrow_mut() = Some(PanicInfo {
                    file,
                    line,
                    message,
                    backtrace,
                })
            });
            if !quiet {
                prev(info);
            } else {
                // One compact line per captured panic (capped), so that an
                // abort from a non-unwinding panic still leaves a trace.
                static N: std::sync::atomic::AtomicUsize = std::sync::atomic::AtomicUsize::new(0);
                if N.fetch_add(1, std::sync::atomic::Ordering::Relaxed) < 20 {
                    let l = LAST.with(|l| l.borrow().clone());
                    if let Some(l) = l {
                        eprintln!("[captured panic] {}:{}: {}", l.file, l.line, l.message);
                        if l.message.contains("unsafe precondition") {
                            eprintln!("{}", std::backtrace::Backtrace::force_capture());
                        }
                    }
                }
            }
        }));
    });
}

impl PanicInfo {
    pub fn origin(&self) -> Origin {
        let loc = format!("{}:{}", self.file, self.line);
        if is_repo(&self.file) {
            return Origin::Repo(loc.trim_start_matches("/repo/").to_string());
        }
        if is_harness(&self.file) {
            return Origin::Harness(loc);
        }
        if let Some(bt) = &self.backtrace {
            // Frames look like "   at /repo/compio-io/src/x.rs:12:5". Everything up to the
            // panic entry point (the capture itself, this hook, std's panic machinery) is
            // skipped: the origin is the first repo / harness frame *below* the panic.
            let lines: Vec<&str> = bt.lines().collect();
            let start = lines
                .iter()
                .position(|l| l.contains("rust_begin_unwind") || l.contains("begin_panic_handler") || l.contains("std::panicking::begin_panic"))
                .map_or(0, |i| i + 1);
            for l in lines.into_iter().skip(start) {
                let l = l.trim();
                if let Some(p) = l.strip_prefix("at ") {
                    if p.contains("vcommon/src/panics.rs") {
                        continue;
                    }
                    if is_repo(p) {
                        // A panic raised inside a dependency is charged to the compio frame that
                        // called it only for the small state-keeping crates whose panics mean
                        // "the caller broke my protocol" (borrow flags, slab keys, ...) and for
                        // the standard library; a panic inside a protocol implementation
                        // (quinn-proto, rustls, ...) stays unattributed (inconclusive).
                        const CHARGED: [&str; 7] = ["/thin-cell-", "/synchrony-", "/slab-", "/crossbeam-queue-", "/rustc/", "/library/", "/smallvec-"];
                        if !CHARGED.iter().any(|c| self.file.contains(c)) {
                            return Origin::Other(format!("{loc} via {p}"));
                        }
                        let p = p.trim_start_matches("/repo/");
                        let p = p.rsplit_once(':').map_or(p, |x| x.0);
                        return Origin::Repo(p.to_string());
                    }
                    if is_harness(p) || p.starts_with("./v") {
                        return Origin::Harness(format!("{loc} via {p}"));
                    }
                }
            }
        }
        Origin::Other(loc)
    }

    /// Stable signature part: file (without line) of the repo frame.
    pub fn sig(&self) -> String {
        match self.origin() {
            Origin::Repo(l) => format!("panic@{}", l.rsplit_once(':').map_or(l.as_str(), |x| x.0)),
            Origin::Harness(l) => format!("harness-panic@{l}"),
            Origin::Other(l) => format!("panic@{l}"),
        }
    }
}

/// Run `f`, capturing a panic with its location. Panic output is suppressed
/// while inside (the caller reports it).
pub fn catch<T>(f: impl FnOnce() -> T) -> Result<T, PanicInfo> {
    install_hook();
    let was = QUIET.with(|q| std::mem::replace(&mut *q.borrow_mut(), true));
    LAST.with(|l| *l.borrow_mut() = None);
    let r = panic::catch_unwind(AssertUnwindSafe(f));
    QUIET.with(|q| *q.borrow_mut() = was);
    match r {
        Ok(v) => Ok(v),
        Err(payload) => {
            let info = LAST.with(|l| l.borrow_mut().take());
            Err(info.unwrap_or_else(|| PanicInfo {
                file: String::new(),
                line: 0,
                message: if let Some(s) = payload.downcast_ref::<&str>() {
                    s.to_string()
                } else if let Some(s) = payload.downcast_ref::<String>() {
                    s.clone()
                } else {
                    "<resumed panic>".to_string()
                },
                backtrace: None,
            }))
        }
    }
}
