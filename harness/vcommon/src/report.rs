//! The report a harness process hands to `/verif/check`: one line
//! `@@REPORT@@ {json}` on stdout. Three-valued verdicts per program.

use std::{
    collections::BTreeMap,
    time::{Duration, Instant},
};

use serde_json::{Value, json};

#[derive(Debug, Clone, PartialEq, Eq)]
pub enum Verdict {
    Held,
    Violated { sig: String, what: String },
    Inconclusive(String),
}

#[derive(Debug)]
pub struct Report {
    pub property: String,
    pub leg: String,
    start: Instant,
    budget: Option<Duration>,
    evaluations: u64,
    trivial: u64,
    signatures: BTreeMap<String, u64>,
    samples: Vec<Value>,
    max_samples: usize,
    violations: Vec<Value>,
    violation_sigs: BTreeMap<String, u64>,
    inconclusive: BTreeMap<String, u64>,
    counters: BTreeMap<String, i64>,
    maxima: BTreeMap<String, i64>,
    floors: BTreeMap<String, bool>,
    exhaustive: Option<bool>,
    notes: Vec<String>,
}

const MAX_SIGS: usize = 20_000;
const MAX_VIOLATIONS_KEPT: usize = 48;

impl Report {
    pub fn new(property: &str, leg: &str, budget_ms: u64) -> Self {
        Self {
            property: property.to_string(),
            leg: leg.to_string(),
            start: Instant::now(),
            budget: (budget_ms > 0).then(|| Duration::from_millis(budget_ms)),
            evaluations: 0,
            trivial: 0,
            signatures: BTreeMap::new(),
            samples: Vec::new(),
            max_samples: 3,
            violations: Vec::new(),
            violation_sigs: BTreeMap::new(),
            inconclusive: BTreeMap::new(),
            counters: BTreeMap::new(),
            maxima: BTreeMap::new(),
            floors: BTreeMap::new(),
            exhaustive: None,
            notes: Vec::new(),
        }
    }

    pub fn from_args(property: &str, leg: &str, args: &crate::Args) -> Self {
        Self::new(property, leg, args.u64("budget-ms", 0))
    }

    /// True once the wall-clock budget is used up (generation should stop;
    /// this is never a verdict).
    pub fn out_of_time(&self) -> bool {
        self.budget.is_some_and(|b| self.start.elapsed() >= b)
    }

    pub fn elapsed(&self) -> Duration {
        self.start.elapsed()
    }

    /// One case evaluated. `sig` is `Some(signature)` for a non-trivial case.
    pub fn eval(&mut self, sig: Option<String>) {
        self.evaluations += 1;
        match sig {
            Some(s) => self.sig(s),
            None => self.trivial += 1,
        }
    }

    /// Count `n` evaluations at once without a signature (bulk enumeration).
    pub fn eval_bulk(&mut self, n: u64) {
        self.evaluations += n;
    }

    pub fn sig(&mut self, s: String) {
        if self.signatures.len() < MAX_SIGS || self.signatures.contains_key(&s) {
            *self.signatures.entry(s).or_insert(0) += 1;
        } else {
            *self.counters.entry("signatures_dropped".into()).or_insert(0) += 1;
        }
    }

    pub fn want_sample(&self) -> bool {
        self.samples.len() < self.max_samples
    }

    pub fn sample(&mut self, v: Value) {
        if self.want_sample() {
            self.samples.push(v);
        }
    }

    pub fn violation(&mut self, sig: &str, what: &str, replay: Value) {
        *self.violation_sigs.entry(sig.to_string()).or_insert(0) += 1;
        if self.violations.len() < MAX_VIOLATIONS_KEPT
            && self.violation_sigs.get(sig).copied().unwrap_or(0) <= 1
        {
            self.violations
                .push(json!({"sig": sig, "what": what, "replay": replay}));
        }
    }

    pub fn inconclusive(&mut self, reason: &str) {
        *self.inconclusive.entry(reason.to_string()).or_insert(0) += 1;
    }

    pub fn verdict(&mut self, v: Verdict, replay: impl FnOnce() -> Value) {
        match v {
            Verdict::Held => {}
            Verdict::Violated { sig, what } => self.violation(&sig, &what, replay()),
            Verdict::Inconclusive(r) => self.inconclusive(&r),
        }
    }

    pub fn count(&mut self, name: &str, n: i64) {
        *self.counters.entry(name.to_string()).or_insert(0) += n;
    }

    pub fn max(&mut self, name: &str, v: i64) {
        let e = self.maxima.entry(name.to_string()).or_insert(i64::MIN);
        *e = (*e).max(v);
    }

    /// A minimum-coverage floor: the run must have observed `name` at least
    /// once, otherwise the evidence lists it as unmet.
    pub fn floor(&mut self, name: &str, met: bool) {
        let e = self.floors.entry(name.to_string()).or_insert(false);
        *e |= met;
    }

    pub fn set_exhaustive(&mut self, e: bool) {
        self.exhaustive = Some(e);
    }

    pub fn note(&mut self, s: impl Into<String>) {
        if self.notes.len() < 32 {
            self.notes.push(s.into());
        }
    }

    pub fn n_violations(&self) -> u64 {
        self.violation_sigs.values().sum()
    }

    pub fn to_json(&self) -> Value {
        json!({
            "property": self.property,
            "leg": self.leg,
            "evaluations": self.evaluations,
            "trivial": self.trivial,
            "signatures": self.signatures,
            "samples": self.samples,
            "violations": self.violations,
            "violation_sigs": self.violation_sigs,
            "inconclusive": self.inconclusive,
            "counters": self.counters,
            "maxima": self.maxima,
            "floors": self.floors,
            "exhaustive": self.exhaustive,
            "notes": self.notes,
            "wall_ms": self.start.elapsed().as_millis() as u64,
        })
    }

    /// Print the report line. The process should exit 0 afterwards: verdicts
    /// travel in the report, not in the exit code.
    pub fn finish(&self) {
        use std::io::Write;
        let line = format!("@@REPORT@@ {}\n", self.to_json());
        let out = std::io::stdout();
        let mut out = out.lock();
        let _ = out.write_all(line.as_bytes());
        let _ = out.flush();
    }
}
