//! splitmix64 / xoshiro256** — no external crate, stable across versions.

#[derive(Clone, Debug)]
pub struct Rng {
    s: [u64; 4],
}

fn splitmix(x: &mut u64) -> u64 {
    *x = x.wrapping_add(0x9E37_79B9_7F4A_7C15);
    let mut z = *x;
    z = (z ^ (z >> 30)).wrapping_mul(0xBF58_476D_1CE4_E5B9);
    z = (z ^ (z >> 27)).wrapping_mul(0x94D0_49BB_1331_11EB);
    z ^ (z >> 31)
}

impl Rng {
    pub fn new(seed: u64) -> Self {
        let mut x = seed ^ 0xA076_1D64_78BD_642F;
        let s = [
            splitmix(&mut x),
            splitmix(&mut x),
            splitmix(&mut x),
            splitmix(&mut x),
        ];
        Self { s }
    }

    /// Derive an independent stream (e.g. per shard / per program).
    pub fn fork(&self, salt: u64) -> Self {
        let mut x = self.s[0] ^ salt.wrapping_mul(0xD6E8_FEB8_6659_FD93) ^ self.s[2].rotate_left(17);
        Self::new(splitmix(&mut x))
    }

    pub fn next_u64(&mut self) -> u64 {
        let r = self.s[1].wrapping_mul(5).rotate_left(7).wrapping_mul(9);
        let t = self.s[1] << 17;
        self.s[2] ^= self.s[0];
        self.s[3] ^= self.s[1];
        self.s[1] ^= self.s[2];
        self.s[0] ^= self.s[3];
        self.s[2] ^= t;
        self.s[3] = self.s[3].rotate_left(45);
        r
    }

    /// Uniform in `0..n` (n > 0).
    pub fn below(&mut self, n: usize) -> usize {
        assert!(n > 0);
        (self.next_u64() % n as u64) as usize
    }

    /// Uniform in `lo..=hi`.
    pub fn range(&mut self, lo: usize, hi: usize) -> usize {
        assert!(lo <= hi);
        lo + self.below(hi - lo + 1)
    }

    /// True with probability `num/den`.
    pub fn chance(&mut self, num: usize, den: usize) -> bool {
        self.below(den) < num
    }

    pub fn pick<'a, T>(&mut self, xs: &'a [T]) -> &'a T {
        &xs[self.below(xs.len())]
    }

    pub fn shuffle<T>(&mut self, xs: &mut [T]) {
        for i in (1..xs.len()).rev() {
            let j = self.below(i + 1);
            xs.swap(i, j);
        }
    }

    pub fn bytes(&mut self, n: usize) -> Vec<u8> {
        (0..n).map(|_| self.next_u64() as u8).collect()
    }

    /// A size biased towards small values and boundaries.
    pub fn size(&mut self, max: usize) -> usize {
        match self.below(10) {
            0 => 0,
            1 => 1,
            2 => max,
            3 => max.saturating_sub(1),
            4..=6 => self.below(max.min(8) + 1),
            _ => self.below(max + 1),
        }
    }
}
