//! Tiny async utilities: counting wakers and a step-bounded `block_on`.

use std::{
    future::Future,
    pin::pin,
    sync::{
        Arc,
        atomic::{AtomicUsize, Ordering},
    },
    task::{Context, Poll, Wake, Waker},
};

#[derive(Debug, Default)]
pub struct CountWaker {
    pub wakes: AtomicUsize,
}

impl Wake for CountWaker {
    fn wake(self: Arc<Self>) {
        self.wakes.fetch_add(1, Ordering::SeqCst);
    }

    fn wake_by_ref(self: &Arc<Self>) {
        self.wakes.fetch_add(1, Ordering::SeqCst);
    }
}

impl CountWaker {
    pub fn new() -> Arc<Self> {
        Arc::new(Self::default())
    }

    pub fn count(&self) -> usize {
        self.wakes.load(Ordering::SeqCst)
    }
}

pub fn count_waker() -> (Arc<CountWaker>, Waker) {
    let c = CountWaker::new();
    (c.clone(), Waker::from(c))
}

/// Poll `f` until ready, at most `max_polls` times. `Err(polls)` if the bound
/// was hit (an endless `Pending` from a source that is always ready is a
/// step-bound violation the caller reports).
pub fn block_on_bounded<F: Future>(f: F, max_polls: usize) -> Result<F::Output, usize> {
    let (_c, w) = count_waker();
    let mut cx = Context::from_waker(&w);
    let mut f = pin!(f);
    for _ in 0..max_polls {
        if let Poll::Ready(v) = f.as_mut().poll(&mut cx) {
            return Ok(v);
        }
    }
    Err(max_polls)
}

/// Poll once.
pub fn poll_once<F: Future + Unpin>(f: &mut F, w: &Waker) -> Poll<F::Output> {
    let mut cx = Context::from_waker(w);
    std::pin::Pin::new(f).poll(&mut cx)
}
