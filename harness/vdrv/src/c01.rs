//! C01 — driver-level operation soup (see drv/soup.rs), focus Lifetime.

use vcommon::Args;

use crate::drv::soup::{Focus, main_for};

pub fn main(args: &Args) {
    main_for("C01", Focus::Lifetime, args)
}
