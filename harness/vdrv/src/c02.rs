//! C02 — driver-level operation soup (see drv/soup.rs), focus Completion.

use vcommon::Args;

use crate::drv::soup::{Focus, main_for};

pub fn main(args: &Args) {
    main_for("C02", Focus::Completion, args)
}
