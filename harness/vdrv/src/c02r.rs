//! C02 (runtime level) — every operation's completion reaches the future that
//! awaits it, exactly once and with its own result, also when the submission
//! queue is tiny, when completions are reaped inside a submission, and when
//! the awaiting future is the `block_on` future itself (its waker is the
//! driver's own waker).
//!
//! A seeded program starts 2–8 operations (stream receive, pipe read, file
//! read, accept), each on its own descriptor with position-tagged content of
//! its own salt, as children of the main future (polled by it, in order) or as
//! spawned tasks; the data for each is either there before submission
//! (completes inline / in the same submission batch) or written by a feeder
//! thread after a delay while the runtime sleeps. Queue capacity 1..64.
//!
//! Verdict by logical quiescence: every feeder has finished, so every operation
//! has what it waits for; the program must end by itself. If instead the
//! runtime thread sleeps in the kernel (state S twice 60 ms apart with no
//! context switch, five times in a row), an unrelated I/O completion is
//! delivered (kick): finishing now means a completion had been reaped but its
//! wake-up was lost; not finishing while the data of a pending operation is
//! still unread in its descriptor (poll(2)) means the operation is stranded.

use std::{
    future::Future,
    net::{TcpListener, TcpStream},
    os::fd::{AsRawFd, OwnedFd},
    pin::Pin,
    sync::{
        Arc,
        atomic::{AtomicUsize, Ordering},
        mpsc,
    },
    task::{Context, Poll},
    time::{Duration, Instant},
};

use compio_buf::{BufResult, IntoInner};
use compio_driver::{
    DriverType, ProactorBuilder, SharedFd,
    op::{Accept, Read, ReadAt, Recv},
};
use compio_runtime::Runtime;
use rustix::net::RecvFlags;
use vcommon::{Args, Report, Rng, Value, json, panics};

use crate::drv::{mk_pipe, mk_socketpair, pat, poll_ready, set_nonblocking};

#[derive(Debug, Clone, Copy, PartialEq, Eq)]
enum K {
    Recv,
    Read,
    ReadAt,
    Accept,
}

impl K {
    fn name(self) -> &'static str {
        match self {
            K::Recv => "recv",
            K::Read => "read",
            K::ReadAt => "read_at",
            K::Accept => "accept",
        }
    }

    fn from_name(s: &str) -> Option<K> {
        [K::Recv, K::Read, K::ReadAt, K::Accept].into_iter().find(|k| k.name() == s)
    }
}

#[derive(Debug, Clone)]
struct OpSpec {
    kind: K,
    size: usize,
    /// child of the main future (true) or a spawned task
    in_main: bool,
    /// None: data is there before submission; Some(us): a feeder thread provides it after that delay
    feed_after_us: Option<u64>,
    /// (tasks only) the operation's future is polled once by one task and, still pending, handed to another task that
    /// awaits it: the completion has to wake the waker of the *latest* poll, not the first one
    handover: bool,
}

#[derive(Debug, Clone)]
struct Prog {
    driver: &'static str,
    cap: u32,
    ops: Vec<OpSpec>,
}

impl Prog {
    fn to_json(&self) -> Value {
        json!({"driver": self.driver, "cap": self.cap, "ops": self.ops.iter().map(|o|
            json!({"kind": o.kind.name(), "size": o.size, "in_main": o.in_main, "feed_after_us": o.feed_after_us, "handover": o.handover})).collect::<Vec<_>>()})
    }

    fn from_json(v: &Value) -> Option<Prog> {
        Some(Prog {
            driver: if v["driver"].as_str()? == "poll" { "poll" } else { "iour" },
            cap: v["cap"].as_u64()? as u32,
            ops: v["ops"]
                .as_array()?
                .iter()
                .map(|o| {
                    Some(OpSpec {
                        kind: K::from_name(o["kind"].as_str()?)?,
                        size: o["size"].as_u64()? as usize,
                        in_main: o["in_main"].as_bool()?,
                        feed_after_us: o["feed_after_us"].as_u64(),
                        handover: o["handover"].as_bool().unwrap_or(false),
                    })
                })
                .collect::<Option<Vec<_>>>()?,
        })
    }
}

fn generate(rng: &mut Rng, driver: &'static str) -> Prog {
    let n = rng.range(2, 8);
    let main_bias = rng.below(3); // 0: mostly main, 1: mixed, 2: mostly tasks
    Prog {
        driver,
        cap: *rng.pick(&[1u32, 2, 2, 3, 4, 64]),
        ops: (0..n)
            .map(|_| {
                let mut o = OpSpec {
                    kind: *rng.pick(&[K::Recv, K::Read, K::Read, K::ReadAt, K::Accept]),
                    size: *rng.pick(&[1usize, 5, 64]),
                    in_main: match main_bias {
                        0 => !rng.chance(1, 5),
                        1 => rng.chance(1, 2),
                        _ => rng.chance(1, 5),
                    },
                    feed_after_us: if rng.chance(3, 5) { None } else { Some(*rng.pick(&[0u64, 200, 2000, 20000])) },
                    handover: false,
                };
                if !o.in_main && rng.chance(1, 3) {
                    o.handover = true;
                    if rng.chance(3, 4) {
                        // late enough for the first poll to find the operation pending
                        o.feed_after_us = Some(*rng.pick(&[2000u64, 20000, 50000]));
                    }
                }
                o
            })
            .collect(),
    }
}

type Res = Result<(usize, Vec<u8>), String>;

/// Polls the future once with the polling task's waker; `None` if it is still pending.
struct PollOnce<'a>(&'a mut Pin<Box<dyn Future<Output = (usize, Res)>>>);

impl Future for PollOnce<'_> {
    type Output = Option<(usize, Res)>;

    fn poll(mut self: Pin<&mut Self>, cx: &mut Context<'_>) -> Poll<Self::Output> {
        match self.0.as_mut().poll(cx) {
            Poll::Ready(r) => Poll::Ready(Some(r)),
            Poll::Pending => Poll::Ready(None),
        }
    }
}

/// Polls its children in order, every time it is polled; ready when all are.
struct JoinAll {
    kids: Vec<Option<Pin<Box<dyn Future<Output = (usize, Res)>>>>>,
    out: Vec<(usize, Res)>,
    polls: Arc<AtomicUsize>,
}

impl Future for JoinAll {
    type Output = Vec<(usize, Res)>;

    fn poll(mut self: Pin<&mut Self>, cx: &mut Context<'_>) -> Poll<Self::Output> {
        self.polls.fetch_add(1, Ordering::SeqCst);
        let this = &mut *self;
        for k in this.kids.iter_mut() {
            if let Some(f) = k
                && let Poll::Ready(r) = f.as_mut().poll(cx)
            {
                this.out.push(r);
                *k = None;
            }
        }
        if this.kids.iter().all(|k| k.is_none()) {
            Poll::Ready(std::mem::take(&mut this.out))
        } else {
            Poll::Pending
        }
    }
}

fn finish_buf(r: std::io::Result<usize>, mut b: Vec<u8>) -> Res {
    match r {
        Ok(n) => {
            let n = n.min(b.capacity());
            unsafe { b.set_len(n) };
            Ok((n, b))
        }
        Err(e) => Err(e.to_string()),
    }
}

struct Chan {
    ours: OwnedFd,
    peer: Option<OwnedFd>,
    addr: Option<std::net::SocketAddr>,
    expect: Vec<u8>,
}

fn thread_state(tid: i32) -> Option<(char, u64)> {
    let stat = std::fs::read_to_string(format!("/proc/self/task/{tid}/stat")).ok()?;
    let st = stat.rsplit_once(") ")?.1.chars().next()?;
    let status = std::fs::read_to_string(format!("/proc/self/task/{tid}/status")).ok()?;
    let sw = status
        .lines()
        .filter(|l| l.contains("ctxt_switches"))
        .filter_map(|l| l.split_whitespace().last()?.parse::<u64>().ok())
        .sum();
    Some((st, sw))
}

fn asleep(tid: i32) -> bool {
    let Some((s1, c1)) = thread_state(tid) else { return false };
    std::thread::sleep(Duration::from_millis(60));
    let Some((s2, c2)) = thread_state(tid) else { return false };
    s1 == 'S' && s2 == 'S' && c1 == c2
}

enum Outcome {
    Held(Vec<String>),
    Violated(Vec<(String, String)>),
    Inconclusive(String),
}

fn run_prog(p: &Prog) -> Outcome {
    // ---- descriptors, content, what is there beforehand
    let dir = match tempfile::tempdir() {
        Ok(d) => d,
        Err(e) => return Outcome::Inconclusive(format!("tempdir: {e}")),
    };
    let mut chans: Vec<Chan> = Vec::new();
    for (i, o) in p.ops.iter().enumerate() {
        let salt = 0xC02_000 + i as u64;
        let n = o.size.max(1);
        let data: Vec<u8> = (0..n).map(|x| pat(salt, x)).collect();
        let c = match o.kind {
            K::Recv => {
                let (a, b) = mk_socketpair(libc::SOCK_STREAM);
                Chan { ours: a, peer: Some(b), addr: None, expect: data }
            }
            K::Read => {
                let (r, w) = mk_pipe();
                Chan { ours: r, peer: Some(w), addr: None, expect: data }
            }
            K::ReadAt => {
                let path = dir.path().join(format!("f{i}"));
                if std::fs::write(&path, &data).is_err() {
                    return Outcome::Inconclusive("write temp file".into());
                }
                let Ok(f) = std::fs::File::open(&path) else { return Outcome::Inconclusive("open temp file".into()) };
                Chan { ours: OwnedFd::from(f), peer: None, addr: None, expect: data }
            }
            K::Accept => {
                let Ok(l) = TcpListener::bind("127.0.0.1:0") else { return Outcome::Inconclusive("bind".into()) };
                let a = l.local_addr().ok();
                Chan { ours: OwnedFd::from(l), peer: None, addr: a, expect: Vec::new() }
            }
        };
        if p.driver == "poll" && o.kind != K::ReadAt {
            set_nonblocking(c.ours.as_raw_fd(), true);
        }
        chans.push(c);
    }
    // feeding: now (before the runtime even exists) or from a thread later
    let mut clients: Vec<TcpStream> = Vec::new();
    let feed = |c: &Chan, clients: &mut Vec<TcpStream>| -> bool {
        if let Some(peer) = &c.peer {
            let w = unsafe { libc::write(peer.as_raw_fd(), c.expect.as_ptr() as _, c.expect.len()) };
            w == c.expect.len() as isize
        } else if let Some(a) = c.addr {
            match TcpStream::connect(a) {
                Ok(s) => {
                    clients.push(s);
                    true
                }
                Err(_) => false,
            }
        } else {
            true
        }
    };
    for (i, o) in p.ops.iter().enumerate() {
        if o.feed_after_us.is_none() && !feed(&chans[i], &mut clients) {
            return Outcome::Inconclusive("pre-feed failed".into());
        }
    }
    let raw_fds: Vec<i32> = chans.iter().map(|c| c.ours.as_raw_fd()).collect();
    let expects: Vec<Vec<u8>> = chans.iter().map(|c| c.expect.clone()).collect();
    let late: Vec<(usize, u64, Option<OwnedFd>, Option<std::net::SocketAddr>, Vec<u8>)> = p
        .ops
        .iter()
        .enumerate()
        .filter_map(|(i, o)| o.feed_after_us.map(|us| (i, us, chans[i].peer.take(), chans[i].addr, chans[i].expect.clone())))
        .collect();
    let ours: Vec<OwnedFd> = chans.into_iter().map(|c| c.ours).collect();

    // ---- the runtime thread
    let (kick_rd, kick_wr) = mk_pipe();
    let kicks = Arc::new(AtomicUsize::new(0));
    let main_polls = Arc::new(AtomicUsize::new(0));
    let submitted = Arc::new(AtomicUsize::new(0));
    let handed = Arc::new(AtomicUsize::new(0));
    // per operation: 1 once its future has returned (the result reached the awaiting code)
    let returned: Arc<Vec<AtomicUsize>> = Arc::new((0..p.ops.len()).map(|_| AtomicUsize::new(0)).collect());
    let (tx, rx) = mpsc::channel::<Result<Vec<(usize, Res)>, String>>();
    let (tid_tx, tid_rx) = mpsc::channel::<i32>();
    let rt_thread = {
        let p = p.clone();
        let kicks = kicks.clone();
        let main_polls = main_polls.clone();
        let submitted = submitted.clone();
        let handed = handed.clone();
        let returned = returned.clone();
        std::thread::Builder::new()
            .name("c02-runtime".into())
            .spawn(move || {
                let _ = tid_tx.send(unsafe { libc::gettid() });
                let r = panics::catch(move || -> Result<Vec<(usize, Res)>, String> {
                    let mut pb = ProactorBuilder::new();
                    pb.driver_type(if p.driver == "poll" { DriverType::Poll } else { DriverType::IoUring });
                    pb.capacity(p.cap);
                    let rt = Runtime::builder().with_proactor(pb).build().map_err(|e| format!("cannot build runtime: {e}"))?;
                    let out = rt.block_on(async move {
                        // background reader for the kick
                        let kfd = SharedFd::new(kick_rd);
                        compio_runtime::spawn(async move {
                            loop {
                                let BufResult(res, _) = compio_runtime::submit(Read::new(kfd.clone(), Vec::with_capacity(8))).await;
                                match res {
                                    Ok(0) | Err(_) => break,
                                    Ok(_) => {
                                        kicks.fetch_add(1, Ordering::SeqCst);
                                    }
                                }
                            }
                        })
                        .detach();
                        let mut kids: Vec<Option<Pin<Box<dyn Future<Output = (usize, Res)>>>>> = Vec::new();
                        let mut handles = Vec::new();
                        for (i, (o, fd)) in p.ops.iter().zip(ours).enumerate() {
                            let fd = SharedFd::new(fd);
                            let size = o.size.max(1);
                            let submitted = submitted.clone();
                            let returned = returned.clone();
                            let kind = o.kind;
                            let fut: Pin<Box<dyn Future<Output = (usize, Res)>>> = Box::pin(async move {
                                submitted.fetch_add(1, Ordering::SeqCst);
                                let r = match kind {
                                    K::Recv => {
                                        let BufResult(r, op) = compio_runtime::submit(Recv::new(fd, Vec::<u8>::with_capacity(size), RecvFlags::empty())).await;
                                        finish_buf(r, op.into_inner())
                                    }
                                    K::Read => {
                                        let BufResult(r, op) = compio_runtime::submit(Read::new(fd, Vec::<u8>::with_capacity(size))).await;
                                        finish_buf(r, op.into_inner())
                                    }
                                    K::ReadAt => {
                                        let BufResult(r, op) = compio_runtime::submit(ReadAt::new(fd, 0, Vec::<u8>::with_capacity(size))).await;
                                        finish_buf(r, op.into_inner())
                                    }
                                    K::Accept => {
                                        let BufResult(r, _op) = compio_runtime::submit(Accept::new(fd)).await;
                                        r.map(|_| (0, Vec::new())).map_err(|e| e.to_string())
                                    }
                                };
                                returned[i].store(1, Ordering::SeqCst);
                                (i, r)
                            });
                            if o.in_main {
                                kids.push(Some(fut));
                            } else if o.handover {
                                // task A polls the operation once and ends; task B awaits what A hands over
                                let handed = handed.clone();
                                let first = compio_runtime::spawn(async move {
                                    let mut fut = fut;
                                    match PollOnce(&mut fut).await {
                                        Some(r) => Ok(r),
                                        None => {
                                            handed.fetch_add(1, Ordering::SeqCst);
                                            Err(fut)
                                        }
                                    }
                                });
                                handles.push(compio_runtime::spawn(async move {
                                    match first.await {
                                        Ok(Ok(r)) => r,
                                        Ok(Err(fut)) => fut.await,
                                        Err(_) => (usize::MAX, Err("prober task panicked".into())),
                                    }
                                }));
                            } else {
                                handles.push(compio_runtime::spawn(fut));
                            }
                        }
                        let mut out = JoinAll { kids, out: Vec::new(), polls: main_polls }.await;
                        for h in handles {
                            match h.await {
                                Ok(r) => out.push(r),
                                Err(_) => out.push((usize::MAX, Err("task panicked".into()))),
                            }
                        }
                        out
                    });
                    drop(rt);
                    Ok(out)
                });
                let _ = tx.send(match r {
                    Ok(r) => r,
                    Err(pi) => Err(format!("PANIC {:?}: {}", pi.origin(), pi.message)),
                });
            })
            .expect("spawn runtime thread")
    };
    let tid = tid_rx.recv_timeout(Duration::from_secs(5)).unwrap_or(0);
    // ---- feeder threads
    let feeders: Vec<_> = late
        .into_iter()
        .map(|(_i, us, peer, addr, data)| {
            std::thread::spawn(move || -> (bool, Option<TcpStream>, Option<OwnedFd>) {
                std::thread::sleep(Duration::from_micros(us));
                if let Some(peer) = peer {
                    let w = unsafe { libc::write(peer.as_raw_fd(), data.as_ptr() as _, data.len()) };
                    (w == data.len() as isize, None, Some(peer))
                } else if let Some(a) = addr {
                    match TcpStream::connect(a) {
                        Ok(s) => (true, Some(s), None),
                        Err(_) => (false, None, None),
                    }
                } else {
                    (true, None, None)
                }
            })
        })
        .collect();
    let mut keep: Vec<(Option<TcpStream>, Option<OwnedFd>)> = Vec::new();
    let mut fed_ok = true;
    for f in feeders {
        match f.join() {
            Ok((ok, s, p)) => {
                fed_ok &= ok;
                keep.push((s, p));
            }
            Err(_) => fed_ok = false,
        }
    }
    let finish = |rt_thread: std::thread::JoinHandle<()>, kick_wr: OwnedFd, join: bool| {
        drop(kick_wr);
        if join {
            let _ = rt_thread.join();
        }
    };
    if !fed_ok {
        finish(rt_thread, kick_wr, false);
        return Outcome::Inconclusive("a feeder could not provide its data".into());
    }
    // ---- everything every operation waits for is there: the program must end by itself
    let judge = |res: Vec<(usize, Res)>| -> Vec<(String, String)> {
        let mut viol = Vec::new();
        let mut seen = vec![0usize; p.ops.len()];
        for (i, r) in res {
            if i >= p.ops.len() {
                viol.push((format!("C02/rt/task-panicked/{}", p.driver), "a spawned operation task panicked".to_string()));
                continue;
            }
            seen[i] += 1;
            let ctx = format!("{}/{}/{}", p.driver, p.ops[i].kind.name(), if p.ops[i].in_main { "main" } else { "task" });
            match r {
                Ok((n, d)) => {
                    if p.ops[i].kind != K::Accept {
                        let want = &expects[i][..expects[i].len().min(p.ops[i].size.max(1))];
                        if n == 0 || d.len() != n || d[..] != want[..n.min(want.len())] || n > want.len() {
                            viol.push((format!("C02/rt/not-its-own-result/{ctx}"), format!("op {i} completed with {n} bytes that are not the first bytes of its own stream ({} expected)", want.len())));
                        }
                    }
                }
                Err(e) => viol.push((format!("C02/rt/unexpected-error/{ctx}"), format!("op {i} failed although its data was provided: {e}"))),
            }
        }
        for (i, s) in seen.iter().enumerate() {
            if *s != 1 {
                viol.push((format!("C02/rt/completed-{}-times/{}", s, p.driver), format!("op {i} produced {s} results")));
            }
        }
        viol
    };
    let sigs = |p: &Prog| -> Vec<String> {
        let capc = match p.cap {
            1 => "cap1",
            2 => "cap2",
            3..=4 => "capS",
            _ => "capL",
        };
        let over = p.ops.len() as u32 > p.cap;
        p.ops
            .iter()
            .map(|o| format!("{}|{capc}|{}|{}|{}|{}", p.driver, o.kind.name(),
                if o.in_main { "main" } else if o.handover && handed.load(Ordering::SeqCst) > 0 { "task-handed-over-pending" } else if o.handover { "task-handover" } else { "task" },
                if o.feed_after_us.is_some() { "fed-late" } else { "ready-at-submit" }, if over { "queue-overflow" } else { "-" }))
            .collect()
    };
    let t0 = Instant::now();
    let mut sleepy = 0;
    loop {
        match rx.recv_timeout(Duration::from_millis(100)) {
            Ok(Ok(res)) => {
                finish(rt_thread, kick_wr, true);
                let v = judge(res);
                return if v.is_empty() { Outcome::Held(sigs(p)) } else { Outcome::Violated(v) };
            }
            Ok(Err(e)) => {
                finish(rt_thread, kick_wr, true);
                if e.starts_with("PANIC Repo") {
                    return Outcome::Violated(vec![(format!("C02/rt/panic/{}", p.driver), e)]);
                }
                return Outcome::Inconclusive(e);
            }
            Err(mpsc::RecvTimeoutError::Disconnected) => {
                finish(rt_thread, kick_wr, true);
                return Outcome::Inconclusive("runtime thread vanished".into());
            }
            Err(mpsc::RecvTimeoutError::Timeout) => {}
        }
        if t0.elapsed() > Duration::from_secs(30) {
            finish(rt_thread, kick_wr, false);
            return Outcome::Inconclusive("watchdog: not finished after 30 s but never observed asleep five times in a row".into());
        }
        if t0.elapsed() < Duration::from_millis(300) {
            continue;
        }
        if asleep(tid) {
            sleepy += 1;
        } else {
            sleepy = 0;
        }
        if sleepy < 5 {
            continue;
        }
        // ---- logical quiescence with the program unfinished
        let n_sub = submitted.load(Ordering::SeqCst);
        let polls = main_polls.load(Ordering::SeqCst);
        let sysno = std::fs::read_to_string(format!("/proc/self/task/{tid}/syscall")).unwrap_or_default().split_whitespace().next().unwrap_or("?").to_string();
        // operations whose data has already been taken out of their descriptor (each descriptor has exactly one reader:
        // its operation) although the program is unfinished and the runtime thread sleeps: the OS has finished them
        let consumed: Vec<usize> = (0..p.ops.len())
            .filter(|i| matches!(p.ops[*i].kind, K::Recv | K::Read) && returned[*i].load(Ordering::SeqCst) == 0 && !poll_ready(raw_fds[*i], libc::POLLIN))
            .collect();
        let k0 = kicks.load(Ordering::SeqCst);
        unsafe { libc::write(kick_wr.as_raw_fd(), b"k".as_ptr() as _, 1) };
        let after = rx.recv_timeout(Duration::from_secs(3));
        let kicked = kicks.load(Ordering::SeqCst) > k0;
        let over = if p.ops.len() as u32 > p.cap { "queue-overflow" } else { "queue-fits" };
        return match after {
            Ok(Ok(res)) => {
                finish(rt_thread, kick_wr, true);
                let mut v = judge(res);
                v.insert(0, (format!("C02/rt/completion-wake-lost/{}/{over}", p.driver),
                    format!("all {} operations had their data, {n_sub} were submitted, the main future was polled {polls} times, and the runtime thread slept in syscall {sysno} \
                             (5 looks, no context switch); an unrelated I/O completion then let the program finish: a completion had been reaped without waking its future", p.ops.len())));
                Outcome::Violated(v)
            }
            _ => {
                // which operations are stranded with their data unread?
                let unread: Vec<usize> = (0..p.ops.len())
                    .filter(|i| p.ops[*i].kind != K::ReadAt && poll_ready(raw_fds[*i], libc::POLLIN))
                    .collect();
                finish(rt_thread, kick_wr, false);
                if kicked && !unread.is_empty() {
                    let i = unread[0];
                    Outcome::Violated(vec![(format!("C02/rt/ready-but-undelivered/{}/{}/{over}", p.driver, p.ops[i].kind.name()),
                        format!("the runtime turned after the kick, but operation(s) {unread:?} still have their data unread in the descriptor (poll(2)) and never completed; \
                                 {n_sub} of {} submitted, main future polled {polls} times, asleep in syscall {sysno}", p.ops.len()))])
                } else if kicked && !consumed.is_empty() && (0..3).all(|_| asleep(tid)) {
                    let still: Vec<usize> = consumed.iter().copied().filter(|i| returned[*i].load(Ordering::SeqCst) == 0).collect();
                    if still.is_empty() {
                        return Outcome::Inconclusive("stalled, but every operation whose data was consumed has returned by now".into());
                    }
                    let i = still[0];
                    let consumed = still;
                    Outcome::Violated(vec![(format!("C02/rt/completed-but-never-resumed/{}/{}/{}", p.driver, p.ops[i].kind.name(),
                            if p.ops[i].handover { "handed-over" } else if p.ops[i].in_main { "main" } else { "task" }),
                        format!("operation(s) {consumed:?} had taken their data out of the descriptor (nothing unread, one reader per descriptor) while the runtime \
                                 thread slept (5 looks, no context switch); an unrelated completion then turned the loop, and the thread sleeps again \
                                 (3 looks) with the program unfinished: the OS finished the operation but the task awaiting it is never resumed; \
                                 {n_sub} of {} submitted, {} future(s) handed over while pending, main future polled {polls} times, syscall {sysno}",
                                 p.ops.len(), handed.load(Ordering::SeqCst)))])
                } else {
                    Outcome::Inconclusive(format!("stalled (syscall {sysno}), kick {} and nothing unread remains: cannot tell a lost completion from a dead harness",
                        if kicked { "turned the loop" } else { "did not turn the loop" }))
                }
            }
        };
    }
}

pub fn main(args: &Args) {
    let mut rep = Report::from_args("C02", &args.str("leg", "rt"), args);
    let drivers: Vec<&'static str> = match args.get("driver") {
        Some("poll") => vec!["poll"],
        Some("iour") => vec!["iour"],
        _ => vec!["iour", "poll"],
    };
    let progs: Vec<Prog> = if let Some(path) = args.get("replay") {
        let text = std::fs::read_to_string(path).expect("replay file");
        let v: Value = vcommon::serde_json::from_str(&text).expect("json");
        match Prog::from_json(&v["program"]) {
            Some(p) => vec![p; args.usize("repeat", 20)],
            None => {
                rep.inconclusive("replay file has no program");
                rep.finish();
                return;
            }
        }
    } else {
        let base = Rng::new(args.seed()).fork(args.shard() + 1);
        (0..args.iters(300, 20000)).map(|i| generate(&mut base.fork(i as u64), drivers[i % drivers.len()])).collect()
    };
    for p in progs {
        if rep.out_of_time() {
            break;
        }
        match run_prog(&p) {
            Outcome::Held(sigs) => {
                let mut first = true;
                for s in sigs {
                    if first {
                        rep.eval(Some(s));
                        first = false;
                    } else {
                        rep.sig(s);
                    }
                }
                if rep.want_sample() {
                    rep.sample(p.to_json());
                }
            }
            Outcome::Violated(v) => {
                rep.eval(None);
                let mut seen = std::collections::HashSet::new();
                for (s, w) in v {
                    if seen.insert(s.clone()) {
                        rep.violation(&s, &w, p.to_json());
                    }
                }
            }
            Outcome::Inconclusive(r) => {
                rep.eval(None);
                rep.inconclusive(&r);
            }
        }
    }
    rep.finish();
}
