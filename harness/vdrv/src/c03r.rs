//! C03 runtime blocked in the kernel / external event loop legs — not built yet.

use vcommon::Args;

pub fn main(_args: &Args) {
    eprintln!("c03r: not implemented");
    std::process::exit(3);
}
