//! C03 (driver/runtime legs) — a wake-up from any thread is never lost.
//!
//! Mailbox conservation: waker threads do `posted += 1; waker.wake()`; the
//! woken future re-reads `posted` on every poll and finishes once it has seen
//! all `target` posts. A lost wake strands the last post(s).
//!
//! Legs: `block_on` (the runtime blocks in its own loop), `compat-futures` /
//! `compat-tokio` (compio-compat's external event loop over async-io / tokio),
//! `manual` (a hand-written loop: flush + poll(2) on the driver descriptor),
//! each on the io_uring and the polling driver, waking either the main future
//! (= the runtime/driver waker) or a spawned task (= the executor's remote
//! waker), with pauses injected at the real suspension points.
//!
//! Verdict by logical quiescence: all waker threads have returned from their
//! last `wake()` and were joined, yet the runtime thread is asleep in the
//! kernel (state S, no context switches between two looks). Then a *kick* — an
//! unrelated I/O completion that makes the loop turn — is delivered: if the
//! run now completes, all data was there and only the wake-up was missing
//! (driver-level loss); if the loop turns but the woken task is still not
//! polled, the executor lost it.

use std::{
    future::Future,
    os::fd::{AsRawFd, OwnedFd},
    pin::Pin,
    sync::{
        Arc, Mutex,
        atomic::{AtomicBool, AtomicU64, AtomicUsize, Ordering},
        mpsc,
    },
    task::{Context, Poll, Waker},
    time::{Duration, Instant},
};

use compio_driver::{DriverType, ProactorBuilder, SharedFd, op::Read, verif};
use compio_runtime::Runtime;
use vcommon::{Args, Report, Rng, Value, json, panics};

use crate::drv::mk_pipe;

#[derive(Debug, Clone, Copy, PartialEq, Eq)]
enum Leg {
    BlockOn,
    CompatFutures,
    CompatTokio,
    Manual,
}

impl Leg {
    fn name(self) -> &'static str {
        match self {
            Leg::BlockOn => "block_on",
            Leg::CompatFutures => "compat-futures",
            Leg::CompatTokio => "compat-tokio",
            Leg::Manual => "manual-fd",
        }
    }

    fn from_name(s: &str) -> Option<Leg> {
        [Leg::BlockOn, Leg::CompatFutures, Leg::CompatTokio, Leg::Manual]
            .into_iter()
            .find(|l| l.name() == s)
    }
}

#[derive(Debug, Clone)]
struct Prog {
    leg: Leg,
    driver: &'static str,
    /// wake the spawned task (executor remote waker) instead of the main future
    task_target: bool,
    /// per waker thread: initial delay (µs) and the delays before each further wake
    wakers: Vec<Vec<u64>>,
    /// injected pause (µs) per `verif::Point` index, 0 = none
    pauses: [u64; 8],
    sync_queue: usize,
}

impl Prog {
    fn to_json(&self) -> Value {
        json!({"leg": self.leg.name(), "driver": self.driver, "task_target": self.task_target,
               "wakers": self.wakers, "pauses": self.pauses, "sync_queue": self.sync_queue})
    }

    fn from_json(v: &Value) -> Option<Prog> {
        let mut pauses = [0u64; 8];
        for (i, p) in v["pauses"].as_array()?.iter().enumerate().take(8) {
            pauses[i] = p.as_u64()?;
        }
        Some(Prog {
            leg: Leg::from_name(v["leg"].as_str()?)?,
            driver: if v["driver"].as_str()? == "poll" { "poll" } else { "iour" },
            task_target: v["task_target"].as_bool()?,
            wakers: v["wakers"]
                .as_array()?
                .iter()
                .map(|w| w.as_array().map(|a| a.iter().filter_map(|x| x.as_u64()).collect()))
                .collect::<Option<Vec<_>>>()?,
            pauses,
            sync_queue: v["sync_queue"].as_u64().unwrap_or(64) as usize,
        })
    }
}

fn generate(rng: &mut Rng, legs: &[Leg], drivers: &[&'static str]) -> Prog {
    let leg = *rng.pick(legs);
    let delays = [0u64, 0, 20, 100, 300, 1000, 3000];
    let nw = rng.range(1, 3);
    let wakers = (0..nw)
        .map(|_| (0..rng.range(1, 4)).map(|_| *rng.pick(&delays)).collect())
        .collect();
    let mut pauses = [0u64; 8];
    for p in pauses.iter_mut() {
        if rng.chance(1, 3) {
            *p = *rng.pick(&[50u64, 200, 1000, 3000]);
        }
    }
    Prog {
        leg,
        driver: *rng.pick(drivers),
        task_target: rng.chance(1, 2),
        wakers,
        pauses,
        sync_queue: *rng.pick(&[1usize, 2, 64]),
    }
}

// ---- pause injection -------------------------------------------------------

static PAUSES: [AtomicU64; 8] = [const { AtomicU64::new(0) }; 8];
static PAUSE_HITS: [AtomicU64; 8] = [const { AtomicU64::new(0) }; 8];

fn pause_hook(p: verif::Point) {
    let i = p as usize;
    if i < 8 {
        PAUSE_HITS[i].fetch_add(1, Ordering::Relaxed);
        let us = PAUSES[i].load(Ordering::Relaxed);
        if us > 0 {
            std::thread::sleep(Duration::from_micros(us));
        }
    }
}

// ---- the mailbox -----------------------------------------------------------

struct Shared {
    posted: AtomicU64,
    target: u64,
    polls: AtomicUsize,
    waker: Mutex<Option<Waker>>,
    waker_set: AtomicBool,
    done: AtomicBool,
}

struct Mailbox(Arc<Shared>);

impl Future for Mailbox {
    type Output = u64;

    fn poll(self: Pin<&mut Self>, cx: &mut Context<'_>) -> Poll<u64> {
        let s = &self.0;
        s.polls.fetch_add(1, Ordering::SeqCst);
        {
            let mut w = s.waker.lock().unwrap();
            if !w.as_ref().is_some_and(|w| w.will_wake(cx.waker())) {
                *w = Some(cx.waker().clone());
            }
        }
        s.waker_set.store(true, Ordering::SeqCst);
        let seen = s.posted.load(Ordering::SeqCst);
        if seen >= s.target {
            s.done.store(true, Ordering::SeqCst);
            Poll::Ready(seen)
        } else {
            Poll::Pending
        }
    }
}

/// What runs inside the compio runtime.
async fn scenario(shared: Arc<Shared>, task_target: bool, kick_rd: OwnedFd, kicks: Arc<AtomicUsize>) -> u64 {
    // background reader: an unrelated I/O completion the harness can trigger
    let fd = SharedFd::new(kick_rd);
    compio_runtime::spawn(async move {
        loop {
            let buf = Vec::with_capacity(8);
            let compio_buf::BufResult(res, _) = compio_runtime::submit(Read::new(fd.clone(), buf)).await;
            match res {
                Ok(0) | Err(_) => break,
                Ok(_) => {
                    kicks.fetch_add(1, Ordering::SeqCst);
                }
            }
        }
    })
    .detach();
    if task_target {
        compio_runtime::spawn(Mailbox(shared)).await.unwrap_or(u64::MAX)
    } else {
        Mailbox(shared).await
    }
}

fn build_runtime(p: &Prog) -> std::io::Result<Runtime> {
    let mut pb = ProactorBuilder::new();
    pb.driver_type(if p.driver == "poll" { DriverType::Poll } else { DriverType::IoUring });
    pb.capacity(64);
    let mut rb = Runtime::builder();
    rb.with_proactor(pb);
    rb.sync_queue_size(p.sync_queue);
    rb.build()
}

fn manual_loop<F: Future>(rt: &Runtime, f: F) -> F::Output {
    // A hand-written external event loop: poll the future, run tasks, flush,
    // then wait on the driver descriptor with poll(2).
    use compio_driver::AsRawFd as _;
    let waker = rt.waker();
    let mut cx = Context::from_waker(&waker);
    let mut f = std::pin::pin!(f);
    loop {
        if let Poll::Ready(v) = rt.enter(|| f.as_mut().poll(&mut cx)) {
            rt.enter(|| rt.run());
            return v;
        }
        let mut remaining = rt.enter(|| rt.run());
        remaining |= rt.flush();
        let timeout_ms: i32 = if remaining {
            0
        } else {
            rt.current_timeout().map_or(-1, |d| d.as_millis().min(i32::MAX as u128) as i32)
        };
        let mut pfd = libc::pollfd {
            fd: rt.as_raw_fd(),
            events: libc::POLLIN,
            revents: 0,
        };
        unsafe { libc::poll(&mut pfd, 1, timeout_ms) };
        rt.poll_with(Some(Duration::ZERO));
    }
}

fn run_rt(p: &Prog, shared: Arc<Shared>, kick_rd: OwnedFd, kicks: Arc<AtomicUsize>) -> Result<u64, String> {
    let rt = build_runtime(p).map_err(|e| format!("cannot build runtime: {e}"))?;
    let fut = scenario(shared, p.task_target, kick_rd, kicks);
    Ok(match p.leg {
        Leg::BlockOn => rt.block_on(fut),
        Leg::Manual => manual_loop(&rt, fut),
        Leg::CompatFutures => {
            let rc = compio_compat::RuntimeCompat::<compio_compat::FuturesAdapter>::new(rt)
                .map_err(|e| format!("compat: {e}"))?;
            futures_executor::block_on(rc.execute(fut))
        }
        Leg::CompatTokio => {
            let trt = tokio::runtime::Builder::new_current_thread()
                .enable_all()
                .build()
                .map_err(|e| format!("tokio: {e}"))?;
            trt.block_on(async move {
                let rc = compio_compat::RuntimeCompat::<compio_compat::TokioAdapter>::new(rt)
                    .map_err(|e| format!("compat: {e}"))?;
                Ok::<u64, String>(rc.execute(fut).await)
            })?
        }
    })
}

// ---- /proc based "is that thread asleep" ------------------------------------

fn thread_state(tid: i32) -> Option<(char, u64)> {
    let stat = std::fs::read_to_string(format!("/proc/self/task/{tid}/stat")).ok()?;
    let st = stat.rsplit_once(") ")?.1.chars().next()?;
    let status = std::fs::read_to_string(format!("/proc/self/task/{tid}/status")).ok()?;
    let sw = status
        .lines()
        .filter(|l| l.contains("ctxt_switches"))
        .filter_map(|l| l.split_whitespace().last()?.parse::<u64>().ok())
        .sum();
    Some((st, sw))
}

fn asleep(tid: i32) -> bool {
    let Some((s1, c1)) = thread_state(tid) else { return false };
    std::thread::sleep(Duration::from_millis(60));
    let Some((s2, c2)) = thread_state(tid) else { return false };
    s1 == 'S' && s2 == 'S' && c1 == c2
}

enum Outcome {
    Held { polls: usize, sig: String },
    Violated { sig: String, what: String },
    Inconclusive(String),
}

fn run_prog(p: &Prog) -> Outcome {
    for i in 0..8 {
        PAUSES[i].store(p.pauses[i], Ordering::SeqCst);
        PAUSE_HITS[i].store(0, Ordering::SeqCst);
    }
    verif::set_pause_hook(Some(pause_hook));
    let _ = verif::drain();
    verif::enable(true);
    let target: u64 = p.wakers.iter().map(|w| w.len() as u64).sum();
    let shared = Arc::new(Shared {
        posted: AtomicU64::new(0),
        target,
        polls: AtomicUsize::new(0),
        waker: Mutex::new(None),
        waker_set: AtomicBool::new(false),
        done: AtomicBool::new(false),
    });
    let (kick_rd, kick_wr) = mk_pipe();
    let kicks = Arc::new(AtomicUsize::new(0));
    let (tx, rx) = mpsc::channel::<Result<u64, String>>();
    let (tid_tx, tid_rx) = mpsc::channel::<i32>();
    let rt_thread = {
        let p = p.clone();
        let shared = shared.clone();
        let kicks = kicks.clone();
        std::thread::Builder::new()
            .name("c03-runtime".into())
            .spawn(move || {
                let _ = tid_tx.send(unsafe { libc::gettid() });
                let r = panics::catch(|| run_rt(&p, shared, kick_rd, kicks));
                let _ = tx.send(match r {
                    Ok(r) => r,
                    Err(pi) => Err(format!("PANIC {:?}: {}", pi.origin(), pi.message)),
                });
            })
            .expect("spawn runtime thread")
    };
    let tid = tid_rx.recv_timeout(Duration::from_secs(5)).unwrap_or(0);
    // waker threads
    let mut hs = Vec::new();
    for delays in p.wakers.clone() {
        let shared = shared.clone();
        hs.push(std::thread::spawn(move || {
            let t0 = Instant::now();
            while !shared.waker_set.load(Ordering::SeqCst) {
                if t0.elapsed() > Duration::from_secs(10) {
                    return false;
                }
                std::thread::yield_now();
            }
            for d in delays {
                if d > 0 {
                    std::thread::sleep(Duration::from_micros(d));
                }
                let w = shared.waker.lock().unwrap().clone();
                shared.posted.fetch_add(1, Ordering::SeqCst);
                if let Some(w) = w {
                    w.wake();
                }
            }
            true
        }));
    }
    let mut wakers_ok = true;
    for h in hs {
        wakers_ok &= h.join().unwrap_or(false);
    }
    let cleanup = |rt_thread: std::thread::JoinHandle<()>, kick_wr: OwnedFd, finished: bool| {
        drop(kick_wr);
        if finished {
            let _ = rt_thread.join();
        }
        verif::set_pause_hook(None);
        verif::enable(false);
    };
    let cover = |p: &Prog, events: &[verif::Event]| {
        let elided = events.iter().filter(|e| e.kind == verif::Kind::Wake && e.b == 1).count();
        let syscalls = events.iter().filter(|e| e.kind == verif::Kind::Wake && e.b == 0).count();
        let hit: Vec<usize> = (0..8).filter(|i| PAUSE_HITS[*i].load(Ordering::Relaxed) > 0 && p.pauses[*i] > 0).collect();
        format!(
            "{}|{}|{}|q{}|wakes:{}|elided:{}|syscall:{}|paused:{:?}",
            p.leg.name(),
            p.driver,
            if p.task_target { "task" } else { "main" },
            p.sync_queue,
            p.wakers.iter().map(|w| w.len()).sum::<usize>(),
            if elided > 0 { "y" } else { "n" },
            if syscalls > 0 { "y" } else { "n" },
            hit
        )
    };
    if !wakers_ok {
        cleanup(rt_thread, kick_wr, false);
        return Outcome::Inconclusive("the future was never polled (waker not published within 10 s)".into());
    }
    // all wakers have returned from wake(): the run must now finish by itself
    let t0 = Instant::now();
    loop {
        match rx.recv_timeout(Duration::from_millis(150)) {
            Ok(Ok(seen)) => {
                let events = verif::drain();
                let sig = cover(p, &events);
                cleanup(rt_thread, kick_wr, true);
                if seen != target {
                    return Outcome::Violated {
                        sig: format!("C03/wrong-count/{}/{}", p.leg.name(), p.driver),
                        what: format!("finished having seen {seen} of {target} posts"),
                    };
                }
                return Outcome::Held { polls: shared.polls.load(Ordering::SeqCst), sig };
            }
            Ok(Err(e)) => {
                cleanup(rt_thread, kick_wr, true);
                if e.starts_with("PANIC Repo") {
                    return Outcome::Violated {
                        sig: format!("C03/panic/{}/{}", p.leg.name(), p.driver),
                        what: e,
                    };
                }
                return Outcome::Inconclusive(e);
            }
            Err(mpsc::RecvTimeoutError::Disconnected) => {
                cleanup(rt_thread, kick_wr, true);
                return Outcome::Inconclusive("runtime thread vanished".into());
            }
            Err(mpsc::RecvTimeoutError::Timeout) => {}
        }
        if t0.elapsed() > Duration::from_secs(20) {
            cleanup(rt_thread, kick_wr, false);
            return Outcome::Inconclusive("watchdog: not finished after 20 s but never observed asleep".into());
        }
        if t0.elapsed() < Duration::from_millis(400) || !asleep(tid) {
            continue;
        }
        // Logical quiescence reached: every waker returned, posted == target, the
        // runtime thread sleeps. Record where, then kick the loop with unrelated I/O.
        let posted = shared.posted.load(Ordering::SeqCst);
        let polls_before = shared.polls.load(Ordering::SeqCst);
        let events = verif::drain();
        let last_poll = events.iter().rev().find(|e| e.kind == verif::Kind::PollEnter).map(|e| e.b);
        let polled_ever = events.iter().any(|e| e.kind == verif::Kind::PollEnter);
        let syscall = std::fs::read_to_string(format!("/proc/self/task/{tid}/syscall")).unwrap_or_default();
        let sysno = syscall.split_whitespace().next().unwrap_or("?").to_string();
        let kicks_before = kicks.load(Ordering::SeqCst);
        unsafe { libc::write(kick_wr.as_raw_fd(), b"k".as_ptr() as _, 1) };
        let finished = matches!(rx.recv_timeout(Duration::from_secs(3)), Ok(Ok(_)));
        let kicked = kicks.load(Ordering::SeqCst) > kicks_before;
        let polls_after = shared.polls.load(Ordering::SeqCst);
        let phase = if !polled_ever { "before-first-driver-poll" } else { "after-driver-poll" };
        let tgt = if p.task_target { "task" } else { "main" };
        let what = format!(
            "all {} wake-ups were issued and every waking thread returned (posted = {posted} of {target}), but the future was last polled before the final post ({polls_before} polls) and the runtime thread sleeps in syscall {sysno} (last driver poll timeout: {}). An unrelated I/O completion {}.",
            target,
            match last_poll {
                None => "never polled".to_string(),
                Some(u64::MAX) => "infinite".to_string(),
                Some(ns) => format!("{ns} ns"),
            },
            if finished { "then let it finish: only the wake-up was missing".to_string() }
            else if kicked { format!("turned the loop ({polls_after} polls now) but the woken task was still not polled") }
            else { "could not turn the loop either".to_string() }
        );
        cleanup(rt_thread, kick_wr, finished);
        return if finished {
            Outcome::Violated { sig: format!("C03/lost-wake/{}/{}/{}/{}", p.leg.name(), p.driver, tgt, phase), what }
        } else if kicked {
            Outcome::Violated { sig: format!("C03/task-never-rescheduled/{}/{}/{}", p.leg.name(), p.driver, tgt), what }
        } else {
            Outcome::Violated { sig: format!("C03/loop-dead/{}/{}/{}/{}", p.leg.name(), p.driver, tgt, phase), what }
        };
    }
}

pub fn main(args: &Args) {
    let mut rep = Report::from_args("C03", &args.str("leg", "rt"), args);
    let legs: Vec<Leg> = match args.get("legs") {
        Some(s) => s.split(',').filter_map(Leg::from_name).collect(),
        None => vec![Leg::BlockOn, Leg::CompatFutures, Leg::CompatTokio, Leg::Manual],
    };
    let drivers: Vec<&'static str> = match args.get("driver") {
        Some("poll") => vec!["poll"],
        Some("iour") => vec!["iour"],
        _ => vec!["iour", "poll"],
    };
    let progs: Vec<Prog> = if let Some(path) = args.get("replay") {
        let text = std::fs::read_to_string(path).expect("replay file");
        let v: Value = vcommon::serde_json::from_str(&text).expect("json");
        match Prog::from_json(&v["program"]) {
            Some(p) => vec![p; args.usize("repeat", 20)],
            None => {
                rep.inconclusive("replay file has no program");
                rep.finish();
                return;
            }
        }
    } else {
        let base = Rng::new(args.seed()).fork(args.shard() + 1);
        (0..args.iters(60, 3000)).map(|i| generate(&mut base.fork(i as u64), &legs, &drivers)).collect()
    };
    for p in progs {
        if rep.out_of_time() {
            break;
        }
        match run_prog(&p) {
            Outcome::Held { polls, sig } => {
                rep.count("polls", polls as i64);
                rep.eval(Some(sig));
                if rep.want_sample() {
                    rep.sample(p.to_json());
                }
            }
            Outcome::Violated { sig, what } => {
                rep.eval(None);
                rep.violation(&sig, &what, p.to_json());
            }
            Outcome::Inconclusive(r) => {
                rep.eval(None);
                rep.inconclusive(&r);
            }
        }
        for i in 0..8 {
            rep.count(&format!("pause_point_{i}_hits"), PAUSE_HITS[i].load(Ordering::Relaxed) as i64);
        }
    }
    rep.finish();
}
