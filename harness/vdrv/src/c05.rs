//! C05 — driver-level operation soup (see drv/soup.rs), focus Cancel.

use vcommon::Args;

use crate::drv::soup::{Focus, main_for};

pub fn main(args: &Args) {
    main_for("C05", Focus::Cancel, args)
}
