//! C05 (runtime level) — cancellation is prompt, honest and local, through the
//! three routes the runtime offers: dropping the future, a `CancelToken`
//! (`with_cancel`, plain / fail-fast / nested / combined with
//! `with_personality` either way round / registered after the token fired) and
//! `time::timeout`.
//!
//! A seeded program starts 2–7 operations (stream receive, pipe read, accept,
//! readiness wait) as tasks of one runtime, several of them on the same
//! descriptor, each with a route, and interleaves feeds, token fires (also
//! twice and after completion), drops and runtime turns. The harness drives the
//! runtime itself (`run` + `poll_with`), so every verdict is on logical steps.
//!
//! Oracles:
//!  * prompt — an operation whose route fired has an outcome within one runtime
//!    turn per started operation plus four, although what it waits for never
//!    comes;
//!  * honest — its outcome is a cancellation error or a genuine result: the
//!    bytes it reports are the next bytes of its stream (position-dependent
//!    content), an accepted connection is one of the connections made;
//!  * local — every other operation, including those on the same descriptor
//!    and those under another token, is still pending afterwards, never fails,
//!    and once fed completes with exactly the bytes that nobody else was
//!    entitled to (no byte fed after the barrier may disappear: an operation
//!    whose future was dropped must be gone from the kernel by then);
//!  * exact — a token cancels what was registered with it (innermost token
//!    wins, as documented), including registrations after the fire.

use std::{
    cell::{Cell, RefCell},
    future::Future,
    net::{TcpListener, TcpStream},
    os::fd::{AsRawFd, OwnedFd},
    pin::Pin,
    rc::Rc,
    task::{Context, Poll, Waker},
    time::{Duration, Instant},
};

use compio_buf::{BufResult, IntoInner};
use compio_driver::{
    DriverType, ProactorBuilder, SharedFd,
    op::{Accept, Interest, PollOnce, Read, Recv},
};
use compio_runtime::{CancelToken, FutureExt, JoinHandle, Runtime};
use rustix::net::RecvFlags;
use vcommon::{Args, Report, Rng, Value, json, panics};

use crate::drv::{ProbeFd, mk_pipe, mk_socketpair, pat, poll_ready, set_nonblocking, soup::arrange};

type Fd = SharedFd<ProbeFd>;

#[derive(Debug, Clone, Copy, PartialEq, Eq)]
enum K {
    Recv,
    Read,
    Accept,
    Ready,
}

impl K {
    fn name(self) -> &'static str {
        match self {
            K::Recv => "recv",
            K::Read => "read",
            K::Accept => "accept",
            K::Ready => "poll-once",
        }
    }

    fn from_name(s: &str) -> Option<K> {
        [K::Recv, K::Read, K::Accept, K::Ready].into_iter().find(|k| k.name() == s)
    }
}

#[derive(Debug, Clone, Copy, PartialEq, Eq)]
enum Route {
    /// never cancelled: must survive everything and complete once fed
    Survive,
    /// the future is dropped (select-style) when the program says so
    Drop,
    /// `with_cancel(token)`
    Token(usize),
    /// `with_cancel(token).fail_fast()`
    FailFast(usize),
    /// `op.with_personality(0).with_cancel(token)`
    TokenOverPersonality(usize),
    /// `op.with_cancel(token).with_personality(0)`
    PersonalityOverToken(usize),
    /// `op.with_cancel(inner).with_cancel(outer)`: the innermost token wins
    Nested(usize, usize),
    /// `time::timeout(ms, op)`
    Timeout(u64),
}

impl Route {
    fn name(self) -> &'static str {
        match self {
            Route::Survive => "survive",
            Route::Drop => "drop",
            Route::Token(_) => "token",
            Route::FailFast(_) => "token-fail-fast",
            Route::TokenOverPersonality(_) => "token-over-personality",
            Route::PersonalityOverToken(_) => "personality-over-token",
            Route::Nested(..) => "nested-tokens",
            Route::Timeout(_) => "timeout",
        }
    }

    /// The token whose fire cancels the operation.
    fn token(self) -> Option<usize> {
        match self {
            Route::Token(t) | Route::FailFast(t) | Route::TokenOverPersonality(t) | Route::PersonalityOverToken(t) => Some(t),
            Route::Nested(inner, _) => Some(inner),
            _ => None,
        }
    }

    fn to_json(self) -> Value {
        match self {
            Route::Survive => json!(["survive"]),
            Route::Drop => json!(["drop"]),
            Route::Token(t) => json!(["token", t]),
            Route::FailFast(t) => json!(["failfast", t]),
            Route::TokenOverPersonality(t) => json!(["token-over-personality", t]),
            Route::PersonalityOverToken(t) => json!(["personality-over-token", t]),
            Route::Nested(a, b) => json!(["nested", a, b]),
            Route::Timeout(ms) => json!(["timeout", ms]),
        }
    }

    fn from_json(v: &Value) -> Option<Route> {
        let a = v.as_array()?;
        let n = |i: usize| a.get(i).and_then(|x| x.as_u64()).unwrap_or(0) as usize;
        Some(match a.first()?.as_str()? {
            "survive" => Route::Survive,
            "drop" => Route::Drop,
            "token" => Route::Token(n(1)),
            "failfast" => Route::FailFast(n(1)),
            "token-over-personality" => Route::TokenOverPersonality(n(1)),
            "personality-over-token" => Route::PersonalityOverToken(n(1)),
            "nested" => Route::Nested(n(1), n(2)),
            "timeout" => Route::Timeout(n(1) as u64),
            _ => return None,
        })
    }
}

#[derive(Debug, Clone)]
struct OpSpec {
    kind: K,
    /// descriptor group among the groups of this kind (operations with equal (kind, group) share a descriptor)
    group: usize,
    size: usize,
    route: Route,
}

#[derive(Debug, Clone, PartialEq)]
enum Act {
    Start(usize),
    Feed(usize, usize),
    Fire(usize),
    DropOp(usize),
    Turn(u64),
}

#[derive(Debug, Clone)]
struct Prog {
    driver: &'static str,
    ops: Vec<OpSpec>,
    acts: Vec<Act>,
}

const TOKENS: usize = 3;

impl Prog {
    fn to_json(&self) -> Value {
        json!({"driver": self.driver,
            "ops": self.ops.iter().map(|o| json!({"kind": o.kind.name(), "group": o.group, "size": o.size, "route": o.route.to_json()})).collect::<Vec<_>>(),
            "acts": self.acts.iter().map(|a| match a {
                Act::Start(i) => json!(["start", i]),
                Act::Feed(i, n) => json!(["feed", i, n]),
                Act::Fire(t) => json!(["fire", t]),
                Act::DropOp(i) => json!(["drop", i]),
                Act::Turn(ms) => json!(["turn", ms]),
            }).collect::<Vec<_>>()})
    }

    fn from_json(v: &Value) -> Option<Prog> {
        let ops = v["ops"]
            .as_array()?
            .iter()
            .map(|o| {
                Some(OpSpec {
                    kind: K::from_name(o["kind"].as_str()?)?,
                    group: o["group"].as_u64()? as usize,
                    size: o["size"].as_u64()? as usize,
                    route: Route::from_json(&o["route"])?,
                })
            })
            .collect::<Option<Vec<_>>>()?;
        let acts = v["acts"]
            .as_array()?
            .iter()
            .map(|a| {
                let a = a.as_array()?;
                let n = |i: usize| a.get(i).and_then(|x| x.as_u64()).unwrap_or(0) as usize;
                Some(match a.first()?.as_str()? {
                    "start" => Act::Start(n(1)),
                    "feed" => Act::Feed(n(1), n(2)),
                    "fire" => Act::Fire(n(1)),
                    "drop" => Act::DropOp(n(1)),
                    "turn" => Act::Turn(n(1) as u64),
                    _ => return None,
                })
            })
            .collect::<Option<Vec<_>>>()?;
        Some(Prog {
            driver: if v["driver"].as_str()? == "poll" { "poll" } else { "iour" },
            ops,
            acts,
        })
    }
}

fn generate(rng: &mut Rng, driver: &'static str) -> Prog {
    let nops = rng.range(2, 7);
    let mut ops = Vec::new();
    for _ in 0..nops {
        let kind = *rng.pick(&[K::Recv, K::Recv, K::Read, K::Read, K::Accept, K::Ready]);
        let group = rng.below(2);
        let t = rng.below(TOKENS);
        let route = match rng.below(12) {
            0..=2 => Route::Survive,
            3 => Route::Drop,
            4 | 5 => Route::Token(t),
            6 => Route::FailFast(t),
            7 => Route::TokenOverPersonality(t),
            8 => Route::PersonalityOverToken(t),
            9 => Route::Nested(t, (t + 1) % TOKENS),
            _ => Route::Timeout(*rng.pick(&[1u64, 5, 20])),
        };
        ops.push(OpSpec {
            kind,
            group,
            size: *rng.pick(&[1usize, 3, 16, 64]),
            route,
        });
    }
    let mut acts = Vec::new();
    let mut started = Vec::new();
    let mut next = 0;
    let steps = nops * 3 + rng.range(2, 8);
    for _ in 0..steps {
        let r = rng.below(100);
        if next < nops && (started.is_empty() || r < 30) {
            acts.push(Act::Start(next));
            started.push(next);
            next += 1;
        } else if r < 45 {
            let i = *rng.pick(&started);
            acts.push(Act::Feed(i, rng.range(1, ops[i].size + 3)));
        } else if r < 65 {
            acts.push(Act::Fire(rng.below(TOKENS)));
        } else if r < 75 {
            acts.push(Act::DropOp(*rng.pick(&started)));
        } else {
            acts.push(Act::Turn(*rng.pick(&[0u64, 0, 1, 8, 25])));
        }
    }
    // late registrations: whatever was not started yet starts after the fires
    while next < nops {
        acts.push(Act::Start(next));
        next += 1;
    }
    Prog { driver, ops, acts }
}

#[derive(Debug, Clone, PartialEq)]
enum Out {
    Ok(usize, Vec<u8>),
    Err(i32, String),
    /// `Cancelled` of the fail-fast combinator
    Cancelled,
    Elapsed,
    Dropped,
}

/// Select-style wrapper: resolves to `None` (dropping the inner future) once the trigger is set.
struct DropWhen<F> {
    fut: Pin<Box<F>>,
    trigger: Rc<Trigger>,
}

#[derive(Default)]
struct Trigger {
    set: Cell<bool>,
    waker: RefCell<Option<Waker>>,
}

impl<F: Future> Future for DropWhen<F> {
    type Output = Option<F::Output>;

    fn poll(mut self: Pin<&mut Self>, cx: &mut Context<'_>) -> Poll<Self::Output> {
        if self.trigger.set.get() {
            return Poll::Ready(None);
        }
        *self.trigger.waker.borrow_mut() = Some(cx.waker().clone());
        self.fut.as_mut().poll(cx).map(Some)
    }
}

struct Group {
    kind: K,
    ours: Fd,
    peer: Option<OwnedFd>,
    listener_addr: Option<std::net::SocketAddr>,
    clients: Vec<TcpStream>,
    fed: Vec<u8>,
    salt: u64,
    /// stream offset at the barrier (everything fed later must be delivered completely)
    barrier: usize,
    /// bytes the harness itself took out at the barrier
    drained: Vec<u8>,
    /// bytes left unread in the descriptor at the barrier (a reader was still pending)
    unread_at_barrier: usize,
}

struct OpRt {
    started: bool,
    group: usize,
    out: Rc<RefCell<Option<Out>>>,
    accepted: Rc<RefCell<Vec<OwnedFd>>>,
    handle: Option<JoinHandle<()>>,
    trigger: Rc<Trigger>,
    /// its cancellation route fired while it was pending (or it started under a fired token)
    fired: bool,
    /// completed before the barrier
    done_before_barrier: bool,
    deadline: Option<Instant>,
}

fn vio(v: &mut Vec<(String, String)>, rule: &str, ctx: &str, what: String) {
    v.push((format!("C05/{rule}/{ctx}"), what));
}

struct Exec<'a> {
    p: &'a Prog,
    rt: &'a Runtime,
    groups: Vec<Group>,
    ops: Vec<OpRt>,
    tokens: Vec<CancelToken>,
    token_fired: [bool; TOKENS],
    viol: Vec<(String, String)>,
    turns: usize,
}

impl<'a> Exec<'a> {
    fn ctx(&self, i: usize) -> String {
        format!("{}/{}/{}", self.p.driver, self.p.ops[i].kind.name(), self.p.ops[i].route.name())
    }

    fn group_for(&mut self, kind: K, g: usize) -> std::io::Result<usize> {
        let salt = 0xC05_0000 + (kind as u64) * 16 + g as u64;
        if let Some(i) = self.groups.iter().position(|x| x.salt == salt) {
            return Ok(i);
        }
        let poll = self.p.driver == "poll";
        let (ours, peer, addr): (OwnedFd, Option<OwnedFd>, Option<std::net::SocketAddr>) = match kind {
            K::Recv => {
                let (a, b) = mk_socketpair(libc::SOCK_STREAM);
                (a, Some(b), None)
            }
            K::Read | K::Ready => {
                let (r, w) = mk_pipe();
                (r, Some(w), None)
            }
            K::Accept => {
                let l = TcpListener::bind("127.0.0.1:0")?;
                let a = l.local_addr()?;
                (OwnedFd::from(l), None, Some(a))
            }
        };
        if poll {
            set_nonblocking(ours.as_raw_fd(), true);
        }
        self.groups.push(Group {
            kind,
            ours: SharedFd::new(ProbeFd::new(ours)),
            peer,
            listener_addr: addr,
            clients: Vec::new(),
            fed: Vec::new(),
            salt,
            barrier: usize::MAX,
            drained: Vec::new(),
            unread_at_barrier: 0,
        });
        Ok(self.groups.len() - 1)
    }

    fn start(&mut self, i: usize) {
        if self.ops[i].started {
            return;
        }
        let spec = self.p.ops[i].clone();
        let Ok(g) = self.group_for(spec.kind, spec.group) else { return };
        self.ops[i].group = g;
        self.ops[i].started = true;
        let fd = self.groups[g].ours.clone();
        let out = self.ops[i].out.clone();
        let accepted = self.ops[i].accepted.clone();
        let size = spec.size.max(1);
        // the bare operation, as a future of a uniform outcome
        let op: Pin<Box<dyn Future<Output = Out>>> = match spec.kind {
            K::Recv => Box::pin(async move {
                let BufResult(r, op) = compio_runtime::submit(Recv::new(fd, Vec::<u8>::with_capacity(size), RecvFlags::empty())).await;
                finish_buf(r, op.into_inner())
            }),
            K::Read => Box::pin(async move {
                let BufResult(r, op) = compio_runtime::submit(Read::new(fd, Vec::<u8>::with_capacity(size))).await;
                finish_buf(r, op.into_inner())
            }),
            K::Accept => Box::pin(async move {
                let BufResult(r, op) = compio_runtime::submit(Accept::new(fd)).await;
                match r {
                    Ok(n) => {
                        let (sock, _) = op.into_inner();
                        accepted.borrow_mut().push(OwnedFd::from(sock));
                        Out::Ok(n.min(1), Vec::new())
                    }
                    Err(e) => Out::Err(e.raw_os_error().unwrap_or(-1), e.to_string()),
                }
            }),
            K::Ready => Box::pin(async move {
                let BufResult(r, _) = compio_runtime::submit(PollOnce::new(fd, Interest::Readable)).await;
                match r {
                    Ok(_) => Out::Ok(0, Vec::new()),
                    Err(e) => Out::Err(e.raw_os_error().unwrap_or(-1), e.to_string()),
                }
            }),
        };
        let tok = |t: usize| self.tokens[t].clone();
        let wrapped: Pin<Box<dyn Future<Output = Out>>> = match spec.route {
            Route::Survive | Route::Drop => op,
            Route::Token(t) => Box::pin(op.with_cancel(tok(t))),
            Route::FailFast(t) => {
                let f = op.with_cancel(tok(t)).fail_fast();
                Box::pin(async move {
                    match f.await {
                        Ok(o) => o,
                        Err(_) => Out::Cancelled,
                    }
                })
            }
            Route::TokenOverPersonality(t) => Box::pin(op.with_personality(0).with_cancel(tok(t))),
            Route::PersonalityOverToken(t) => Box::pin(op.with_cancel(tok(t)).with_personality(0)),
            Route::Nested(inner, outer) => Box::pin(op.with_cancel(tok(inner)).with_cancel(tok(outer))),
            Route::Timeout(ms) => {
                self.ops[i].deadline = Some(Instant::now() + Duration::from_millis(ms));
                let f = compio_runtime::time::timeout(Duration::from_millis(ms), op);
                Box::pin(async move {
                    match f.await {
                        Ok(o) => o,
                        Err(_) => Out::Elapsed,
                    }
                })
            }
        };
        let trigger = self.ops[i].trigger.clone();
        let guarded = DropWhen {
            fut: Box::pin(wrapped),
            trigger,
        };
        self.ops[i].handle = Some(self.rt.spawn(async move {
            let o = guarded.await.unwrap_or(Out::Dropped);
            *out.borrow_mut() = Some(o);
        }));
        if let Some(t) = spec.route.token()
            && self.token_fired[t]
        {
            // registered after the fire: cancelled all the same
            self.ops[i].fired = true;
        }
    }

    fn feed(&mut self, i: usize, n: usize) {
        if !self.ops[i].started {
            return;
        }
        let g = &mut self.groups[self.ops[i].group];
        match g.kind {
            K::Accept => {
                if let Some(a) = g.listener_addr
                    && let Ok(c) = TcpStream::connect(a)
                {
                    g.clients.push(c);
                }
            }
            _ => {
                let Some(peer) = &g.peer else { return };
                let n = n.clamp(1, 1024);
                let start = g.fed.len();
                let data: Vec<u8> = (start..start + n).map(|o| pat(g.salt, o)).collect();
                set_nonblocking(peer.as_raw_fd(), true);
                let w = unsafe { libc::write(peer.as_raw_fd(), data.as_ptr() as _, data.len()) };
                if w > 0 {
                    g.fed.extend_from_slice(&data[..w as usize]);
                }
            }
        }
    }

    fn fire(&mut self, t: usize) {
        // cancel consumes a clone; a second fire is a no-op by contract
        self.tokens[t].clone().cancel();
        self.token_fired[t] = true;
        for i in 0..self.ops.len() {
            if self.ops[i].started && self.ops[i].out.borrow().is_none() && self.p.ops[i].route.token() == Some(t) {
                self.ops[i].fired = true;
            }
        }
    }

    fn drop_op(&mut self, i: usize) {
        if !self.ops[i].started || self.p.ops[i].route != Route::Drop || self.ops[i].out.borrow().is_some() {
            return;
        }
        self.ops[i].trigger.set.set(true);
        if let Some(w) = self.ops[i].trigger.waker.borrow_mut().take() {
            w.wake();
        }
        self.ops[i].fired = true;
    }

    /// One runtime turn: run what is runnable, poll the driver (and the timers), run again.
    fn turn(&mut self, ms: u64) {
        let mut n = 0;
        while self.rt.run() && n < 64 {
            n += 1;
        }
        self.rt.poll_with(Some(Duration::from_millis(ms)));
        n = 0;
        while self.rt.run() && n < 64 {
            n += 1;
        }
        self.turns += 1;
    }

    fn pending(&self, i: usize) -> bool {
        self.ops[i].started && self.ops[i].out.borrow().is_none()
    }
}

fn finish_buf(r: std::io::Result<usize>, mut b: Vec<u8>) -> Out {
    match r {
        Ok(n) => {
            let n = n.min(b.capacity());
            unsafe { b.set_len(n) };
            Out::Ok(n, b)
        }
        Err(e) => Out::Err(e.raw_os_error().unwrap_or(-1), e.to_string()),
    }
}

struct Outcome {
    viol: Vec<(String, String)>,
    sigs: Vec<String>,
    nontrivial: bool,
}

fn run_prog(p: &Prog) -> Result<Outcome, String> {
    let mut pb = ProactorBuilder::new();
    pb.driver_type(if p.driver == "poll" { DriverType::Poll } else { DriverType::IoUring });
    pb.capacity(64);
    let rt = Runtime::builder().with_proactor(pb).build().map_err(|e| format!("runtime: {e}"))?;
    let out = rt.enter(|| {
        let mut ex = Exec {
            p,
            rt: &rt,
            groups: Vec::new(),
            ops: p
                .ops
                .iter()
                .map(|_| OpRt {
                    started: false,
                    group: 0,
                    out: Rc::new(RefCell::new(None)),
                    accepted: Rc::new(RefCell::new(Vec::new())),
                    handle: None,
                    trigger: Rc::new(Trigger::default()),
                    fired: false,
                    done_before_barrier: false,
                    deadline: None,
                })
                .collect(),
            tokens: (0..TOKENS).map(|_| CancelToken::new()).collect(),
            token_fired: [false; TOKENS],
            viol: Vec::new(),
            turns: 0,
        };
        for a in &p.acts {
            match a {
                Act::Start(i) => ex.start(*i),
                Act::Feed(i, n) => ex.feed(*i, *n),
                Act::Fire(t) => ex.fire(*t),
                Act::DropOp(i) => ex.drop_op(*i),
                Act::Turn(ms) => ex.turn(*ms),
            }
        }
        let n = ex.ops.len();
        // ---- prompt: everything whose route fired has an outcome within bounded turns.
        // Timeouts: wait (wall clock, bounded, not a verdict) until the deadlines have passed.
        let latest = ex.ops.iter().filter_map(|o| o.deadline).max();
        if let Some(d) = latest {
            let now = Instant::now();
            if d > now {
                std::thread::sleep(d - now + Duration::from_millis(1));
            }
            for i in 0..n {
                if ex.ops[i].deadline.is_some() && ex.pending(i) {
                    ex.ops[i].fired = true;
                }
            }
        }
        let bound = 4 + ex.ops.iter().filter(|o| o.started).count();
        for r in 0..bound {
            if !(0..n).any(|i| ex.ops[i].fired && ex.pending(i)) {
                break;
            }
            ex.turn([0u64, 2, 5, 20, 50][r.min(4)]);
        }
        for i in 0..n {
            if ex.ops[i].fired && ex.pending(i) {
                let c = ex.ctx(i);
                vio(&mut ex.viol, "cancel-not-prompt", &c,
                    format!("op {i} ({}) was cancelled through its route `{}` but has no outcome after {bound} runtime turns", p.ops[i].kind.name(), p.ops[i].route.name()));
            }
        }
        // ---- barrier: a few more turns so that whatever readable data had a taker is taken,
        // then the harness removes what is left; from here on nothing may disappear
        for _ in 0..3 {
            ex.turn(2);
        }
        for i in 0..n {
            ex.ops[i].done_before_barrier = ex.ops[i].started && !ex.pending(i);
        }
        for gi in 0..ex.groups.len() {
            let has_pending_reader = (0..n).any(|i| ex.pending(i) && ex.ops[i].group == gi);
            let g = &mut ex.groups[gi];
            if !matches!(g.kind, K::Recv | K::Read) {
                continue;
            }
            if !has_pending_reader {
                let fd = g.ours.as_raw_fd();
                set_nonblocking(fd, true);
                let mut sink = [0u8; 4096];
                loop {
                    let r = unsafe { libc::read(fd, sink.as_mut_ptr() as _, sink.len()) };
                    if r <= 0 {
                        break;
                    }
                    g.drained.extend_from_slice(&sink[..r as usize]);
                }
                if p.driver != "poll" {
                    set_nonblocking(fd, false);
                }
            }
            // what is still unread in the descriptor (a pending reader will get it after the
            // barrier) belongs to the part of the stream before the barrier
            let mut inq: libc::c_int = 0;
            let unread = if unsafe { libc::ioctl(g.ours.as_raw_fd(), libc::FIONREAD, &mut inq) } == 0 { inq.max(0) as usize } else { 0 };
            g.barrier = g.fed.len().saturating_sub(unread);
            g.unread_at_barrier = unread;
        }
        // ---- local: feed every group that still has pending operations; they must all complete
        for _round in 0..3 {
            let pend: Vec<usize> = (0..n).filter(|i| ex.pending(*i)).collect();
            if pend.is_empty() {
                break;
            }
            for &i in &pend {
                let size = p.ops[i].size;
                ex.feed(i, size);
            }
            for r in 0..(4 + pend.len()) {
                if !(0..n).any(|i| ex.pending(i)) {
                    break;
                }
                ex.turn([0u64, 2, 5, 20, 50][r.min(4)]);
            }
        }
        for i in 0..n {
            if !ex.pending(i) {
                continue;
            }
            let g = &ex.groups[ex.ops[i].group];
            let readable = poll_ready(g.ours.as_raw_fd(), libc::POLLIN);
            let c = ex.ctx(i);
            if readable {
                vio(&mut ex.viol, "neighbour-stalled", &c,
                    format!("op {i} ({}) was never cancelled, what it waits for is there (poll(2)) but it has no outcome after three feed rounds of bounded turns", p.ops[i].kind.name()));
            }
        }
        // ---- judge outcomes
        for i in 0..n {
            if !ex.ops[i].started {
                continue;
            }
            let o = ex.ops[i].out.borrow().clone();
            let c = ex.ctx(i);
            let fired = ex.ops[i].fired;
            match (&o, p.ops[i].route) {
                (None, _) => {}
                (Some(Out::Dropped), Route::Drop) => {}
                (Some(Out::Dropped), _) => vio(&mut ex.viol, "harness", &c, "dropped without a drop route".into()),
                (Some(Out::Elapsed), Route::Timeout(_)) => {
                    if ex.ops[i].deadline.is_some_and(|d| Instant::now() < d) {
                        vio(&mut ex.viol, "timeout-early", &c, format!("op {i}: timeout reported before its deadline"));
                    }
                }
                (Some(Out::Cancelled), Route::FailFast(t)) if ex.token_fired[t] => {}
                (Some(Out::Elapsed | Out::Cancelled), _) => {
                    vio(&mut ex.viol, "cancelled-without-cause", &c, format!("op {i} reports {o:?} although its route never fired"))
                }
                (Some(Out::Err(e, msg)), _) => {
                    let cancelled = *e == libc::ECANCELED || msg.to_lowercase().contains("cancel");
                    if !fired {
                        vio(&mut ex.viol, "neighbour-failed", &c,
                            format!("op {i} ({}) was never cancelled (route `{}`) but failed with {msg} (errno {e})", p.ops[i].kind.name(), p.ops[i].route.name()));
                    } else if !cancelled && *e != libc::EINTR && *e != libc::ETIME {
                        vio(&mut ex.viol, "dishonest-error", &c, format!("cancelled op {i} reports {msg} (errno {e}), neither a cancellation error nor a genuine result"));
                    }
                }
                (Some(Out::Ok(..)), _) => {}
            }
        }
        // data: per stream group
        for (gi, g) in ex.groups.iter().enumerate() {
            match g.kind {
                K::Recv | K::Read => {
                    let name = format!("{}/{}", p.driver, g.kind.name());
                    let members: Vec<usize> = (0..n).filter(|i| ex.ops[*i].started && ex.ops[*i].group == gi).collect();
                    let outs: Vec<(usize, Vec<u8>)> = members
                        .iter()
                        .filter_map(|i| match &*ex.ops[*i].out.borrow() {
                            Some(Out::Ok(_, d)) => Some((*i, d.clone())),
                            _ => None,
                        })
                        .collect();
                    let barrier = g.barrier.min(g.fed.len());
                    // before the barrier: bytes may be lost only to dropped futures / timeouts
                    let lossy = members.iter().any(|i| matches!(p.ops[*i].route, Route::Drop | Route::Timeout(_) | Route::FailFast(_)));
                    let mut before: Vec<&[u8]> = outs.iter().filter(|(i, _)| ex.ops[*i].done_before_barrier).map(|(_, d)| d.as_slice()).filter(|d| !d.is_empty()).collect();
                    if !g.drained.is_empty() {
                        before.push(&g.drained);
                    }
                    let total_before: usize = before.iter().map(|d| d.len()).sum();
                    if total_before > barrier || !arrange(&g.fed[..barrier], &mut before, 0, lossy) {
                        vio(&mut ex.viol, "fabricated-or-misplaced-data", &name,
                            format!("the bytes reported by the operations on this descriptor before the barrier ({total_before}) are not consecutive pieces of the {barrier} bytes sent{}",
                                if lossy { " (gaps allowed: a dropped future may have consumed)" } else { " (no gaps allowed: nothing was dropped, a cancelled op must report what it consumed)" }));
                    } else if !lossy && total_before < barrier {
                        vio(&mut ex.viol, "bytes-lost-to-cancelled-op", &name,
                            format!("{} of {barrier} bytes sent before the barrier were reported by nobody and are not in the descriptor any more: a cancelled operation consumed them and reported a cancellation", barrier - total_before));
                    }
                    // after the barrier: exactly the survivors' data, nothing may disappear
                    let mut after: Vec<&[u8]> = outs.iter().filter(|(i, _)| !ex.ops[*i].done_before_barrier).map(|(_, d)| d.as_slice()).filter(|d| !d.is_empty()).collect();
                    let total_after: usize = after.iter().map(|d| d.len()).sum();
                    if !arrange(&g.fed[barrier..], &mut after, 0, false) {
                        vio(&mut ex.viol, "cancelled-op-still-consuming", &name,
                            format!("after every cancelled operation was long gone, {} bytes were sent for the surviving operations but what they report ({total_after} bytes) is not the beginning of that, in order: an operation that was cancelled / dropped still took data",
                                g.fed.len() - barrier));
                    }
                }
                K::Accept => {
                    let got: usize = (0..n).filter(|i| ex.ops[*i].started && ex.ops[*i].group == gi).map(|i| ex.ops[i].accepted.borrow().len()).sum();
                    if got > g.clients.len() {
                        vio(&mut ex.viol, "fabricated-success", &format!("{}/accept", p.driver), format!("{got} connections accepted, {} made", g.clients.len()));
                    }
                }
                K::Ready => {
                    let ok = (0..n).any(|i| ex.ops[i].started && ex.ops[i].group == gi && matches!(&*ex.ops[i].out.borrow(), Some(Out::Ok(..))));
                    if ok && g.fed.is_empty() {
                        vio(&mut ex.viol, "fabricated-success", &format!("{}/poll-once", p.driver), "readiness reported for a pipe nothing was ever written to".into());
                    }
                }
            }
        }
        // ---- coverage
        let mut sigs = Vec::new();
        let mut nontrivial = false;
        for i in 0..n {
            if !ex.ops[i].started {
                continue;
            }
            let shared = (0..n).any(|j| j != i && ex.ops[j].started && ex.ops[j].group == ex.ops[i].group);
            let late = p.ops[i].route.token().is_some() && {
                // started after its token fired
                let t = p.ops[i].route.token().unwrap();
                let fire_at = p.acts.iter().position(|a| *a == Act::Fire(t));
                let start_at = p.acts.iter().position(|a| *a == Act::Start(i));
                matches!((fire_at, start_at), (Some(f), Some(s)) if f < s)
            };
            let oc = match &*ex.ops[i].out.borrow() {
                None => "pending",
                Some(Out::Ok(..)) => "ok",
                Some(Out::Err(e, _)) if *e == libc::ECANCELED => "ecanceled",
                Some(Out::Err(..)) => "err",
                Some(Out::Cancelled) => "cancelled",
                Some(Out::Elapsed) => "elapsed",
                Some(Out::Dropped) => "dropped",
            };
            if ex.ops[i].fired {
                nontrivial = true;
            }
            sigs.push(format!("{}|{}|{}|{}|{}|{}|{}", p.driver, p.ops[i].kind.name(), p.ops[i].route.name(),
                if ex.ops[i].fired { "fired" } else { "kept" }, if late { "late" } else { "-" }, if shared { "shared" } else { "-" }, oc));
        }
        // teardown inside the runtime context
        for o in ex.ops.iter_mut() {
            o.handle = None;
        }
        let viol = std::mem::take(&mut ex.viol);
        drop(ex);
        Outcome { viol, sigs, nontrivial }
    });
    drop(rt);
    Ok(out)
}

pub fn main(args: &Args) {
    let mut rep = Report::from_args("C05", &args.str("leg", "rt"), args);
    let drivers: Vec<&'static str> = match args.get("driver") {
        Some("poll") => vec!["poll"],
        Some("iour") => vec!["iour"],
        _ => vec!["iour", "poll"],
    };
    let progs: Vec<Prog> = if let Some(path) = args.get("replay") {
        let text = std::fs::read_to_string(path).expect("replay file");
        let v: Value = vcommon::serde_json::from_str(&text).expect("json");
        match Prog::from_json(&v["program"]) {
            Some(p) => vec![p; args.usize("repeat", 20)],
            None => {
                rep.inconclusive("replay file has no program");
                rep.finish();
                return;
            }
        }
    } else {
        let base = Rng::new(args.seed()).fork(args.shard() + 1);
        (0..args.iters(400, 20000)).map(|i| generate(&mut base.fork(i as u64), drivers[i % drivers.len()])).collect()
    };
    for p in progs {
        if rep.out_of_time() {
            break;
        }
        match panics::catch(|| run_prog(&p)) {
            Ok(Ok(o)) => {
                rep.floor("route-fired-while-pending", o.nontrivial);
                if o.viol.is_empty() {
                    if o.nontrivial {
                        let mut first = true;
                        for s in o.sigs {
                            if first {
                                rep.eval(Some(s));
                                first = false;
                            } else {
                                rep.sig(s);
                            }
                        }
                    } else {
                        rep.eval(None);
                    }
                    if rep.want_sample() {
                        rep.sample(p.to_json());
                    }
                } else {
                    rep.eval(None);
                    let mut seen = std::collections::HashSet::new();
                    for (s, w) in o.viol {
                        if seen.insert(s.clone()) {
                            rep.violation(&s, &w, p.to_json());
                        }
                    }
                }
            }
            Ok(Err(e)) => {
                rep.eval(None);
                rep.inconclusive(&e);
            }
            Err(pi) => {
                rep.eval(None);
                match pi.origin() {
                    panics::Origin::Repo(_) => rep.violation(
                        &format!("C05/{}/{}", pi.sig(), p.driver),
                        &format!("panic in compio at {}:{}: {}", pi.file, pi.line, pi.message),
                        p.to_json(),
                    ),
                    o => rep.inconclusive(&format!("harness panic {o:?}: {}", pi.message)),
                }
            }
        }
    }
    rep.finish();
}
