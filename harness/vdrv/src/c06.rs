//! C06 descriptors closed exactly once (driver + runtime census) — not built yet.

use vcommon::Args;

pub fn main(_args: &Args) {
    eprintln!("c06: not implemented");
    std::process::exit(3);
}
