//! C06 (runtime level) — descriptors are closed exactly once, never in use,
//! never leaked.
//!
//! Scenarios on the high-level crates (compio-fs files and pipes, compio-net
//! TCP / Unix sockets) on both drivers, judged by
//!  * a `/proc/self/fd` census (number -> target) at quiescence: after every
//!    handle is gone the table equals the table before the scenario; the
//!    runtime's own descriptors are inside both snapshots;
//!  * `close().await` completing only after, and within a bounded number of
//!    loop turns after, every other handle and in-flight operation let go;
//!  * descriptor-producing operations (accept, open, connect, pipe) cancelled
//!    by `timeout` or by dropping the future after k polls: the descriptor is
//!    delivered or closed, never leaked, and a connection is either delivered
//!    to the caller or its peer observes it being closed.

use std::{
    cell::Cell,
    collections::BTreeMap,
    future::Future,
    io::{Read, Write},
    pin::Pin,
    rc::Rc,
    task::{Context, Poll},
    time::Duration,
};

use compio_buf::BufResult;
use compio_driver::{DriverType, ProactorBuilder};
use compio_io::{AsyncRead, AsyncReadAt, AsyncWriteExt};
use compio_runtime::Runtime;
use vcommon::{Args, Report, Rng, Value, json, panics};

#[derive(Debug, Clone)]
struct Prog {
    driver: &'static str,
    scenario: usize,
    /// scenario parameters (clone count, delays in us, poll counts, orders)
    p: [u64; 6],
}

const SCENARIOS: [&str; 8] = [
    "file-close", "tcp-close", "unix-close", "accept-timeout", "accept-drop-after-k-polls", "open-drop-after-k-polls",
    "connect-drop-after-k-polls", "pipe-drop-after-k-polls",
];

impl Prog {
    fn to_json(&self) -> Value {
        json!({"driver": self.driver, "scenario": SCENARIOS[self.scenario], "p": self.p})
    }

    fn from_json(v: &Value) -> Option<Prog> {
        let mut p = [0u64; 6];
        for (i, x) in v["p"].as_array()?.iter().enumerate().take(6) {
            p[i] = x.as_u64()?;
        }
        Some(Prog {
            driver: if v["driver"].as_str()? == "poll" { "poll" } else { "iour" },
            scenario: SCENARIOS.iter().position(|s| Some(*s) == v["scenario"].as_str())?,
            p,
        })
    }
}

fn fd_table() -> BTreeMap<i32, String> {
    let mut m = BTreeMap::new();
    if let Ok(rd) = std::fs::read_dir("/proc/self/fd") {
        for e in rd.flatten() {
            if let Ok(n) = e.file_name().to_string_lossy().parse::<i32>() {
                if let Ok(t) = std::fs::read_link(e.path()) {
                    let t = t.to_string_lossy().to_string();
                    // the descriptor used to read the directory itself
                    if t.contains("/proc/") && t.ends_with("/fd") {
                        continue;
                    }
                    m.insert(n, t);
                }
            }
        }
    }
    m
}

/// Kind of a descriptor target without the unstable inode part.
fn classify(t: &str) -> String {
    t.split(':').next().unwrap_or(t).to_string()
}

/// Poll a future at most `k` times, then drop it. Returns its output if it finished.
struct PollK<F: Future> {
    fut: Option<Pin<Box<F>>>,
    left: u64,
}

impl<F: Future> Future for PollK<F> {
    type Output = Option<F::Output>;

    fn poll(mut self: Pin<&mut Self>, cx: &mut Context<'_>) -> Poll<Self::Output> {
        let this = &mut *self;
        if this.left == 0 {
            this.fut = None;
            return Poll::Ready(None);
        }
        let Some(f) = this.fut.as_mut() else { return Poll::Ready(None) };
        match f.as_mut().poll(cx) {
            Poll::Ready(v) => {
                this.fut = None;
                Poll::Ready(Some(v))
            }
            Poll::Pending => {
                this.left -= 1;
                if this.left == 0 {
                    this.fut = None;
                    return Poll::Ready(None);
                }
                // make sure we are polled again even if nothing happens
                cx.waker().wake_by_ref();
                Poll::Pending
            }
        }
    }
}

fn poll_k<F: Future>(f: F, k: u64) -> PollK<F> {
    PollK { fut: Some(Box::pin(f)), left: k.max(1) }
}

async fn turns(n: u64) {
    for _ in 0..n {
        compio_runtime::time::sleep(Duration::from_micros(200)).await;
    }
}

struct Out {
    viol: Vec<(String, String)>,
    sig: String,
    inconclusive: Option<String>,
}

thread_local! {
    /// set when a bounded wait ran out while thread-pool jobs of this runtime were still
    /// running (closes and opens go through the pool on the polling driver): no verdict
    static POOL_LAG: Cell<bool> = const { Cell::new(false) };
}

/// Thread-pool jobs submitted by this program that have not ended yet (from the hook log).
fn pool_jobs_pending() -> bool {
    !crate::drv::soup::wait_pool_jobs(Duration::ZERO)
}

fn vio(v: &mut Vec<(String, String)>, rule: &str, ctx: &str, what: String) {
    v.push((format!("C06/{rule}/{ctx}"), what));
}

/// `close()` of one handle while `k` clones are released one by one: it must finish only
/// after the last one is gone and within a bounded number of turns afterwards.
async fn close_protocol<H: 'static>(
    viol: &mut Vec<(String, String)>,
    ctx: &str,
    clones: Vec<H>,
    closer: impl Future<Output = std::io::Result<()>> + 'static,
    gaps_us: u64,
    hold_op: Option<Pin<Box<dyn Future<Output = ()>>>>,
) {
    let alive = Rc::new(Cell::new(clones.len() + hold_op.is_some() as usize));
    let closed_at_alive: Rc<Cell<Option<usize>>> = Rc::new(Cell::new(None));
    let done = Rc::new(Cell::new(false));
    let h = {
        let alive = alive.clone();
        let closed_at_alive = closed_at_alive.clone();
        let done = done.clone();
        compio_runtime::spawn(async move {
            let r = closer.await;
            closed_at_alive.set(Some(alive.get()));
            done.set(true);
            r
        })
    };
    if let Some(op) = hold_op {
        let alive = alive.clone();
        compio_runtime::spawn(async move {
            op.await;
            alive.set(alive.get() - 1);
        })
        .detach();
    }
    for c in clones {
        compio_runtime::time::sleep(Duration::from_micros(gaps_us)).await;
        if done.get() {
            break;
        }
        // the count goes down right before the handle really goes away
        alive.set(alive.get() - 1);
        drop(c);
    }
    // bounded number of loop turns for close() to notice; turns spent while one of this
    // runtime's thread-pool jobs is still running (a close on the polling driver is one) do
    // not count, up to a generous wall-clock watchdog whose expiry is no verdict
    let mut t = 0;
    let t0 = std::time::Instant::now();
    while !done.get() && t < 200 {
        turns(1).await;
        // the bound only runs once its precondition holds: every other handle and operation is
        // gone (an operation may be waiting for the peer thread to act) and no pool job is running
        if alive.get() > 0 || pool_jobs_pending() {
            if t0.elapsed() > Duration::from_secs(10) {
                POOL_LAG.with(|l| l.set(true));
                drop(h);
                return;
            }
            continue;
        }
        t += 1;
    }
    if !done.get() {
        vio(viol, "close-never-completes", ctx,
            format!("every other handle is gone ({} still counted) but close() is still pending after 200 loop turns", alive.get()));
        drop(h);
        return;
    }
    match closed_at_alive.get() {
        Some(0) => {}
        Some(n) => vio(viol, "close-completed-while-shared", ctx, format!("close() completed while {n} other handle(s)/operation(s) were still alive")),
        None => {}
    }
    if let Ok(Err(e)) = h.await {
        vio(viol, "close-error", ctx, format!("close() returned {e}"));
    }
}

async fn scenario(p: Prog, viol: &mut Vec<(String, String)>) -> String {
    let ctx = format!("{}/{}", p.driver, SCENARIOS[p.scenario]);
    let k = (p.p[0] % 4) as usize;
    match p.scenario {
        0 => {
            // file: clones + an in-flight read holding a clone
            let path = std::env::temp_dir().join(format!("vdrv-c06-{}-{}", std::process::id(), p.p[5]));
            std::fs::write(&path, vec![7u8; 4096]).unwrap();
            let f = compio_fs::File::open(&path).await.unwrap();
            let mut clones: Vec<_> = (0..k).map(|_| f.clone()).collect();
            // sometimes another handle is released through its own close() instead of a drop
            let second_close = p.p[4] % 3 == 0 && !clones.is_empty();
            let second = second_close.then(|| clones.pop().unwrap());
            let reader = f.clone();
            let op: Pin<Box<dyn Future<Output = ()>>> = Box::pin(async move {
                let BufResult(r, b) = reader.read_at(Vec::with_capacity(128), 0).await;
                let _ = (r, b);
                drop(reader);
            });
            let op: Option<Pin<Box<dyn Future<Output = ()>>>> = match (second, p.p[2] % 2 == 0) {
                (Some(c), hold) => {
                    // the "operation" is: (the read, then) the second handle's own close()
                    Some(Box::pin(async move {
                        if hold {
                            op.await;
                        }
                        compio_runtime::time::sleep(Duration::from_micros(p.p[3] % 500)).await;
                        let _ = c.close().await;
                    }))
                }
                (None, true) => Some(op),
                (None, false) => {
                    drop(op); // it holds a clone of the file
                    None
                }
            };
            close_protocol(viol, &ctx, clones, f.close(), p.p[1] % 400, op).await;
            let _ = std::fs::remove_file(&path);
            format!("{ctx}|clones{k}|op{}|second-close{}", p.p[2] % 2, second_close as u8)
        }
        1 | 2 => {
            // stream sockets: connected pair, clones, a pending read holding a clone
            enum S {
                T(compio_net::TcpStream),
                U(compio_net::UnixStream),
            }
            let (a, peer): (S, Box<dyn FnOnce() + Send>) = if p.scenario == 1 {
                let l = compio_net::TcpListener::bind("127.0.0.1:0").await.unwrap();
                let addr = l.local_addr().unwrap();
                let c = std::thread::spawn(move || std::net::TcpStream::connect(addr).unwrap());
                let (s, _) = l.accept().await.unwrap();
                let c = c.join().unwrap();
                l.close().await.unwrap();
                (S::T(s), Box::new(move || drop(c)))
            } else {
                let (x, y) = std::os::unix::net::UnixStream::pair().unwrap();
                (S::U(compio_net::UnixStream::from_std(x).unwrap()), Box::new(move || drop(y)))
            };
            match a {
                S::T(s) => {
                    let clones: Vec<_> = (0..k).map(|_| s.clone()).collect();
                    let mut r = s.clone();
                    let op: Pin<Box<dyn Future<Output = ()>>> = Box::pin(async move {
                        // pending until the peer goes away
                        let _ = r.read(Vec::with_capacity(16)).await;
                    });
                    let hold = p.p[2] % 2 == 0;
                    if hold {
                        // the read only finishes when the peer closes: do that after a while
                        let d = p.p[3] % 2000;
                        std::thread::spawn(move || {
                            std::thread::sleep(Duration::from_micros(d));
                            peer();
                        });
                        close_protocol(viol, &ctx, clones, s.close(), p.p[1] % 400, Some(op)).await;
                    } else {
                        drop(op); // it holds a clone of the stream
                        close_protocol(viol, &ctx, clones, s.close(), p.p[1] % 400, None).await;
                        peer();
                    }
                }
                S::U(s) => {
                    let clones: Vec<_> = (0..k).map(|_| s.clone()).collect();
                    close_protocol(viol, &ctx, clones, s.close(), p.p[1] % 400, None).await;
                    peer();
                }
            }
            format!("{ctx}|clones{k}|op{}", p.p[2] % 2)
        }
        3 | 4 => {
            // accept cancelled around the moment a connection arrives
            let l = compio_net::TcpListener::bind("127.0.0.1:0").await.unwrap();
            let addr = l.local_addr().unwrap();
            let delay = p.p[1] % 3000;
            let (tx, rx) = std::sync::mpsc::channel::<&'static str>();
            let peer = std::thread::spawn(move || {
                std::thread::sleep(Duration::from_micros(delay));
                let Ok(mut c) = std::net::TcpStream::connect(addr) else {
                    let _ = tx.send("connect-failed");
                    return;
                };
                let _ = c.write_all(b"N");
                c.set_read_timeout(Some(Duration::from_secs(3))).ok();
                let mut b = [0u8; 1];
                // delivered: the acceptor echoes one byte; closed: EOF / reset
                let _ = tx.send(match c.read(&mut b) {
                    Ok(1) => "echoed",
                    Ok(_) => "closed",
                    Err(e) if e.kind() == std::io::ErrorKind::WouldBlock || e.kind() == std::io::ErrorKind::TimedOut => "silent",
                    Err(_) => "closed",
                });
            });
            let first = if p.scenario == 3 {
                match compio_runtime::time::timeout(Duration::from_micros(p.p[2] % 3000), l.accept()).await {
                    Ok(r) => Some(r),
                    Err(_) => None,
                }
            } else {
                poll_k(l.accept(), 1 + p.p[2] % 4).await
            };
            let mut delivered = 0;
            let mut handle = |r: std::io::Result<(compio_net::TcpStream, std::net::SocketAddr)>| async move {
                if let Ok((mut s, _)) = r {
                    let BufResult(r, b) = s.read(Vec::with_capacity(1)).await;
                    if matches!(r, Ok(1)) && b == b"N" {
                        let _ = s.write_all(b"E").await;
                    }
                    let _ = s.close().await;
                    1
                } else {
                    0
                }
            };
            let cancelled = first.is_none();
            if let Some(r) = first {
                delivered += handle(r).await;
            } else {
                // the cancelled accept must not have swallowed the connection silently:
                // either a later accept gets it, or the peer sees it closed
                if let Ok(r) = compio_runtime::time::timeout(Duration::from_millis(300), l.accept()).await {
                    delivered += handle(r).await;
                }
            }
            // wait for the peer's observation while the runtime keeps turning (the completion of
            // an accept that was cancelled too late is processed, and its socket closed, by the
            // runtime: blocking this thread would keep that descriptor alive artificially)
            let t0 = std::time::Instant::now();
            let verdict = loop {
                match rx.try_recv() {
                    Ok(v) => break v,
                    Err(std::sync::mpsc::TryRecvError::Disconnected) => break "no-report",
                    Err(std::sync::mpsc::TryRecvError::Empty) => {}
                }
                if t0.elapsed() > Duration::from_secs(8) {
                    break "no-report";
                }
                compio_runtime::time::sleep(Duration::from_millis(1)).await;
            };
            let _ = peer.join();
            // a connection that is still waiting in the listener's backlog was not taken by
            // anybody: the peer was late, nothing was swallowed
            let in_backlog = {
                use std::os::fd::AsRawFd;
                crate::drv::poll_ready(l.as_raw_fd(), libc::POLLIN)
            };
            match (delivered, verdict) {
                (1, "echoed") | (0, "closed") | (_, "connect-failed") => {}
                (0, "silent") if in_backlog => {}
                (_, "no-report") => POOL_LAG.with(|x| x.set(true)),
                // delivered and handled, but the echo did not reach the peer inside its 3 s
                // read timeout: wall clock on a loaded machine, no verdict
                (1, "silent") => POOL_LAG.with(|x| x.set(true)),
                (0, "silent") => vio(viol, "connection-swallowed", &ctx,
                    "the connection was neither delivered to any accept call nor closed: its descriptor is held by nobody the caller can reach".to_string()),
                (d, v) => vio(viol, "accept-inconsistent", &ctx, format!("delivered={d} but the peer observed {v}")),
            }
            l.close().await.ok();
            format!("{ctx}|{}|{}", if cancelled { "cancelled" } else { "completed" }, verdict)
        }
        5 => {
            let path = std::env::temp_dir().join(format!("vdrv-c06o-{}-{}", std::process::id(), p.p[5]));
            std::fs::write(&path, b"x").unwrap();
            let r = poll_k(compio_fs::File::open(&path), 1 + p.p[2] % 3).await;
            let done = r.is_some();
            if let Some(Ok(f)) = r {
                if p.p[3] % 2 == 0 {
                    f.close().await.ok();
                } else {
                    drop(f);
                }
            }
            let _ = std::fs::remove_file(&path);
            format!("{ctx}|{}", if done { "completed" } else { "dropped" })
        }
        6 => {
            let l = std::net::TcpListener::bind("127.0.0.1:0").unwrap();
            let addr = l.local_addr().unwrap();
            let r = poll_k(compio_net::TcpStream::connect(addr), 1 + p.p[2] % 4).await;
            let done = r.is_some();
            if let Some(Ok(s)) = r {
                s.close().await.ok();
            }
            drop(l);
            format!("{ctx}|{}", if done { "completed" } else { "dropped" })
        }
        _ => {
            let r = poll_k(compio_fs::pipe::anonymous(), 1 + p.p[2] % 3).await;
            let done = r.is_some();
            if let Some(Ok((rx, tx))) = r {
                if p.p[3] % 2 == 0 {
                    rx.close().await.ok();
                    tx.close().await.ok();
                }
            }
            format!("{ctx}|{}", if done { "completed" } else { "dropped" })
        }
    }
}

fn run_prog(p: &Prog) -> Out {
    let _ = compio_driver::verif::drain();
    crate::drv::soup::reset_stash();
    POOL_LAG.with(|l| l.set(false));
    compio_driver::verif::enable(true);
    let outer_before = fd_table();
    let mut pb = ProactorBuilder::new();
    pb.driver_type(if p.driver == "poll" { DriverType::Poll } else { DriverType::IoUring });
    pb.capacity(32);
    pb.thread_pool_recv_timeout(Duration::from_millis(30));
    let rt = match Runtime::builder().with_proactor(pb).build() {
        Ok(rt) => rt,
        Err(e) => {
            compio_driver::verif::enable(false);
            return Out { viol: vec![], sig: String::new(), inconclusive: Some(format!("cannot build runtime: {e}")) };
        }
    };
    let mut viol = Vec::new();
    let p2 = p.clone();
    let (sig, inner_leak) = rt.block_on(async {
        // make sure lazily created descriptors of the runtime exist before the snapshot
        turns(2).await;
        let before = fd_table();
        let sig = scenario(p2, &mut viol).await;
        // quiescence: closes may run on pool threads / as operations
        let mut leak = None;
        let mut t = 0;
        let t0 = std::time::Instant::now();
        while t < 400 {
            turns(1).await;
            if !(pool_jobs_pending() && t0.elapsed() < Duration::from_secs(10)) {
                t += 1;
            }
            let now = fd_table();
            let extra: Vec<_> = now.iter().filter(|(n, t)| before.get(n).map(|b| classify(b)) != Some(classify(t))).collect();
            if extra.is_empty() {
                leak = None;
                break;
            }
            leak = Some(extra.iter().map(|(n, t)| format!("{n}->{t}")).collect::<Vec<_>>());
        }
        (sig, leak)
    });
    let ctx = format!("{}/{}", p.driver, SCENARIOS[p.scenario]);
    if inner_leak.is_some() && pool_jobs_pending() {
        POOL_LAG.with(|l| l.set(true));
    } else if let Some(l) = inner_leak {
        let kinds: Vec<String> = l.iter().map(|x| classify(x.split("->").nth(1).unwrap_or(""))).collect();
        vio(&mut viol, "descriptor-leaked", &ctx,
            format!("after every handle was dropped/closed these descriptors are still open after 400 loop turns: {l:?} (kinds {kinds:?})"));
    }
    drop(rt);
    // the runtime's own descriptors must be gone as well (pool threads may lag a little)
    let mut outer_leak = None;
    let mut t = 0;
    let t0 = std::time::Instant::now();
    while t < 300 {
        if !(pool_jobs_pending() && t0.elapsed() < Duration::from_secs(10)) {
            t += 1;
        }
        let now = fd_table();
        let extra: Vec<_> = now.iter().filter(|(n, _)| !outer_before.contains_key(n)).map(|(n, t)| format!("{n}->{t}")).collect();
        if extra.is_empty() {
            outer_leak = None;
            break;
        }
        outer_leak = Some(extra);
        std::thread::sleep(Duration::from_millis(1));
    }
    // the driver's own descriptors (epoll, eventfd, timerfd / the ring) are also held by a pool
    // thread that has run a job of this runtime until it lets go of its completion handle, a
    // moment after the job ended: with pool jobs in the program that is lag, not a verdict
    let only_driver_fds = outer_leak.as_ref().is_some_and(|l| l.iter().all(|x| x.contains("anon_inode:")));
    if outer_leak.is_some() && (pool_jobs_pending() || (only_driver_fds && crate::drv::soup::had_pool_jobs())) {
        POOL_LAG.with(|l| l.set(true));
    } else if let Some(l) = outer_leak {
        vio(&mut viol, "descriptor-leaked-after-runtime-drop", &ctx, format!("still open after the runtime was dropped: {l:?}"));
    }
    compio_driver::verif::enable(false);
    let _ = compio_driver::verif::drain();
    if POOL_LAG.with(|l| l.replace(false)) {
        return Out { viol: vec![], sig, inconclusive: Some("a bounded wait ran out while thread-pool jobs of the runtime were still running (10 s watchdog): no verdict".into()) };
    }
    Out { viol, sig, inconclusive: None }
}

fn generate(rng: &mut Rng, driver: &'static str, i: usize) -> Prog {
    Prog {
        driver,
        scenario: rng.below(SCENARIOS.len()),
        p: [rng.next_u64() % 100_000, rng.next_u64() % 100_000, rng.next_u64() % 100_000, rng.next_u64() % 100_000, rng.next_u64() % 100_000, i as u64],
    }
}

pub fn main(args: &Args) {
    let mut rep = Report::from_args("C06", &args.str("leg", "rt"), args);
    let drivers: Vec<&'static str> = match args.get("driver") {
        Some("poll") => vec!["poll"],
        Some("iour") => vec!["iour"],
        _ => vec!["iour", "poll"],
    };
    let progs: Vec<Prog> = if let Some(path) = args.get("replay") {
        let text = std::fs::read_to_string(path).expect("replay file");
        let v: Value = vcommon::serde_json::from_str(&text).expect("json");
        match Prog::from_json(&v["program"]) {
            Some(p) => vec![p; args.usize("repeat", 30)],
            None => {
                rep.inconclusive("replay file has no program");
                rep.finish();
                return;
            }
        }
    } else {
        let base = Rng::new(args.seed()).fork(args.shard() + 1);
        (0..args.iters(300, 20000)).map(|i| generate(&mut base.fork(i as u64), drivers[i % drivers.len()], i)).collect()
    };
    for p in progs {
        if rep.out_of_time() {
            break;
        }
        match panics::catch(|| run_prog(&p)) {
            Ok(o) => {
                if let Some(r) = o.inconclusive {
                    rep.eval(None);
                    rep.inconclusive(&r);
                } else if o.viol.is_empty() {
                    rep.floor("cancelled-fd-producing-op", o.sig.contains("cancelled") || o.sig.contains("dropped"));
                    rep.floor("close-with-other-holders", o.sig.contains("clones") && !o.sig.contains("clones0"));
                    rep.eval(Some(o.sig));
                    if rep.want_sample() {
                        rep.sample(p.to_json());
                    }
                } else {
                    rep.eval(None);
                    let mut seen = std::collections::HashSet::new();
                    for (sig, what) in o.viol {
                        if seen.insert(sig.clone()) {
                            rep.violation(&sig, &what, p.to_json());
                        }
                    }
                }
            }
            Err(pi) => {
                rep.eval(None);
                match pi.origin() {
                    panics::Origin::Repo(_) => rep.violation(
                        &format!("C06/{}/{}/{}", pi.sig(), p.driver, SCENARIOS[p.scenario]),
                        &format!("panic in compio at {}:{}: {}", pi.file, pi.line, pi.message),
                        p.to_json(),
                    ),
                    o => rep.inconclusive(&format!("harness panic {o:?}: {}", pi.message)),
                }
            }
        }
    }
    rep.finish();
}
