//! C07 managed buffer pool ownership and conservation — not built yet.

use vcommon::Args;

pub fn main(_args: &Args) {
    eprintln!("c07: not implemented");
    std::process::exit(3);
}
