//! C07 — managed buffer pool: exclusive ownership and conservation.
//!
//! Seeded programs of managed / multishot reads on a stream socketpair, a
//! pipe and a file over the `Proactor` API, with arbitrary hold times of the
//! returned `BufferRef`s, cancellations and key drops, for pool sizes 1..16
//! and small buffer lengths, on the io_uring buffer ring and on the fallback
//! pool (polling driver).
//!
//! Oracles: (a) address ranges of live `BufferRef`s are pairwise disjoint;
//! (b) a held buffer's content never changes while it is held (the OS never
//! writes into a buffer the user holds), and freed pool memory is never
//! written (canary allocator); (c) bytes delivered = bytes sent, in order per
//! stream; (d) conservation, measured behaviourally: after everything is
//! released, exactly `pool_size` further managed reads succeed while their
//! buffers are held, with distinct buffers, the next one fails promptly with
//! an error instead of hanging, and after releasing it works again; (e) buffers
//! outliving the proactor stay readable and free themselves.

use std::{
    io,
    os::fd::{AsRawFd, OwnedFd},
    time::Duration,
};

use compio_buf::{BufResult, IoBufMut};
use compio_driver::{
    BufferPool, BufferRef, DriverType, Key, Proactor, PushEntry, ResultTakeBuffer, SharedFd, TakeBuffer,
    op::{ReadManaged, ReadManagedAt, ReadMulti, RecvManaged, RecvMulti},
    verif,
};
use rustix::net::RecvFlags;
use vcommon::{Args, Report, Rng, Value, json, panics};

use crate::drv::{ProbeFd, alloc, check, mk_pipe, mk_socketpair, pat, set_nonblocking};

type Fd = SharedFd<ProbeFd>;

#[derive(Debug, Clone, Copy, PartialEq, Eq)]
enum Ch {
    Sock,
    Pipe,
    File,
}

#[derive(Debug, Clone, PartialEq)]
enum Act {
    /// single managed read on channel (0 sock, 1 pipe, 2.. file at offset FILE_OFFS[ch - 2]: start, at EOF,
    /// beyond EOF, 10 bytes before EOF) asking for `len` bytes (0 = whole buffer)
    Managed(usize, usize),
    /// the peer closes its writing end of the pipe: reads on channel 1 now complete with 0 bytes
    CloseWriter,
    Multi(usize),
    Feed(usize, usize),
    Poll(u64),
    Pop(usize),
    Release(usize),
    Cancel(usize),
    DropKey(usize),
    CheckHeld,
    DropProactor,
}

#[derive(Debug, Clone)]
struct Prog {
    driver: &'static str,
    pool_size: u16,
    buf_len: usize,
    acts: Vec<Act>,
}

impl Prog {
    fn to_json(&self) -> Value {
        json!({"driver": self.driver, "pool_size": self.pool_size, "buf_len": self.buf_len,
            "acts": self.acts.iter().map(|a| match a {
                Act::Managed(c, l) => json!(["managed", c, l]),
                Act::Multi(c) => json!(["multi", c]),
                Act::Feed(c, n) => json!(["feed", c, n]),
                Act::Poll(ms) => json!(["poll", ms]),
                Act::CloseWriter => json!(["closewriter"]),
                Act::Pop(i) => json!(["pop", i]),
                Act::Release(i) => json!(["release", i]),
                Act::Cancel(i) => json!(["cancel", i]),
                Act::DropKey(i) => json!(["dropkey", i]),
                Act::CheckHeld => json!(["check"]),
                Act::DropProactor => json!(["dropproactor"]),
            }).collect::<Vec<_>>()})
    }

    fn from_json(v: &Value) -> Option<Prog> {
        let acts = v["acts"]
            .as_array()?
            .iter()
            .map(|a| {
                let a = a.as_array()?;
                let n = |i: usize| a.get(i).and_then(|x| x.as_u64()).unwrap_or(0) as usize;
                Some(match a.first()?.as_str()? {
                    "managed" => Act::Managed(n(1), n(2)),
                    "multi" => Act::Multi(n(1)),
                    "feed" => Act::Feed(n(1), n(2)),
                    "poll" => Act::Poll(n(1) as u64),
                    "closewriter" => Act::CloseWriter,
                    "pop" => Act::Pop(n(1)),
                    "release" => Act::Release(n(1)),
                    "cancel" => Act::Cancel(n(1)),
                    "dropkey" => Act::DropKey(n(1)),
                    "check" => Act::CheckHeld,
                    "dropproactor" => Act::DropProactor,
                    _ => return None,
                })
            })
            .collect::<Option<Vec<_>>>()?;
        Some(Prog {
            driver: if v["driver"].as_str()? == "poll" { "poll" } else { "iour" },
            pool_size: v["pool_size"].as_u64()? as u16,
            buf_len: v["buf_len"].as_u64()? as usize,
            acts,
        })
    }
}

fn generate(rng: &mut Rng, driver: &'static str) -> Prog {
    let pool_size = *rng.pick(&[1u16, 2, 3, 4, 8, 16]);
    let buf_len = *rng.pick(&[8usize, 16, 64, 256]);
    let n = rng.range(6, 40);
    let mut acts = Vec::new();
    let mut nops = 0usize;
    for _ in 0..n {
        let r = rng.below(100);
        let a = if nops == 0 || r < 18 {
            nops += 1;
            if rng.chance(1, 2) {
                Act::Managed(*rng.pick(&[0usize, 0, 1, 1, 2, 3, 4, 5]), *rng.pick(&[0usize, 0, 1, 5, buf_len, buf_len + 7]))
            } else {
                Act::Multi(rng.below(2))
            }
        } else if r < 40 {
            Act::Feed(rng.below(2), rng.range(1, buf_len * 3))
        } else if r < 58 {
            Act::Poll(*rng.pick(&[0u64, 0, 1, 10]))
        } else if r < 76 {
            Act::Pop(rng.below(nops))
        } else if r < 86 {
            Act::Release(rng.below(8))
        } else if r < 91 {
            Act::Cancel(rng.below(nops))
        } else if r < 95 {
            Act::DropKey(rng.below(nops))
        } else if r < 97 {
            Act::CheckHeld
        } else if r < 99 {
            Act::CloseWriter
        } else {
            acts.push(Act::DropProactor);
            break;
        };
        acts.push(a);
    }
    Prog {
        driver,
        pool_size,
        buf_len,
        acts,
    }
}

enum Slot {
    None,
    RecvManaged(Key<RecvManaged<Fd>>),
    ReadManaged(Key<ReadManaged<Fd>>),
    ReadManagedAt(Key<ReadManagedAt<Fd>>),
    RecvMulti(Key<RecvMulti<Fd>>),
    ReadMulti(Key<ReadMulti<Fd>>),
}

struct OpRt {
    slot: Slot,
    ch: usize,
    done: bool,
    /// lets the census cancel an operation whose key was dropped
    token: Option<compio_driver::Cancel>,
}

struct Held {
    buf: BufferRef,
    snapshot: Vec<u8>,
    ptr: usize,
    cap: usize,
}

struct Exec {
    driver: Option<Proactor>,
    pool: Option<BufferPool>,
    ops: Vec<OpRt>,
    held: Vec<Held>,
    /// per channel: fed bytes, bytes delivered so far (in delivery order)
    fed: [Vec<u8>; 2],
    got: [Vec<u8>; 2],
    /// the pieces delivered per channel, in the order the harness obtained them
    chunks: [Vec<Vec<u8>>; 2],
    /// some op on that channel was let go with data possibly consumed
    lossy: [bool; 2],
    peers: Vec<Option<OwnedFd>>,
    fds: Vec<Fd>,
    file_content: Vec<u8>,
    viol: Vec<(String, String)>,
    exhausted_seen: bool,
    census_skipped: bool,
    /// a read that completes with 0 bytes was possible (pipe writer closed, file read at/after EOF)
    eof_reads: bool,
    held_across_completion: bool,
    drv: &'static str,
}

const FILE_LEN: usize = 700;
const FILE_OFFS: [usize; 4] = [0, FILE_LEN, FILE_LEN + 200, FILE_LEN - 10];

fn vio(v: &mut Vec<(String, String)>, rule: &str, ctx: &str, what: String) {
    v.push((format!("C07/{rule}/{ctx}"), what));
}

fn is_exhausted(e: &io::Error) -> bool {
    e.kind() == io::ErrorKind::ResourceBusy || e.raw_os_error() == Some(libc::ENOBUFS)
}

impl Exec {
    fn hold(&mut self, mut buf: BufferRef, n: usize, ch: usize, kind: &str) {
        let cap = buf.as_uninit().len();
        let ptr = buf.as_uninit().as_ptr() as usize;
        let n = n.min(cap);
        let data: Vec<u8> = unsafe { std::slice::from_raw_parts(ptr as *const u8, n).to_vec() };
        if ch < 2 {
            self.got[ch].extend_from_slice(&data);
            self.chunks[ch].push(data.clone());
        } else {
            // file: must equal the file content at the offset read
            let off = FILE_OFFS[ch - 2];
            let want = &self.file_content[off.min(FILE_LEN)..(off + n).min(FILE_LEN)];
            if data[..] != *want {
                vio(&mut self.viol, "wrong-data", &format!("{}/file/{kind}", self.drv),
                    format!("managed file read returned {n} bytes that differ from the file"));
            }
        }
        // (a) exclusive ownership: no overlap with any buffer still held
        for h in &self.held {
            if ptr < h.ptr + h.cap && h.ptr < ptr + cap {
                vio(&mut self.viol, "aliasing-buffers", &format!("{}/{kind}", self.drv),
                    format!("a buffer handed out at {ptr:#x}+{cap} overlaps a buffer the user still holds at {:#x}+{}", h.ptr, h.cap));
            }
        }
        self.held.push(Held {
            buf,
            snapshot: data,
            ptr,
            cap,
        });
    }

    fn check_held(&mut self, when: &str) {
        let drv = self.drv;
        for h in &self.held {
            let now = unsafe { std::slice::from_raw_parts(h.ptr as *const u8, h.snapshot.len()) };
            if now != &h.snapshot[..] {
                vio(&mut self.viol, "held-buffer-changed", &format!("{drv}/{when}"),
                    format!("the content of a buffer the user holds ({} bytes at {:#x}) changed while it was held", h.snapshot.len(), h.ptr));
            }
            let _ = &h.buf;
        }
    }

    fn push_managed(&mut self, ch: usize, len: usize) {
        let (Some(d), Some(pool)) = (self.driver.as_mut(), self.pool.as_ref()) else { return };
        let fd = self.fds[ch.min(2)].clone();
        macro_rules! go {
            ($op:expr, $variant:ident) => {{
                match $op {
                    Err(e) => {
                        if is_exhausted(&e) {
                            self.exhausted_seen = true;
                        } else {
                            vio(&mut self.viol, "unexpected-error", &format!("{}/create", self.drv), format!("creating a managed read failed: {e}"));
                        }
                    }
                    Ok(op) => match d.push(op) {
                        PushEntry::Pending(k) => {
                            let token = Some(d.register_cancel(&k));
                            self.ops.push(OpRt { slot: Slot::$variant(k), ch, done: false, token })
                        }
                        PushEntry::Ready(res) => {
                            self.ops.push(OpRt { slot: Slot::None, ch, done: true, token: None });
                            self.finish_single(res.map_buffer(|op| op.take_buffer()), ch, "immediate");
                        }
                    },
                }
            }};
        }
        match ch {
            0 => go!(RecvManaged::new(fd, pool, len, RecvFlags::empty()), RecvManaged),
            1 => go!(ReadManaged::new(fd, pool, len), ReadManaged),
            _ => go!(ReadManagedAt::new(fd, FILE_OFFS[ch - 2] as u64, pool, len), ReadManagedAt),
        }
    }

    fn finish_single(&mut self, res: BufResult<usize, Option<BufferRef>>, ch: usize, kind: &str) {
        let BufResult(r, buf) = res;
        match r {
            Ok(n) => {
                if n == 0 {
                    self.eof_reads = true;
                }
                if let Some(buf) = buf {
                    if n > 0 {
                        self.hold(buf, n, ch, kind);
                    }
                } else if n > 0 {
                    vio(&mut self.viol, "result-without-buffer", &format!("{}/{kind}", self.drv), format!("a managed read reported {n} bytes but no buffer"));
                }
            }
            Err(e) if is_exhausted(&e) => self.exhausted_seen = true,
            Err(e) if e.raw_os_error() == Some(libc::ECANCELED) => {}
            Err(e) => vio(&mut self.viol, "unexpected-error", &format!("{}/{kind}", self.drv), format!("managed read failed: {e}")),
        }
    }

    fn push_multi(&mut self, ch: usize) {
        let (Some(d), Some(pool)) = (self.driver.as_mut(), self.pool.as_ref()) else { return };
        let fd = self.fds[ch].clone();
        macro_rules! go {
            ($op:expr, $variant:ident) => {{
                match $op {
                    Err(e) => {
                        if is_exhausted(&e) {
                            self.exhausted_seen = true;
                        }
                    }
                    Ok(op) => match d.push(op) {
                        PushEntry::Pending(k) => {
                            let token = Some(d.register_cancel(&k));
                            self.ops.push(OpRt { slot: Slot::$variant(k), ch, done: false, token })
                        }
                        PushEntry::Ready(BufResult(r, op)) => {
                            self.ops.push(OpRt { slot: Slot::None, ch, done: true, token: None });
                            self.finish_single(BufResult(r, op.take_buffer()), ch, "multi-immediate");
                        }
                    },
                }
            }};
        }
        match ch {
            0 => go!(RecvMulti::new(fd, pool, 0, RecvFlags::empty()), RecvMulti),
            _ => go!(ReadMulti::new(fd, pool, 0), ReadMulti),
        }
    }

    fn feed(&mut self, ch: usize, n: usize) {
        let Some(peer) = self.peers[ch].as_ref() else { return };
        set_nonblocking(peer.as_raw_fd(), true);
        let start = self.fed[ch].len();
        let data: Vec<u8> = (start..start + n.min(4096)).map(|o| pat(0xC07 + ch as u64, o)).collect();
        let w = unsafe { libc::write(peer.as_raw_fd(), data.as_ptr() as _, data.len()) };
        if w > 0 {
            self.fed[ch].extend_from_slice(&data[..w as usize]);
            if !self.held.is_empty() {
                self.held_across_completion = true;
            }
        }
    }

    fn poll(&mut self, ms: u64) {
        if let Some(d) = self.driver.as_mut() {
            let _ = d.poll(Some(Duration::from_millis(ms)));
        }
    }

    fn pop(&mut self, i: usize) {
        if i >= self.ops.len() || self.ops[i].done || self.driver.is_none() {
            return;
        }
        let ch = self.ops[i].ch;
        let slot = std::mem::replace(&mut self.ops[i].slot, Slot::None);
        macro_rules! single {
            ($k:expr, $variant:ident) => {{
                let d = self.driver.as_mut().unwrap();
                match d.pop($k) {
                    PushEntry::Pending(k) => self.ops[i].slot = Slot::$variant(k),
                    PushEntry::Ready(BufResult(r, op)) => {
                        self.ops[i].done = true;
                        self.finish_single(BufResult(r, op.take_buffer()), ch, "managed");
                    }
                }
            }};
        }
        macro_rules! multi {
            ($k:expr, $variant:ident) => {{
                loop {
                    let item = self.driver.as_mut().unwrap().pop_multishot(&$k);
                    let Some(BufResult(r, extra)) = item else { break };
                    match r {
                        Ok(n) => match extra.buffer_id() {
                            Ok(id) => match self.pool.as_ref().unwrap().take(id) {
                                Ok(Some(buf)) => {
                                    if n > 0 {
                                        self.hold(buf, n, ch, "multishot")
                                    }
                                }
                                Ok(None) => vio(&mut self.viol, "buffer-not-available", &format!("{}/multishot", self.drv),
                                    format!("multishot item names buffer {id} which the pool cannot hand out (already out, or never selected)")),
                                Err(e) => vio(&mut self.viol, "unexpected-error", &format!("{}/multishot", self.drv), format!("pool.take failed: {e}")),
                            },
                            Err(_) if n == 0 => {}
                            Err(e) => vio(&mut self.viol, "result-without-buffer", &format!("{}/multishot", self.drv), format!("multishot item with {n} bytes carries no buffer id: {e}")),
                        },
                        Err(e) if is_exhausted(&e) => self.exhausted_seen = true,
                        Err(e) if e.raw_os_error() == Some(libc::ECANCELED) => {}
                        Err(e) => vio(&mut self.viol, "unexpected-error", &format!("{}/multishot", self.drv), format!("multishot item failed: {e}")),
                    }
                }
                let d = self.driver.as_mut().unwrap();
                match d.pop_with_extra($k) {
                    PushEntry::Pending(k) => self.ops[i].slot = Slot::$variant(k),
                    PushEntry::Ready((BufResult(r, op), _extra)) => {
                        self.ops[i].done = true;
                        self.finish_single(BufResult(r, op.take_buffer()), ch, "multi-final");
                    }
                }
            }};
        }
        match slot {
            Slot::None => {}
            Slot::RecvManaged(k) => single!(k, RecvManaged),
            Slot::ReadManaged(k) => single!(k, ReadManaged),
            Slot::ReadManagedAt(k) => single!(k, ReadManagedAt),
            Slot::RecvMulti(k) => multi!(k, RecvMulti),
            Slot::ReadMulti(k) => multi!(k, ReadMulti),
        }
    }

    fn let_go(&mut self, i: usize, cancel: bool) {
        if i >= self.ops.len() || self.ops[i].done {
            return;
        }
        let ch = self.ops[i].ch;
        let slot = std::mem::replace(&mut self.ops[i].slot, Slot::None);
        self.ops[i].done = true;
        if ch < 2 {
            self.lossy[ch] = true;
        }
        let Some(d) = self.driver.as_mut() else { return };
        if !cancel {
            return;
        }
        if matches!(slot, Slot::None) {
            // the key is gone already (dropped earlier): cancel through the token
            if let Some(t) = self.ops[i].token.take() {
                d.cancel_token(t);
            }
            return;
        }
        match slot {
            Slot::None => {}
            Slot::RecvManaged(k) => drop(d.cancel(k)),
            Slot::ReadManaged(k) => drop(d.cancel(k)),
            Slot::ReadManagedAt(k) => drop(d.cancel(k)),
            Slot::RecvMulti(k) => drop(d.cancel(k)),
            Slot::ReadMulti(k) => drop(d.cancel(k)),
        }
    }

    /// (c) what was delivered is what was sent, in order (a prefix, unless data may have gone to
    /// operations that were let go).
    fn check_streams(&mut self) {
        for ch in 0..2 {
            let fed = &self.fed[ch];
            let got = &self.got[ch];
            let name = ["sock", "pipe"][ch];
            if got.len() > fed.len() {
                vio(&mut self.viol, "invented-bytes", &format!("{}/{name}", self.drv), format!("{} bytes delivered but only {} sent", got.len(), fed.len()));
                continue;
            }
            // Several reads may be pending on one descriptor at once and the harness pops
            // them in its own order: the pieces must be consecutive pieces of the stream
            // in *some* order (with gaps only where let-go operations may have eaten data).
            let mut pieces: Vec<&[u8]> = self.chunks[ch].iter().map(|c| c.as_slice()).collect();
            // an operation that completed but was not popped yet (or is still pending) may hold data
            let holding = self.ops.iter().any(|o| o.ch == ch && !o.done);
            let ok = crate::drv::soup::arrange(fed, &mut pieces, 0, self.lossy[ch] || holding);
            if !ok {
                vio(&mut self.viol, "wrong-data", &format!("{}/{name}", self.drv),
                    format!("bytes delivered through managed buffers ({}) are not the bytes sent in order ({} sent)", got.len(), fed.len()));
            }
        }
    }

    /// (d) behavioural conservation census.
    fn census(&mut self, effective: usize) {
        if self.driver.is_none() {
            return;
        }
        // let go of everything still pending, drain, release everything held
        for i in 0..self.ops.len() {
            if self.ops[i].done {
                if let (Some(t), Some(d)) = (self.ops[i].token.take(), self.driver.as_mut()) {
                    d.cancel_token(t);
                }
            } else {
                self.let_go(i, true);
            }
        }
        for _ in 0..4 {
            self.poll(5);
        }
        // operations that were let go still own their buffers until they have really ended;
        // thread-pool jobs may not even have started yet
        if !crate::drv::soup::wait_pool_jobs(Duration::from_millis(3000)) {
            // let-go pool jobs still own their buffers: the census cannot be taken
            self.census_skipped = true;
            return;
        }
        for _ in 0..2 {
            self.poll(5);
        }
        // ... and an operation that ran on a pool thread gives its buffer back when that thread
        // drops it, a moment after the job ended
        if !crate::drv::soup::wait_ops_released(Duration::from_millis(3000)) {
            self.census_skipped = true;
            return;
        }
        self.check_held("before-census");
        self.held.clear();
        // drain what is still sitting in the socket so that reads below see fresh data only
        let mut sink = [0u8; 8192];
        let ours = self.fds[0].as_raw_fd();
        set_nonblocking(ours, true);
        while unsafe { libc::read(ours, sink.as_mut_ptr() as _, sink.len()) } > 0 {}
        if self.drv == "iour" {
            set_nonblocking(ours, false);
        }
        self.got[0].clear();
        self.chunks[0].clear();
        self.fed[0].clear();
        self.lossy[0] = true;
        for round in 0..2 {
            let mut got = 0usize;
            let mut failed_promptly = false;
            for k in 0..effective + 1 {
                self.feed(0, 1);
                let before = self.held.len();
                let before_ops = self.ops.len();
                self.push_managed(0, 1);
                let mut polls = 0;
                while self.ops.len() > before_ops && !self.ops[before_ops].done && polls < 6 {
                    self.poll([0u64, 5, 20, 50, 100, 100][polls]);
                    self.pop(before_ops);
                    polls += 1;
                }
                let created = self.ops.len() > before_ops;
                let done = !created || self.ops[before_ops].done;
                if self.held.len() > before {
                    got += 1;
                } else if !done {
                    vio(&mut self.viol, "exhaustion-hangs", &format!("{}/round{round}", self.drv),
                        format!("managed read #{k} with {got} of {effective} buffers held neither completed nor failed within 6 polls although data is available"));
                    self.let_go(before_ops, true);
                    break;
                } else {
                    failed_promptly = true;
                    break;
                }
                if created {
                    // keep ops vector small
                }
            }
            if got < effective {
                vio(&mut self.viol, "pool-shrunk", &format!("{}/round{round}", self.drv),
                    format!("after everything was released only {got} of {effective} pool buffers could be obtained"));
            } else if got > effective {
                vio(&mut self.viol, "pool-grew", &format!("{}/round{round}", self.drv), format!("{got} buffers obtained from a pool of {effective}"));
            } else if !failed_promptly {
                vio(&mut self.viol, "exhaustion-not-reported", &format!("{}/round{round}", self.drv),
                    "with every buffer held one more managed read did not fail".to_string());
            } else {
                self.exhausted_seen = true;
            }
            self.check_held("census");
            self.held.clear();
            // anything left unread (the byte of the failed read) would confuse the next round
            set_nonblocking(ours, true);
            while unsafe { libc::read(ours, sink.as_mut_ptr() as _, sink.len()) } > 0 {}
            if self.drv == "iour" {
                set_nonblocking(ours, false);
            }
        }
    }
}

struct Outcome {
    viol: Vec<(String, String)>,
    sig: String,
    trivial: bool,
    log: Vec<String>,
}

fn run_prog(p: &Prog, canary: bool) -> Result<Outcome, String> {
    let dt = if p.driver == "poll" { DriverType::Poll } else { DriverType::IoUring };
    let _ = verif::drain();
    verif::enable(true);
    if canary {
        alloc::quarantine(true);
    }
    let mut d = Proactor::builder()
        .capacity(64)
        .driver_type(dt)
        .buffer_pool_size(std::num::NonZero::new(p.pool_size).unwrap())
        .buffer_pool_buffer_len(p.buf_len)
        .thread_pool_limit(4)
        .thread_pool_recv_timeout(Duration::from_millis(50))
        .build()
        .map_err(|e| format!("proactor: {e}"))?;
    let pool = d.buffer_pool().map_err(|e| format!("buffer pool: {e}"))?;
    let (sa, sb) = mk_socketpair(libc::SOCK_STREAM);
    let (pr, pw) = mk_pipe();
    let path = std::env::temp_dir().join(format!("vdrv-c07-{}", std::process::id()));
    let file_content: Vec<u8> = (0..FILE_LEN).map(|o| pat(0xF07, o)).collect();
    std::fs::write(&path, &file_content).map_err(|e| e.to_string())?;
    let f = std::fs::File::open(&path).map_err(|e| e.to_string())?;
    if dt == DriverType::Poll {
        set_nonblocking(sa.as_raw_fd(), true);
        set_nonblocking(pr.as_raw_fd(), true);
    }
    let mut ex = Exec {
        driver: Some(d),
        pool: Some(pool),
        ops: Vec::new(),
        held: Vec::new(),
        fed: [Vec::new(), Vec::new()],
        got: [Vec::new(), Vec::new()],
        chunks: [Vec::new(), Vec::new()],
        lossy: [false, false],
        peers: vec![Some(sb), Some(pw)],
        fds: vec![
            SharedFd::new(ProbeFd::new(sa)),
            SharedFd::new(ProbeFd::new(pr)),
            SharedFd::new(ProbeFd::new(OwnedFd::from(f))),
        ],
        file_content,
        viol: Vec::new(),
        exhausted_seen: false,
        census_skipped: false,
        eof_reads: false,
        held_across_completion: false,
        drv: p.driver,
    };
    let effective = (p.pool_size as usize).next_power_of_two();
    let mut dropped = false;
    let mut max_held = 0usize;
    for a in &p.acts {
        match a {
            Act::Managed(c, l) => ex.push_managed(*c, *l),
            Act::Multi(c) => ex.push_multi(*c),
            Act::Feed(c, n) => ex.feed(*c, *n),
            Act::Poll(ms) => ex.poll(*ms),
            Act::CloseWriter => {
                ex.peers[1] = None;
                ex.eof_reads = true;
            }
            Act::Pop(i) => ex.pop(*i),
            Act::Release(i) => {
                if *i < ex.held.len() {
                    ex.check_held("release");
                    ex.held.remove(*i);
                }
            }
            Act::Cancel(i) => ex.let_go(*i, true),
            Act::DropKey(i) => ex.let_go(*i, false),
            Act::CheckHeld => ex.check_held("step"),
            Act::DropProactor => {
                dropped = true;
                for o in ex.ops.iter_mut() {
                    if !o.done && o.ch < 2 {
                        // whatever that operation received dies with it
                        ex.lossy[o.ch] = true;
                    }
                    o.slot = Slot::None;
                    o.done = true;
                }
                ex.pool = None;
                ex.driver = None;
                // (e) buffers outlive the pool: still readable, and the peers may keep talking
                ex.feed(0, 64);
                ex.feed(1, 64);
                ex.check_held("after-proactor-drop");
            }
        }
        max_held = max_held.max(ex.held.len());
        if dropped {
            break;
        }
    }
    ex.check_held("end");
    ex.check_streams();
    if !dropped {
        ex.census(effective);
    }
    // teardown
    for o in ex.ops.iter_mut() {
        o.slot = Slot::None;
    }
    ex.pool = None;
    ex.driver = None;
    ex.feed(0, 32);
    ex.feed(1, 32);
    let (pool_quiet, events) = crate::drv::soup::settle_log(Duration::from_millis(1500));
    ex.check_held("after-teardown");
    ex.held.clear();
    ex.fds.clear();
    ex.peers.clear();
    let _ = std::fs::remove_file(&path);
    let corrupt = if canary { alloc::scan() } else { Vec::new() };
    alloc::quarantine(false);
    verif::enable(false);
    let mut events = events;
    events.extend(verif::drain());
    if canary {
        alloc::release_all();
    }
    let names = verif::type_names();
    let pool_quiet = {
        let had_pool_jobs = events.iter().any(|e| e.kind == verif::Kind::Submit && e.b == 2);
        let news: std::collections::HashSet<u64> = events.iter().filter(|e| e.kind == verif::Kind::OpNew).map(|e| e.a).collect();
        let frees = events.iter().filter(|e| e.kind == verif::Kind::OpFree && news.contains(&e.a)).count();
        // a release still pending on a pool thread: leak rules cannot be decided
        pool_quiet && !(frees < news.len() && had_pool_jobs)
    };
    let sum = check::check_log(&events, &names, pool_quiet);
    let mut viol = std::mem::take(&mut ex.viol);
    for f in &sum.findings {
        viol.push((format!("C07/{}/{}/{}", f.rule, p.driver, f.ty), f.what.clone()));
    }
    for c in &corrupt {
        viol.push((format!("C07/write-into-released-memory/{}", p.driver),
            format!("a released {}-byte block was written after its release (offset {}, {} bytes changed)", c.size, c.offset, c.changed)));
    }
    let sig = format!(
        "{}|pool{}|len{}|held{}|{}|{}|{}|{}",
        p.driver,
        p.pool_size,
        p.buf_len,
        max_held.min(4),
        if ex.held_across_completion { "held-across-completion" } else { "-" },
        if ex.exhausted_seen { "exhausted" } else { "-" },
        if dropped { "proactor-dropped" } else { "census" },
        if ex.eof_reads { "eof-read" } else { "-" },
    );
    if ex.census_skipped {
        return Err("pool jobs still running after 3 s: census skipped".into());
    }
    Ok(Outcome {
        viol,
        sig,
        trivial: !(ex.held_across_completion || ex.exhausted_seen),
        log: check::render(&events, &names, 300),
    })
}

pub fn main(args: &Args) {
    let mut rep = Report::from_args("C07", &args.str("leg", "plain"), args);
    let canary = !args.flag("no-canary");
    let drivers: Vec<&'static str> = match args.get("driver") {
        Some("poll") => vec!["poll"],
        Some("iour") => vec!["iour"],
        _ => vec!["iour", "poll"],
    };
    let progs: Vec<Prog> = if let Some(path) = args.get("replay") {
        let text = std::fs::read_to_string(path).expect("replay file");
        let v: Value = vcommon::serde_json::from_str(&text).expect("json");
        match Prog::from_json(&v["program"]["program"]).or_else(|| Prog::from_json(&v["program"])) {
            Some(p) => vec![p; args.usize("repeat", 10)],
            None => {
                rep.inconclusive("replay file has no program");
                rep.finish();
                return;
            }
        }
    } else {
        let base = Rng::new(args.seed()).fork(args.shard() + 1);
        (0..args.iters(300, 20000)).map(|i| generate(&mut base.fork(i as u64), drivers[i % drivers.len()])).collect()
    };
    for p in progs {
        if rep.out_of_time() {
            break;
        }
        match panics::catch(|| run_prog(&p, canary)) {
            Ok(Ok(o)) => {
                rep.floor("buffer-held-across-a-later-completion", o.sig.contains("held-across-completion"));
                rep.floor("exhaustion-reached", o.sig.contains("exhausted"));
                if o.viol.is_empty() {
                    rep.eval(if o.trivial { None } else { Some(o.sig) });
                    if rep.want_sample() && p.acts.len() > 8 {
                        rep.sample(p.to_json());
                    }
                } else {
                    rep.eval(None);
                    let mut seen = std::collections::HashSet::new();
                    for (sig, what) in o.viol {
                        if seen.insert(sig.clone()) {
                            rep.violation(&sig, &what, json!({"program": p.to_json(), "log": o.log}));
                        }
                    }
                }
            }
            Ok(Err(e)) => {
                rep.eval(None);
                alloc::quarantine(false);
                verif::enable(false);
                rep.inconclusive(&e);
            }
            Err(pi) => {
                rep.eval(None);
                alloc::quarantine(false);
                verif::enable(false);
                let _ = verif::drain();
                alloc::release_all();
                match pi.origin() {
                    panics::Origin::Repo(_) => rep.violation(
                        &format!("C07/{}/{}", pi.sig(), p.driver),
                        &format!("panic in compio at {}:{}: {}", pi.file, pi.line, pi.message),
                        json!({"program": p.to_json()}),
                    ),
                    o => rep.inconclusive(&format!("harness panic {o:?}: {}", pi.message)),
                }
            }
        }
    }
    rep.finish();
}
