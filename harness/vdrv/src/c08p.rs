//! C08 (pipe transfers) — a writer task and a reader task of the *same*
//! runtime move 1 byte … 1 MiB through an anonymous pipe or a FIFO, in every
//! chunking, on both drivers; the transfer must complete and the reader must
//! see exactly the bytes written, in order, then end-of-file.
//!
//! The differential legs of C08 execute one operation at a time; a write that
//! is larger than the free space of the pipe needs the reader to run
//! concurrently, which only this leg does.
//!
//! Verdicts: content / count oracles on position-tagged data, and a monitor
//! (the orchestrating thread) that looks at the runtime thread through /proc:
//! a runtime thread that sleeps (state S) inside a data system call
//! (read/write/readv/writev/pread/pwrite) for two seconds of consecutive looks
//! with no context switch in between is blocked in the kernel on a
//! descriptor that should have been non-blocking or polled — the transfer
//! can never complete because its counterpart is a task of the same thread.
//! Any other way of not finishing inside the watchdog is inconclusive.

use std::{
    sync::mpsc,
    time::{Duration, Instant},
};

use compio_buf::BufResult;
use compio_driver::{DriverType, ProactorBuilder};
use compio_io::{AsyncRead, AsyncWrite, AsyncWriteExt};
use compio_runtime::Runtime;
use vcommon::{Args, Report, Rng, Value, json, panics};

use crate::drv::pat;

#[derive(Debug, Clone)]
struct Prog {
    driver: &'static str,
    fifo: bool,
    total: usize,
    /// writer chunk sizes, cycled (0 = everything that is left in one write_all)
    wchunks: Vec<usize>,
    /// reader buffer capacities, cycled
    rbufs: Vec<usize>,
    /// the reader starts only after this many yields of the writer side
    reader_delay: usize,
    /// use `write` (may be short) instead of `write_all`
    plain_write: bool,
}

impl Prog {
    fn to_json(&self) -> Value {
        json!({"driver": self.driver, "fifo": self.fifo, "total": self.total, "wchunks": self.wchunks, "rbufs": self.rbufs,
               "reader_delay": self.reader_delay, "plain_write": self.plain_write})
    }

    fn from_json(v: &Value) -> Option<Prog> {
        let arr = |k: &str| -> Option<Vec<usize>> { Some(v[k].as_array()?.iter().filter_map(|x| x.as_u64().map(|x| x as usize)).collect()) };
        Some(Prog {
            driver: if v["driver"].as_str()? == "poll" { "poll" } else { "iour" },
            fifo: v["fifo"].as_bool()?,
            total: v["total"].as_u64()? as usize,
            wchunks: arr("wchunks")?,
            rbufs: arr("rbufs")?,
            reader_delay: v["reader_delay"].as_u64().unwrap_or(0) as usize,
            plain_write: v["plain_write"].as_bool().unwrap_or(false),
        })
    }
}

fn generate(rng: &mut Rng, driver: &'static str) -> Prog {
    let total = *rng.pick(&[1usize, 100, 4096, 65535, 65536, 65537, 70000, 200_000, 1 << 20]);
    let nw = rng.range(1, 3);
    let nr = rng.range(1, 3);
    Prog {
        driver,
        fifo: rng.chance(1, 3),
        total,
        wchunks: (0..nw).map(|_| *rng.pick(&[0usize, 0, 1, 4095, 4096, 65536, 65537, 100_000, 1 << 20])).collect(),
        rbufs: (0..nr).map(|_| *rng.pick(&[1usize, 7, 4096, 65536, 100_000])).collect(),
        reader_delay: *rng.pick(&[0usize, 0, 1, 5]),
        plain_write: rng.chance(1, 4),
    }
}

#[derive(Debug)]
struct Done {
    viol: Vec<(String, String)>,
    sig: String,
}

fn vio(v: &mut Vec<(String, String)>, rule: &str, ctx: &str, what: String) {
    v.push((format!("C08/pipe-transfer/{rule}/{ctx}"), what));
}

fn run_prog(p: &Prog) -> Result<Done, String> {
    let mut pb = ProactorBuilder::new();
    pb.driver_type(if p.driver == "poll" { DriverType::Poll } else { DriverType::IoUring });
    let rt = Runtime::builder().with_proactor(pb).build().map_err(|e| format!("runtime: {e}"))?;
    let dir = tempfile::tempdir().map_err(|e| e.to_string())?;
    let path = dir.path().join("fifo");
    let p2 = p.clone();
    let res: Result<Done, String> = rt.block_on(async move {
        let p = p2;
        let ctx = format!("{}/{}", p.driver, if p.fifo { "fifo" } else { "anonymous" });
        let (rx, mut tx) = if p.fifo {
            let c = std::ffi::CString::new(path.to_str().unwrap()).unwrap();
            if unsafe { libc::mkfifo(c.as_ptr(), 0o600) } != 0 {
                return Err("mkfifo".to_string());
            }
            // Both ends are opened concurrently: a FIFO open blocks (on a pool thread / in the kernel
            // worker) until the other end is opened, as open(2) does; where the kernel opens without
            // waiting the sender may see ENXIO first and tries again, as the documentation describes.
            let ro = compio_fs::pipe::OpenOptions::new();
            let so = compio_fs::pipe::OpenOptions::new();
            let open_tx = async {
                for _ in 0..200 {
                    match so.open_sender(&path).await {
                        Ok(tx) => return Ok(tx),
                        Err(e) if e.raw_os_error() == Some(libc::ENXIO) => compio_runtime::time::sleep(Duration::from_millis(5)).await,
                        Err(e) => return Err(e),
                    }
                }
                Err(std::io::Error::from_raw_os_error(libc::ENXIO))
            };
            let (rx, tx) = futures_util::join!(ro.open_receiver(&path), open_tx);
            let rx = rx.map_err(|e| format!("open_receiver: {e}"))?;
            let tx = tx.map_err(|e| format!("open_sender: {e}"))?;
            (rx, tx)
        } else {
            compio_fs::pipe::anonymous().await.map_err(|e| format!("anonymous: {e}"))?
        };
        let total = p.total;
        let rbufs = p.rbufs.clone();
        let delay = p.reader_delay;
        let reader = compio_runtime::spawn(async move {
            let mut rx = rx;
            for _ in 0..delay {
                compio_runtime::time::sleep(Duration::from_millis(1)).await;
            }
            let mut got: Vec<u8> = Vec::with_capacity(total);
            let mut i = 0usize;
            let mut err = None;
            loop {
                let cap = rbufs[i % rbufs.len()].max(1);
                i += 1;
                let BufResult(r, b) = rx.read(Vec::with_capacity(cap)).await;
                match r {
                    Ok(0) => break,
                    Ok(n) => {
                        if n > cap || b.len() != n {
                            err = Some(format!("read into a {cap}-byte buffer reports {n} bytes, buffer length {}", b.len()));
                            break;
                        }
                        got.extend_from_slice(&b);
                        if got.len() > total + 16 {
                            break;
                        }
                    }
                    Err(e) => {
                        err = Some(format!("read failed: {e}"));
                        break;
                    }
                }
            }
            (got, err)
        });
        // writer (the main future)
        let mut viol = Vec::new();
        let mut sent = 0usize;
        let mut i = 0usize;
        let mut short_writes = 0usize;
        while sent < total {
            let want = match p.wchunks[i % p.wchunks.len()] {
                0 => total - sent,
                c => c.min(total - sent),
            };
            i += 1;
            let data: Vec<u8> = (sent..sent + want).map(|o| pat(0xC08, o)).collect();
            if p.plain_write {
                let BufResult(r, _) = tx.write(data).await;
                match r {
                    Ok(0) => {
                        vio(&mut viol, "write-zero", &ctx, format!("write of {want} bytes returned Ok(0)"));
                        break;
                    }
                    Ok(n) if n > want => {
                        vio(&mut viol, "count-exceeds-request", &ctx, format!("write of {want} bytes reports {n}"));
                        break;
                    }
                    Ok(n) => {
                        if n < want {
                            short_writes += 1;
                        }
                        sent += n;
                    }
                    Err(e) => {
                        vio(&mut viol, "write-failed", &ctx, format!("write of {want} bytes at offset {sent} failed: {e}"));
                        break;
                    }
                }
            } else {
                let BufResult(r, _) = tx.write_all(data).await;
                match r {
                    Ok(()) => sent += want,
                    Err(e) => {
                        vio(&mut viol, "write-failed", &ctx, format!("write_all of {want} bytes at offset {sent} failed: {e}"));
                        break;
                    }
                }
            }
        }
        if let Err(e) = tx.close().await {
            vio(&mut viol, "close-failed", &ctx, format!("closing the sender failed: {e}"));
        }
        let (got, err) = reader.await.map_err(|_| "reader task panicked".to_string())?;
        if let Some(e) = err {
            vio(&mut viol, "read-failed", &ctx, e);
        }
        if got.len() != sent {
            vio(&mut viol, "bytes-lost-or-invented", &ctx, format!("{sent} bytes were accepted by the sender, the receiver saw {} before end-of-file", got.len()));
        } else if let Some(o) = (0..got.len()).find(|o| got[*o] != pat(0xC08, *o)) {
            vio(&mut viol, "wrong-data", &ctx, format!("byte {o} of {sent} differs from what was written"));
        }
        let class = match total {
            0..=4096 => "small",
            4097..=65536 => "fits-pipe",
            _ => "exceeds-pipe",
        };
        Ok(Done {
            viol,
            sig: format!("{ctx}|{class}|{}|{}|{}", if p.plain_write { "write" } else { "write_all" }, if short_writes > 0 { "short-writes" } else { "-" }, if p.reader_delay > 0 { "late-reader" } else { "-" }),
        })
    });
    drop(rt);
    res
}

const DATA_SYSCALLS: [(i64, &str); 8] = [(0, "read"), (1, "write"), (19, "readv"), (20, "writev"), (17, "pread64"), (18, "pwrite64"), (295, "preadv"), (296, "pwritev")];

/// (state, syscall line, voluntary + involuntary context switches) of a thread of this process.
fn look(tid: i32) -> Option<(char, String, u64)> {
    let stat = std::fs::read_to_string(format!("/proc/self/task/{tid}/stat")).ok()?;
    let state = stat.rsplit_once(") ")?.1.chars().next()?;
    let sc = std::fs::read_to_string(format!("/proc/self/task/{tid}/syscall")).ok()?;
    let status = std::fs::read_to_string(format!("/proc/self/task/{tid}/status")).ok()?;
    let sw: u64 = status
        .lines()
        .filter(|l| l.contains("ctxt_switches"))
        .filter_map(|l| l.split_whitespace().last()?.parse::<u64>().ok())
        .sum();
    Some((state, sc.trim().to_string(), sw))
}

pub fn main(args: &Args) {
    let mut rep = Report::from_args("C08", &args.str("leg", "pipe-transfer"), args);
    let drivers: Vec<&'static str> = match args.get("driver") {
        Some("poll") => vec!["poll"],
        Some("iour") => vec!["iour"],
        _ => vec!["iour", "poll"],
    };
    let progs: Vec<Prog> = if let Some(path) = args.get("replay") {
        let text = std::fs::read_to_string(path).expect("replay file");
        let v: Value = vcommon::serde_json::from_str(&text).expect("json");
        match Prog::from_json(&v["program"]) {
            Some(p) => vec![p; args.usize("repeat", 3)],
            None => {
                rep.inconclusive("replay file has no program");
                rep.finish();
                return;
            }
        }
    } else {
        let base = Rng::new(args.seed()).fork(args.shard() + 1);
        (0..args.iters(120, 5000)).map(|i| generate(&mut base.fork(i as u64), drivers[i % drivers.len()])).collect()
    };
    // worker thread: runs the programs; this thread watches it
    let (tx_job, rx_job) = mpsc::channel::<Prog>();
    let (tx_res, rx_res) = mpsc::channel::<Result<Result<Done, String>, String>>();
    let (tx_tid, rx_tid) = mpsc::channel::<i32>();
    std::thread::spawn(move || {
        let _ = tx_tid.send(unsafe { libc::gettid() });
        while let Ok(p) = rx_job.recv() {
            let r = match panics::catch(|| run_prog(&p)) {
                Ok(r) => Ok(r),
                Err(pi) => Err(match pi.origin() {
                    panics::Origin::Repo(_) => format!("REPO {} {}:{}: {}", pi.sig(), pi.file, pi.line, pi.message),
                    o => format!("HARNESS {o:?}: {}", pi.message),
                }),
            };
            if tx_res.send(r).is_err() {
                break;
            }
        }
    });
    let tid = rx_tid.recv().expect("worker tid");
    'progs: for p in progs {
        if rep.out_of_time() {
            break;
        }
        tx_job.send(p.clone()).expect("worker alive");
        let t0 = Instant::now();
        let mut same = 0u32;
        let mut last: Option<(String, u64)> = None;
        loop {
            match rx_res.recv_timeout(Duration::from_millis(50)) {
                Ok(Ok(Ok(d))) => {
                    if d.viol.is_empty() {
                        rep.eval(Some(d.sig));
                        if rep.want_sample() {
                            rep.sample(p.to_json());
                        }
                    } else {
                        rep.eval(None);
                        let mut seen = std::collections::HashSet::new();
                        for (s, w) in d.viol {
                            if seen.insert(s.clone()) {
                                rep.violation(&s, &w, p.to_json());
                            }
                        }
                    }
                    break;
                }
                Ok(Ok(Err(e))) => {
                    rep.eval(None);
                    rep.inconclusive(&e);
                    break;
                }
                Ok(Err(e)) => {
                    rep.eval(None);
                    if let Some(rest) = e.strip_prefix("REPO ") {
                        let sig = rest.split_whitespace().next().unwrap_or("panic");
                        rep.violation(&format!("C08/pipe-transfer/{sig}/{}", p.driver), &format!("panic in compio: {rest}"), p.to_json());
                    } else {
                        rep.inconclusive(&e);
                    }
                    break;
                }
                Err(mpsc::RecvTimeoutError::Disconnected) => {
                    rep.inconclusive("worker thread died");
                    break 'progs;
                }
                Err(mpsc::RecvTimeoutError::Timeout) => {
                    if let Some((state, sc, sw)) = look(tid) {
                        let nr = sc.split_whitespace().next().and_then(|x| x.parse::<i64>().ok());
                        let data_call = nr.and_then(|n| DATA_SYSCALLS.iter().find(|d| d.0 == n));
                        if state == 'S' && data_call.is_some() && last.as_ref() == Some(&(sc.clone(), sw)) {
                            same += 1;
                        } else {
                            same = 0;
                        }
                        last = Some((sc.clone(), sw));
                        if same >= 40 {
                            let name = data_call.unwrap().1;
                            rep.eval(None);
                            rep.violation(
                                &format!("C08/pipe-transfer/runtime-thread-blocked/{}/{}/{name}", p.driver, if p.fifo { "fifo" } else { "anonymous" }),
                                &format!("the runtime thread has been asleep inside {name}(2) for 40 consecutive looks over 2 s without a context switch \
                                          ({sc}): a blocking descriptor on the runtime thread; the counterpart of the transfer is a task of the same thread, \
                                          so it can never complete"),
                                p.to_json(),
                            );
                            // the thread cannot be recovered: report and leave
                            rep.note("a blocked runtime thread ends the process early; remaining programs were not run");
                            rep.finish();
                            std::process::exit(0);
                        }
                    }
                    if t0.elapsed() > Duration::from_secs(60) {
                        rep.eval(None);
                        rep.inconclusive("transfer did not finish within 60 s and the runtime thread is not blocked in a data system call");
                        rep.finish();
                        std::process::exit(0);
                    }
                }
            }
        }
    }
    rep.finish();
}
