//! C10 (pool buffers) — the buffer-view contract for `BufferRef`, the one root
//! kind that only exists next to a driver.
//!
//! Roots: a buffer popped from the fallback pool (polling driver) and a buffer
//! that a managed read on the io_uring buffer ring handed out (it arrives with
//! n bytes recorded). Seeded sequences of: fill k tagged bytes through the
//! writable region and record them (`advance` / `advance_to` / `set_len`),
//! `set_len` down, `set_capacity` (up, down below the recorded length, zero),
//! and the same through one level of `slice(range)` / `uninit()` views.
//! After every step the contract is checked against a shadow model: the
//! initialised bytes are a prefix of the writable region, both inside the
//! pool buffer, length <= capacity, recorded bytes visible where written,
//! everything else untouched.

use std::{os::fd::AsRawFd, time::Duration};

use compio_buf::{BufResult, IntoInner, IoBuf, IoBufExt, IoBufMut, IoBufMutExt, SetLen, SetLenExt};
use compio_driver::{BufferRef, DriverType, Proactor, PushEntry, SharedFd, TakeBuffer, op::ReadManaged};
use vcommon::{Args, Report, Rng, Value, json, panics};

use crate::drv::{ProbeFd, mk_pipe, pat};

#[derive(Debug, Clone, PartialEq)]
enum Act {
    /// write k bytes after the initialised part, record with method m (0 advance, 1 advance_to, 2 set_len)
    Fill(usize, usize),
    SetLen(usize),
    SetCap(usize),
    /// the same fill through `slice(a..b)` (b = 0: open end)
    SliceFill(usize, usize, usize),
    /// fill through `uninit()`
    UninitFill(usize),
}

#[derive(Debug, Clone)]
struct Prog {
    driver: &'static str,
    buf_len: usize,
    /// io_uring root: bytes the managed read delivers
    preload: usize,
    acts: Vec<Act>,
}

impl Prog {
    fn to_json(&self) -> Value {
        json!({"driver": self.driver, "buf_len": self.buf_len, "preload": self.preload,
            "acts": self.acts.iter().map(|a| match a {
                Act::Fill(k, m) => json!(["fill", k, m]),
                Act::SetLen(n) => json!(["setlen", n]),
                Act::SetCap(c) => json!(["setcap", c]),
                Act::SliceFill(a, b, k) => json!(["slicefill", a, b, k]),
                Act::UninitFill(k) => json!(["uninitfill", k]),
            }).collect::<Vec<_>>()})
    }

    fn from_json(v: &Value) -> Option<Prog> {
        let acts = v["acts"]
            .as_array()?
            .iter()
            .map(|a| {
                let a = a.as_array()?;
                let n = |i: usize| a.get(i).and_then(|x| x.as_u64()).unwrap_or(0) as usize;
                Some(match a.first()?.as_str()? {
                    "fill" => Act::Fill(n(1), n(2)),
                    "setlen" => Act::SetLen(n(1)),
                    "setcap" => Act::SetCap(n(1)),
                    "slicefill" => Act::SliceFill(n(1), n(2), n(3)),
                    "uninitfill" => Act::UninitFill(n(1)),
                    _ => return None,
                })
            })
            .collect::<Option<Vec<_>>>()?;
        Some(Prog {
            driver: if v["driver"].as_str()? == "poll" { "poll" } else { "iour" },
            buf_len: v["buf_len"].as_u64()? as usize,
            preload: v["preload"].as_u64().unwrap_or(0) as usize,
            acts,
        })
    }
}

fn generate(rng: &mut Rng, driver: &'static str) -> Prog {
    let buf_len = *rng.pick(&[8usize, 16, 64]);
    let n = rng.range(2, 10);
    let acts = (0..n)
        .map(|_| match rng.below(10) {
            0..=3 => Act::Fill(rng.below(buf_len + 2), rng.below(3)),
            4 => Act::SetLen(rng.below(buf_len + 2)),
            5 | 6 => Act::SetCap(*rng.pick(&[0usize, 1, 2, buf_len / 2, buf_len - 1, buf_len, buf_len + 5])),
            7 | 8 => {
                let a = rng.below(buf_len + 1);
                let b = if rng.chance(1, 3) { 0 } else { rng.range(a, buf_len + 1) };
                Act::SliceFill(a, b, rng.below(buf_len + 1))
            }
            _ => Act::UninitFill(rng.below(buf_len + 1)),
        })
        .collect();
    Prog {
        driver,
        buf_len,
        preload: rng.range(1, buf_len),
        acts,
    }
}

struct Model {
    base: usize,
    full: usize,
    /// what every byte of the pool buffer must hold (None = never written by us)
    bytes: Vec<Option<u8>>,
    len: usize,
    tag: u8,
}

fn vio(v: &mut Vec<(String, String)>, rule: &str, ctx: &str, what: String) {
    v.push((format!("C10/pool-buffer/{rule}/{ctx}"), what));
}

/// The contract, checked on the root after every step.
fn check(buf: &mut BufferRef, m: &Model, viol: &mut Vec<(String, String)>, ctx: &str, step: &str) {
    let (ip, il) = {
        let i = (*buf).as_init();
        (i.as_ptr() as usize, i.len())
    };
    let (up, ul) = {
        let u = (*buf).as_uninit();
        (u.as_ptr() as usize, u.len())
    };
    if il > ul {
        vio(viol, "len-exceeds-capacity", ctx, format!("after {step}: initialised length {il} exceeds the writable capacity {ul}"));
    }
    if ip != up {
        vio(viol, "init-not-a-prefix", ctx, format!("after {step}: initialised part starts at {ip:#x}, writable region at {up:#x}"));
    }
    if up < m.base || up + ul > m.base + m.full || ip < m.base || ip + il > m.base + m.full {
        vio(viol, "outside-allocation", ctx, format!("after {step}: init {ip:#x}+{il} / writable {up:#x}+{ul} leave the pool buffer {:#x}+{}", m.base, m.full));
        return;
    }
    if (*buf).buf_len() != il || (*buf).buf_capacity() != ul {
        vio(viol, "inconsistent-lengths", ctx, format!("after {step}: buf_len {} vs as_init {il}, buf_capacity {} vs as_uninit {ul}", (*buf).buf_len(), (*buf).buf_capacity()));
    }
    if il != m.len.min(ul) && il != m.len {
        vio(viol, "recorded-length-wrong", ctx, format!("after {step}: {il} bytes reported initialised, {} were recorded", m.len));
    }
    // content: everything we know, read through the raw allocation (ground truth)
    let raw = unsafe { std::slice::from_raw_parts(m.base as *const u8, m.full) };
    for (o, want) in m.bytes.iter().enumerate() {
        if let Some(w) = want
            && raw[o] != *w
        {
            vio(viol, "content-changed", ctx, format!("after {step}: byte {o} of the pool buffer is {:#x}, {:#x} was written there", raw[o], w));
            break;
        }
    }
    let init = (*buf).as_init();
    for (o, b) in init.iter().enumerate() {
        if let Some(w) = m.bytes.get(o).copied().flatten()
            && *b != w
        {
            vio(viol, "init-shows-wrong-bytes", ctx, format!("after {step}: initialised byte {o} reads {b:#x}, {w:#x} was written there"));
            break;
        }
    }
}

/// Write `k` tagged bytes at the start of a writable region (clamped) and return how many.
fn write_tagged<B: IoBufMut + ?Sized>(b: &mut B, skip: usize, k: usize, tag: &mut u8) -> (usize, usize, Vec<u8>) {
    let u = b.as_uninit();
    let base = u.as_ptr() as usize;
    let k = k.min(u.len().saturating_sub(skip));
    let mut data = Vec::new();
    for slot in u.iter_mut().skip(skip).take(k) {
        *tag = tag.wrapping_add(1) | 0x80;
        slot.write(*tag);
        data.push(*tag);
    }
    (base + skip, k, data)
}

fn run_prog(p: &Prog) -> Result<(Vec<(String, String)>, String), String> {
    let dt = if p.driver == "poll" { DriverType::Poll } else { DriverType::IoUring };
    let mut d = Proactor::builder()
        .capacity(8)
        .driver_type(dt)
        .buffer_pool_size(std::num::NonZero::new(2).unwrap())
        .buffer_pool_buffer_len(p.buf_len)
        .build()
        .map_err(|e| format!("proactor: {e}"))?;
    let pool = d.buffer_pool().map_err(|e| format!("buffer pool: {e}"))?;
    let mut viol = Vec::new();
    let ctx = format!("{}", p.driver);
    // ---- the root
    let (mut buf, preloaded): (BufferRef, Vec<u8>) = if dt == DriverType::Poll {
        (pool.pop().map_err(|e| format!("pop: {e}"))?, Vec::new())
    } else {
        let (r, w) = mk_pipe();
        let data: Vec<u8> = (0..p.preload.min(p.buf_len)).map(|o| pat(0xC10, o)).collect();
        let n = unsafe { libc::write(w.as_raw_fd(), data.as_ptr() as _, data.len()) };
        if n != data.len() as isize {
            return Err("pipe write".into());
        }
        let fd = SharedFd::new(ProbeFd::new(r));
        let op = ReadManaged::new(fd, &pool, 0).map_err(|e| format!("ReadManaged::new: {e}"))?;
        let res = match d.push(op) {
            PushEntry::Ready(res) => res,
            PushEntry::Pending(k) => {
                let mut key = Some(k);
                let mut out = None;
                for _ in 0..50 {
                    let _ = d.poll(Some(Duration::from_millis(20)));
                    match d.pop(key.take().unwrap()) {
                        PushEntry::Ready(res) => {
                            out = Some(res);
                            break;
                        }
                        PushEntry::Pending(kk) => key = Some(kk),
                    }
                }
                match out {
                    Some(r) => r,
                    None => return Err("managed read did not complete".into()),
                }
            }
        };
        let BufResult(r, op) = res;
        let n = r.map_err(|e| format!("managed read: {e}"))?;
        let mut b = op.take_buffer().ok_or("managed read without buffer")?;
        if b.buf_len() != n {
            // take_buffer records the bytes read
            unsafe { b.set_len(n) };
        }
        (b, data[..n.min(data.len())].to_vec())
    };
    let full = buf.as_uninit().len();
    let base = buf.as_uninit().as_ptr() as usize;
    let mut m = Model {
        base,
        full,
        bytes: vec![None; full],
        len: buf.as_init().len(),
        tag: 0,
    };
    for (o, b) in preloaded.iter().enumerate() {
        if o < full {
            m.bytes[o] = Some(*b);
        }
    }
    if dt != DriverType::Poll && m.len != preloaded.len() {
        vio(&mut viol, "recorded-length-wrong", &ctx, format!("a managed read of {} bytes hands out a buffer with {} bytes recorded", preloaded.len(), m.len));
    }
    check(&mut buf, &m, &mut viol, &ctx, "creation");
    let mut shrunk_below_len = false;
    let mut view_fill = false;
    for a in &p.acts {
        let step = format!("{a:?}");
        match a {
            Act::Fill(k, method) => {
                let len = buf.as_init().len();
                let (at, k, data) = write_tagged(&mut buf, len, *k, &mut m.tag);
                unsafe {
                    match method {
                        0 => buf.advance(k),
                        1 => buf.advance_to(len + k),
                        _ => buf.set_len(len + k),
                    }
                }
                for (o, b) in data.iter().enumerate() {
                    m.bytes[at - m.base + o] = Some(*b);
                }
                m.len = len + k;
            }
            Act::SetLen(n) => {
                // only ever down to what is initialised (precondition of set_len)
                let n = (*n).min(buf.as_init().len());
                unsafe { buf.set_len(n) };
                m.len = n;
            }
            Act::SetCap(c) => {
                let before = buf.as_init().len();
                buf.set_capacity(*c);
                let cap = buf.as_uninit().len();
                if *c != 0 && *c < before {
                    shrunk_below_len = true;
                }
                m.len = before.min(cap);
            }
            Act::SliceFill(a0, b0, k) => {
                let len = buf.as_init().len();
                let a0 = (*a0).min(len);
                // a slice view is taken over the initialised part
                let mut s = if *b0 == 0 { buf.slice(a0..) } else { buf.slice(a0..(*b0).max(a0)) };
                let (si, sl) = (s.as_init().as_ptr() as usize, s.as_init().len());
                let (su, sul) = (s.as_uninit().as_ptr() as usize, s.as_uninit().len());
                if sl > sul || si != su || su < m.base || su + sul > m.base + m.full {
                    vio(&mut viol, "view-breaks-contract", &format!("{ctx}/slice"),
                        format!("slice({a0}..{b0}) over a pool buffer (len {len}): init {si:#x}+{sl}, writable {su:#x}+{sul}, buffer {:#x}+{}", m.base, m.full));
                }
                let (at, k, data) = write_tagged(&mut s, sl, *k, &mut m.tag);
                unsafe { s.advance(k) };
                let seen = s.as_init().len();
                if k > 0 && seen != sl + k {
                    vio(&mut viol, "fill-not-visible", &format!("{ctx}/slice"), format!("{k} bytes recorded through slice({a0}..{b0}), the view shows {seen} initialised, had {sl}"));
                }
                buf = s.into_inner();
                if at >= m.base && at + k <= m.base + m.full {
                    for (o, b) in data.iter().enumerate() {
                        m.bytes[at - m.base + o] = Some(*b);
                    }
                }
                // recording through a bounded view may also *hide* bytes beyond its end (set_len of the
                // view sets the root's length to begin + len): content stays, only the length moves.
                // What must hold: the bytes just recorded are visible.
                let now = buf.as_init().len();
                if k > 0 {
                    view_fill = true;
                    if now < at - m.base + k {
                        vio(&mut viol, "fill-not-visible", &format!("{ctx}/slice"),
                            format!("{k} bytes written at offset {} and recorded through slice({a0}..{b0}); the pool buffer shows only {now} bytes initialised", at - m.base));
                    }
                }
                let _ = len;
                m.len = now;
            }
            Act::UninitFill(k) => {
                let len = buf.as_init().len();
                let mut u = buf.uninit();
                let (ui, uil) = (u.as_init().as_ptr() as usize, u.as_init().len());
                let (uu, uul) = (u.as_uninit().as_ptr() as usize, u.as_uninit().len());
                if uil > uul || (uil > 0 && ui != uu) || uu < m.base || uu + uul > m.base + m.full {
                    vio(&mut viol, "view-breaks-contract", &format!("{ctx}/uninit"),
                        format!("uninit() over a pool buffer (len {len}): init {ui:#x}+{uil}, writable {uu:#x}+{uul}, buffer {:#x}+{}", m.base, m.full));
                }
                let (at, k, data) = write_tagged(&mut u, 0, *k, &mut m.tag);
                unsafe { u.advance(k) };
                buf = u.into_inner();
                if at >= m.base && at + k <= m.base + m.full {
                    for (o, b) in data.iter().enumerate() {
                        m.bytes[at - m.base + o] = Some(*b);
                    }
                }
                let now = buf.as_init().len();
                if k > 0 {
                    view_fill = true;
                    if now < at - m.base + k {
                        vio(&mut viol, "fill-not-visible", &format!("{ctx}/uninit"),
                            format!("{k} bytes written at offset {} and recorded through uninit(); the pool buffer shows only {now} bytes initialised", at - m.base));
                    }
                }
                let _ = len;
                m.len = now;
            }
        }
        check(&mut buf, &m, &mut viol, &ctx, &step);
    }
    drop(buf);
    drop(pool);
    drop(d);
    let sig = format!("{}|len{}|{}|{}", p.driver, p.buf_len, if shrunk_below_len { "shrunk-below-recorded" } else { "-" }, if view_fill { "filled-through-view" } else { "-" });
    Ok((viol, sig))
}

pub fn main(args: &Args) {
    let mut rep = Report::from_args("C10", &args.str("leg", "pool"), args);
    let drivers: Vec<&'static str> = match args.get("driver") {
        Some("poll") => vec!["poll"],
        Some("iour") => vec!["iour"],
        _ => vec!["iour", "poll"],
    };
    let progs: Vec<Prog> = if let Some(path) = args.get("replay") {
        let text = std::fs::read_to_string(path).expect("replay file");
        let v: Value = vcommon::serde_json::from_str(&text).expect("json");
        match Prog::from_json(&v["program"]) {
            Some(p) => vec![p],
            None => {
                rep.inconclusive("replay file has no program");
                rep.finish();
                return;
            }
        }
    } else {
        let base = Rng::new(args.seed()).fork(args.shard() + 1);
        (0..args.iters(3000, 200000)).map(|i| generate(&mut base.fork(i as u64), drivers[i % drivers.len()])).collect()
    };
    for p in progs {
        if rep.out_of_time() {
            break;
        }
        match panics::catch(|| run_prog(&p)) {
            Ok(Ok((viol, sig))) => {
                if viol.is_empty() {
                    rep.eval(Some(sig));
                    if rep.want_sample() {
                        rep.sample(p.to_json());
                    }
                } else {
                    rep.eval(None);
                    let mut seen = std::collections::HashSet::new();
                    for (s, w) in viol {
                        if seen.insert(s.clone()) {
                            rep.violation(&s, &w, p.to_json());
                        }
                    }
                }
            }
            Ok(Err(e)) => {
                rep.eval(None);
                rep.inconclusive(&e);
            }
            Err(pi) => {
                rep.eval(None);
                match pi.origin() {
                    panics::Origin::Repo(_) => rep.violation(
                        &format!("C10/pool-buffer/{}/{}", pi.sig(), p.driver),
                        &format!("panic in compio at {}:{}: {}", pi.file, pi.line, pi.message),
                        p.to_json(),
                    ),
                    o => rep.inconclusive(&format!("harness panic {o:?}: {}", pi.message)),
                }
            }
        }
    }
    rep.finish();
}
