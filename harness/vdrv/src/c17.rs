//! C17 (runtime level) — the blocking pool is bounded and loses nothing.
//!
//! 1–4 runtimes (threads), each with its own proactor but sharing one
//! `AsyncifyPool`, submit blocking jobs through `spawn_blocking` and through
//! thread-pool-routed operations. Every job has an id; on entry it bumps a
//! global `running` gauge (recording the maximum and its OS thread), on exit
//! it decrements it. Oracle: every submitted job ran exactly once; its own
//! result (or its own panic payload) reaches its own submitter; the gauge
//! never exceeds the pool's thread limit; after the idle timeout the workers
//! have retired (thread census) and a later job still runs.
//!
//! Two further shapes: jobs handed to `AsyncifyPool::dispatch` directly that
//! panic *inside the pool worker* (nothing catches them before the worker):
//! afterwards the pool must not count threads that no longer exist (a
//! dispatch that is refused while the thread census shows no pool thread is a
//! leaked slot); and a `Dispatcher` built from a proactor builder that only
//! sets `thread_pool_limit`: blocking work arriving through
//! `Dispatcher::dispatch_blocking` and through `spawn_blocking` inside its
//! worker runtimes at the same time must respect the one configured limit.

use std::{
    collections::HashSet,
    sync::{
        Arc, Mutex,
        atomic::{AtomicUsize, Ordering},
    },
    time::{Duration, Instant},
};

use compio_driver::{AsyncifyPool, DriverType, ProactorBuilder};
use compio_runtime::{JoinError, Runtime};
use vcommon::{Args, Report, Rng, Value, json, panics};

#[derive(Debug, Clone)]
struct Prog {
    driver: &'static str,
    limit: usize,
    idle_ms: u64,
    runtimes: usize,
    jobs: usize,
    /// job body: 0 immediate, 1 spin 50us, 2 sleep 1ms, 3 panic
    bodies: Vec<u8>,
    idle_phase: bool,
    /// jobs dispatched directly on the pool that panic inside the worker thread
    direct_panics: usize,
    /// run through a `Dispatcher` (default pool creation) instead of hand-built runtimes
    dispatcher: bool,
}

impl Prog {
    fn to_json(&self) -> Value {
        json!({"driver": self.driver, "limit": self.limit, "idle_ms": self.idle_ms, "runtimes": self.runtimes,
               "jobs": self.jobs, "bodies": self.bodies, "idle_phase": self.idle_phase,
               "direct_panics": self.direct_panics, "dispatcher": self.dispatcher})
    }

    fn from_json(v: &Value) -> Option<Prog> {
        Some(Prog {
            driver: if v["driver"].as_str()? == "poll" { "poll" } else { "iour" },
            limit: v["limit"].as_u64()? as usize,
            idle_ms: v["idle_ms"].as_u64()?,
            runtimes: v["runtimes"].as_u64()? as usize,
            jobs: v["jobs"].as_u64()? as usize,
            bodies: v["bodies"].as_array()?.iter().filter_map(|x| x.as_u64().map(|x| x as u8)).collect(),
            idle_phase: v["idle_phase"].as_bool().unwrap_or(false),
            direct_panics: v["direct_panics"].as_u64().unwrap_or(0) as usize,
            dispatcher: v["dispatcher"].as_bool().unwrap_or(false),
        })
    }
}

fn generate(rng: &mut Rng, driver: &'static str) -> Prog {
    let jobs = rng.range(1, 60);
    let limit = rng.range(1, 8);
    Prog {
        driver,
        limit,
        idle_ms: *rng.pick(&[5u64, 20, 50]),
        runtimes: rng.range(1, 4),
        jobs,
        bodies: (0..jobs).map(|_| *rng.pick(&[0u8, 0, 1, 1, 2, 3])).collect(),
        idle_phase: rng.chance(1, 3),
        direct_panics: if rng.chance(1, 3) { rng.range(1, limit + 2) } else { 0 },
        dispatcher: rng.chance(1, 4),
    }
}

struct Gauge {
    running: AtomicUsize,
    max: AtomicUsize,
    runs: Mutex<Vec<usize>>,
    threads: Mutex<HashSet<u64>>,
}

fn tid() -> u64 {
    unsafe { libc::gettid() as u64 }
}

fn thread_count() -> usize {
    std::fs::read_dir("/proc/self/task").map(|d| d.count()).unwrap_or(0)
}

/// The gauge job every route runs.
fn gauge_job(gauge: &Gauge, j: usize, body: u8) -> usize {
    let now = gauge.running.fetch_add(1, Ordering::SeqCst) + 1;
    gauge.max.fetch_max(now, Ordering::SeqCst);
    gauge.threads.lock().unwrap().insert(tid());
    gauge.runs.lock().unwrap()[j] += 1;
    match body {
        1 => {
            let t = Instant::now();
            while t.elapsed() < Duration::from_micros(50) {
                std::hint::spin_loop();
            }
        }
        _ => std::thread::sleep(Duration::from_millis(1)),
    }
    gauge.running.fetch_sub(1, Ordering::SeqCst);
    j * 7 + 1
}

/// Blocking work through a `Dispatcher` whose pool is created by default from `thread_pool_limit`:
/// `dispatch_blocking` and `spawn_blocking` inside the worker runtimes, all in flight together.
fn run_dispatcher(p: &Prog) -> Result<(Vec<(String, String)>, String), String> {
    use compio_dispatcher::Dispatcher;
    use compio_driver::DispatchError;
    let gauge = Arc::new(Gauge {
        running: AtomicUsize::new(0),
        max: AtomicUsize::new(0),
        runs: Mutex::new(vec![0; p.jobs]),
        threads: Mutex::new(HashSet::new()),
    });
    let mut pb = ProactorBuilder::new();
    pb.driver_type(if p.driver == "poll" { DriverType::Poll } else { DriverType::IoUring });
    pb.thread_pool_limit(p.limit);
    pb.thread_pool_recv_timeout(Duration::from_millis(p.idle_ms));
    let disp = Dispatcher::builder()
        .worker_threads(std::num::NonZeroUsize::new(p.runtimes.max(1)).unwrap())
        .proactor_builder(pb)
        .build()
        .map_err(|e| format!("dispatcher: {e}"))?;
    let mut viol: Vec<(String, String)> = Vec::new();
    let mut rxs = Vec::new();
    let t0 = Instant::now();
    for j in 0..p.jobs {
        let body = if p.bodies[j] == 1 { 1 } else { 2 };
        if j % 2 == 0 {
            // through a worker runtime: spawn_blocking
            let g = gauge.clone();
            match disp.dispatch(move || async move {
                match compio_runtime::spawn_blocking(move || gauge_job(&g, j, body)).await {
                    Ok(v) => v,
                    Err(_) => usize::MAX,
                }
            }) {
                Ok(rx) => rxs.push((j, rx)),
                Err(_) => return Err("dispatch refused".into()),
            }
        } else {
            // directly on the dispatcher's pool; refused while saturated: try again
            let g = gauge.clone();
            let mut f = Some(move || gauge_job(&g, j, body));
            loop {
                match disp.dispatch_blocking(f.take().unwrap()) {
                    Ok(rx) => {
                        rxs.push((j, rx));
                        break;
                    }
                    Err(DispatchError(back)) => f = Some(back),
                }
                if t0.elapsed() > Duration::from_secs(20) {
                    return Err("dispatch_blocking refused for 20 s".into());
                }
                std::thread::yield_now();
            }
        }
    }
    let res = futures_executor::block_on(async {
        let mut out = Vec::new();
        for (j, rx) in rxs {
            out.push((j, rx.await));
        }
        let _ = disp.join().await;
        out
    });
    for (j, r) in res {
        match r {
            Ok(v) if v == j * 7 + 1 => {}
            Ok(v) => viol.push(("C17/swapped-result/dispatcher".into(), format!("job {j} returned {v}, its own value is {}", j * 7 + 1))),
            Err(_) => viol.push(("C17/job-lost/dispatcher".into(), format!("job {j}: result channel closed without a result"))),
        }
    }
    for (j, n) in gauge.runs.lock().unwrap().iter().enumerate() {
        if *n != 1 {
            viol.push((format!("C17/ran-{}-times/dispatcher", if *n == 0 { "zero" } else { "several" }), format!("job {j} ran {n} times")));
        }
    }
    let max = gauge.max.load(Ordering::SeqCst);
    if max > p.limit {
        viol.push((format!("C17/running-exceeds-limit/{}/dispatcher", p.driver),
            format!("{max} blocking jobs were running at once (dispatch_blocking + spawn_blocking inside the workers) with thread_pool_limit {}", p.limit)));
    }
    let sat = if max >= p.limit { "saturated" } else { "below-limit" };
    Ok((viol, format!("{}|limit{}|workers{}|{}|dispatcher", p.driver, p.limit, p.runtimes, sat)))
}

fn run_prog(p: &Prog) -> Result<(Vec<(String, String)>, String), String> {
    if p.dispatcher {
        return run_dispatcher(p);
    }
    let pool = AsyncifyPool::new(p.limit, Duration::from_millis(p.idle_ms));
    let gauge = Arc::new(Gauge {
        running: AtomicUsize::new(0),
        max: AtomicUsize::new(0),
        runs: Mutex::new(vec![0; p.jobs]),
        threads: Mutex::new(HashSet::new()),
    });
    let threads_before = thread_count();
    let viol: Arc<Mutex<Vec<(String, String)>>> = Arc::new(Mutex::new(Vec::new()));
    let mut hs = Vec::new();
    for r in 0..p.runtimes {
        let pool = pool.clone();
        let gauge = gauge.clone();
        let viol = viol.clone();
        let p = p.clone();
        hs.push(std::thread::spawn(move || -> Result<(), String> {
            let mut pb = ProactorBuilder::new();
            pb.driver_type(if p.driver == "poll" { DriverType::Poll } else { DriverType::IoUring });
            pb.reuse_thread_pool(pool);
            let rt = Runtime::builder().with_proactor(pb).build().map_err(|e| e.to_string())?;
            rt.block_on(async {
                let mut handles = Vec::new();
                for j in (r..p.jobs).step_by(p.runtimes) {
                    let gauge = gauge.clone();
                    let body = p.bodies[j];
                    handles.push((j, body, compio_runtime::spawn_blocking(move || {
                        let now = gauge.running.fetch_add(1, Ordering::SeqCst) + 1;
                        gauge.max.fetch_max(now, Ordering::SeqCst);
                        gauge.threads.lock().unwrap().insert(tid());
                        gauge.runs.lock().unwrap()[j] += 1;
                        match body {
                            1 => {
                                let t = Instant::now();
                                while t.elapsed() < Duration::from_micros(50) {
                                    std::hint::spin_loop();
                                }
                            }
                            2 => std::thread::sleep(Duration::from_millis(1)),
                            _ => {}
                        }
                        gauge.running.fetch_sub(1, Ordering::SeqCst);
                        if body == 3 {
                            std::panic::panic_any(j + 1_000_000);
                        }
                        j * 7 + 1
                    })));
                }
                for (j, body, h) in handles {
                    match h.await {
                        Ok(v) => {
                            if body == 3 {
                                viol.lock().unwrap().push(("C17/panic-lost/spawn_blocking".into(), format!("job {j} panicked but its submitter got Ok({v})")));
                            } else if v != j * 7 + 1 {
                                viol.lock().unwrap().push(("C17/swapped-result/spawn_blocking".into(), format!("job {j} returned {v}, its own value is {}", j * 7 + 1)));
                            }
                        }
                        Err(JoinError::Panicked(payload)) => {
                            let got = payload.downcast_ref::<usize>().copied();
                            if body != 3 {
                                viol.lock().unwrap().push(("C17/spurious-panic/spawn_blocking".into(), format!("job {j} did not panic but its submitter got a panic")));
                            } else if got != Some(j + 1_000_000) {
                                viol.lock().unwrap().push(("C17/swapped-panic/spawn_blocking".into(), format!("job {j}: panic payload {got:?} is not its own")));
                            }
                        }
                        Err(JoinError::Cancelled) => {
                            viol.lock().unwrap().push(("C17/job-lost/spawn_blocking".into(), format!("job {j} was reported cancelled")));
                        }
                    }
                }
            });
            Ok(())
        }));
    }
    for h in hs {
        match h.join() {
            Ok(Ok(())) => {}
            Ok(Err(e)) => return Err(e),
            Err(_) => return Err("runtime thread panicked".into()),
        }
    }
    let mut viol = std::mem::take(&mut *viol.lock().unwrap());
    let ctx = format!("{}/limit{}", p.driver, if p.runtimes > 1 { "-shared" } else { "" });
    for (j, n) in gauge.runs.lock().unwrap().iter().enumerate() {
        if *n != 1 {
            viol.push((format!("C17/ran-{}-times/{ctx}", if *n == 0 { "zero".to_string() } else { "several".to_string() }), format!("job {j} ran {n} times")));
        }
    }
    let max = gauge.max.load(Ordering::SeqCst);
    if max > p.limit {
        viol.push((format!("C17/running-exceeds-limit/{ctx}"), format!("{max} jobs were running at once with thread_limit {}", p.limit)));
    }
    // jobs that panic inside the pool worker itself
    for k in 0..p.direct_panics {
        let mut f = Some(move || {
            std::panic::panic_any(k + 2_000_000);
        });
        let t0 = Instant::now();
        loop {
            match pool.dispatch(f.take().unwrap()) {
                Ok(()) => break,
                Err(e) => f = Some(e.0),
            }
            if thread_count() <= threads_before && t0.elapsed() > Duration::from_millis(200) {
                // refused although no pool thread exists: decided below
                break;
            }
            if t0.elapsed() > Duration::from_secs(5) {
                break;
            }
            std::thread::yield_now();
        }
    }
    let mut retired = "not-checked";
    if p.direct_panics > 0 {
        // once the census shows no pool thread, the pool must accept work again
        let t0 = Instant::now();
        while thread_count() > threads_before && t0.elapsed() < Duration::from_millis(p.idle_ms * 20 + 3000) {
            std::thread::sleep(Duration::from_millis(2));
        }
        if thread_count() > threads_before {
            return Err("pool threads did not exit after panicking jobs (census)".into());
        }
        let ran = Arc::new(AtomicUsize::new(0));
        let mut refused = 0;
        let mut accepted = false;
        for _ in 0..50 {
            let r2 = ran.clone();
            match pool.dispatch(move || {
                r2.fetch_add(1, Ordering::SeqCst);
            }) {
                Ok(()) => {
                    accepted = true;
                    break;
                }
                Err(_) => {
                    refused += 1;
                    if thread_count() > threads_before {
                        // somebody else's thread appeared: the census is not ours alone
                        return Err("thread census changed during the saturation check".into());
                    }
                    std::thread::sleep(Duration::from_millis(2));
                }
            }
        }
        if !accepted {
            viol.push((format!("C17/slot-leaked-by-panicking-job/{ctx}"),
                format!("after {} jobs panicked inside pool workers the pool refused {refused} dispatches in a row although no pool thread exists (thread census): \
                         the slots of the dead workers were never given back", p.direct_panics)));
        } else {
            let t0 = Instant::now();
            while ran.load(Ordering::SeqCst) == 0 && t0.elapsed() < Duration::from_secs(10) {
                std::thread::sleep(Duration::from_millis(1));
            }
            if ran.load(Ordering::SeqCst) == 0 {
                return Err("a job accepted after the panics did not run within 10 s".into());
            }
        }
    }
    if p.idle_phase {
        // after the idle timeout the workers have retired (bounded wait, census only)
        let t0 = Instant::now();
        loop {
            if thread_count() <= threads_before {
                retired = "retired";
                break;
            }
            if t0.elapsed() > Duration::from_millis(p.idle_ms * 20 + 500) {
                retired = "not-retired";
                break;
            }
            std::thread::sleep(Duration::from_millis(2));
        }
        // a later job still runs: accepted (a refusal counts only while the census shows that
        // no pool thread exists) and executed exactly once; wall-clock expiry is no verdict
        let ran = Arc::new(AtomicUsize::new(0));
        let r2 = ran.clone();
        let mut f = Some(move || {
            r2.fetch_add(1, Ordering::SeqCst);
        });
        let t0 = Instant::now();
        let mut refused_without_threads = 0;
        let mut accepted = false;
        while t0.elapsed() < Duration::from_secs(10) {
            match pool.dispatch(f.take().unwrap()) {
                Ok(()) => {
                    accepted = true;
                    break;
                }
                Err(e) => f = Some(e.0),
            }
            if thread_count() <= threads_before {
                refused_without_threads += 1;
                if refused_without_threads >= 50 {
                    break;
                }
            } else {
                refused_without_threads = 0;
            }
            std::thread::sleep(Duration::from_millis(2));
        }
        if !accepted && refused_without_threads >= 50 {
            viol.push((format!("C17/job-after-retirement-refused/{ctx}"),
                "after the idle period the pool refused 50 dispatches in a row although no pool thread exists (thread census)".to_string()));
        } else if !accepted {
            return Err("pool refused work for 10 s after the idle period while pool threads exist".into());
        } else {
            let t0 = Instant::now();
            while ran.load(Ordering::SeqCst) == 0 && t0.elapsed() < Duration::from_secs(10) {
                std::thread::sleep(Duration::from_millis(1));
            }
            match ran.load(Ordering::SeqCst) {
                1 => {}
                0 => return Err("a job accepted after the idle period did not run within 10 s".into()),
                n => viol.push((format!("C17/job-after-retirement-ran-several-times/{ctx}"), format!("a job dispatched after the idle period ran {n} times"))),
            }
        }
    }
    let sat = if max >= p.limit { "saturated" } else { "below-limit" };
    let sig = format!("{}|limit{}|rt{}|{}|{}|panic{}|workerpanic{}", p.driver, p.limit, p.runtimes, sat, retired, p.bodies.contains(&3) as u8, (p.direct_panics > 0) as u8);
    Ok((viol, sig))
}

pub fn main(args: &Args) {
    // the jobs' deliberate panics (usize payloads) must not flood stderr
    vcommon::panics::install_hook();
    let prev = std::panic::take_hook();
    std::panic::set_hook(Box::new(move |info| {
        if !info.payload().is::<usize>() {
            prev(info)
        }
    }));
    let mut rep = Report::from_args("C17", &args.str("leg", "rt"), args);
    let drivers: Vec<&'static str> = match args.get("driver") {
        Some("poll") => vec!["poll"],
        Some("iour") => vec!["iour"],
        _ => vec!["iour", "poll"],
    };
    let progs: Vec<Prog> = if let Some(path) = args.get("replay") {
        let text = std::fs::read_to_string(path).expect("replay file");
        let v: Value = vcommon::serde_json::from_str(&text).expect("json");
        match Prog::from_json(&v["program"]) {
            Some(p) => vec![p; args.usize("repeat", 50)],
            None => {
                rep.inconclusive("replay file has no program");
                rep.finish();
                return;
            }
        }
    } else {
        let base = Rng::new(args.seed()).fork(args.shard() + 1);
        (0..args.iters(150, 10000)).map(|i| generate(&mut base.fork(i as u64), drivers[i % drivers.len()])).collect()
    };
    for p in progs {
        if rep.out_of_time() {
            break;
        }
        match panics::catch(|| run_prog(&p)) {
            Ok(Ok((viol, sig))) => {
                rep.floor("pool-saturated", sig.contains("saturated"));
                rep.floor("retirement-seen", sig.contains("|retired|"));
                if viol.is_empty() {
                    rep.eval(if sig.contains("saturated") { Some(sig) } else { None });
                    if rep.want_sample() {
                        rep.sample(p.to_json());
                    }
                } else {
                    rep.eval(None);
                    let mut seen = HashSet::new();
                    for (s, w) in viol {
                        if seen.insert(s.clone()) {
                            rep.violation(&s, &w, p.to_json());
                        }
                    }
                }
            }
            Ok(Err(e)) => {
                rep.eval(None);
                rep.inconclusive(&e);
            }
            Err(pi) => {
                rep.eval(None);
                match pi.origin() {
                    panics::Origin::Repo(_) => rep.violation(
                        &format!("C17/{}/{}", pi.sig(), p.driver),
                        &format!("panic in compio at {}:{}: {}", pi.file, pi.line, pi.message),
                        p.to_json(),
                    ),
                    o => rep.inconclusive(&format!("harness panic {o:?}: {}", pi.message)),
                }
            }
        }
    }
    rep.finish();
}
