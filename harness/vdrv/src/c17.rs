//! C17 blocking pool bounded and loses nothing (runtime level) — not built yet.

use vcommon::Args;

pub fn main(_args: &Args) {
    eprintln!("c17: not implemented");
    std::process::exit(3);
}
