//! Quarantining canary allocator.
//!
//! While switched on, every freed block (up to a size limit) is filled with
//! a canary byte and parked instead of being returned to the system, so that
//! (a) nothing is handed out again at that address and (b) a later write into
//! the freed block — in practice the *kernel* completing an operation whose
//! storage or buffer was released too early, which ASan cannot see — shows up
//! as a changed canary at the next `scan()`.

use std::{
    alloc::{GlobalAlloc, Layout, System},
    sync::atomic::{AtomicBool, AtomicUsize, Ordering},
};

pub const CANARY: u8 = 0xC5;
const MAX_BLOCK: usize = 1 << 20;
const MAX_BLOCKS: usize = 1 << 18;
const MAX_BYTES: usize = 192 << 20;

pub struct Canary;

#[derive(Clone, Copy)]
struct Block {
    ptr: usize,
    size: usize,
    align: usize,
}

static ON: AtomicBool = AtomicBool::new(false);
static LOCK: AtomicBool = AtomicBool::new(false);
static mut BLOCKS: *mut Block = std::ptr::null_mut();
static mut NBLOCKS: usize = 0;
static BYTES: AtomicUsize = AtomicUsize::new(0);
static OVERFLOWED: AtomicUsize = AtomicUsize::new(0);

fn lock() {
    while LOCK
        .compare_exchange_weak(false, true, Ordering::Acquire, Ordering::Relaxed)
        .is_err()
    {
        std::hint::spin_loop();
    }
}

fn unlock() {
    LOCK.store(false, Ordering::Release);
}

unsafe impl GlobalAlloc for Canary {
    unsafe fn alloc(&self, layout: Layout) -> *mut u8 {
        unsafe { System.alloc(layout) }
    }

    unsafe fn alloc_zeroed(&self, layout: Layout) -> *mut u8 {
        unsafe { System.alloc_zeroed(layout) }
    }

    unsafe fn realloc(&self, ptr: *mut u8, layout: Layout, new_size: usize) -> *mut u8 {
        if !ON.load(Ordering::Relaxed) {
            return unsafe { System.realloc(ptr, layout, new_size) };
        }
        // never reuse in place while quarantining: allocate, copy, park the old block
        let new_layout = unsafe { Layout::from_size_align_unchecked(new_size, layout.align()) };
        let new = unsafe { System.alloc(new_layout) };
        if !new.is_null() {
            unsafe {
                std::ptr::copy_nonoverlapping(ptr, new, layout.size().min(new_size));
                self.dealloc(ptr, layout);
            }
        }
        new
    }

    unsafe fn dealloc(&self, ptr: *mut u8, layout: Layout) {
        if !ON.load(Ordering::Relaxed) || layout.size() == 0 || layout.size() > MAX_BLOCK {
            return unsafe { System.dealloc(ptr, layout) };
        }
        unsafe { std::ptr::write_bytes(ptr, CANARY, layout.size()) };
        lock();
        let ok = unsafe {
            if BLOCKS.is_null() {
                BLOCKS = System.alloc(Layout::array::<Block>(MAX_BLOCKS).unwrap()) as *mut Block;
            }
            if !BLOCKS.is_null()
                && NBLOCKS < MAX_BLOCKS
                && BYTES.load(Ordering::Relaxed) + layout.size() <= MAX_BYTES
            {
                *BLOCKS.add(NBLOCKS) = Block {
                    ptr: ptr as usize,
                    size: layout.size(),
                    align: layout.align(),
                };
                NBLOCKS += 1;
                BYTES.fetch_add(layout.size(), Ordering::Relaxed);
                true
            } else {
                false
            }
        };
        unlock();
        if !ok {
            OVERFLOWED.fetch_add(1, Ordering::Relaxed);
            unsafe { System.dealloc(ptr, layout) };
        }
    }
}

/// Switch quarantining on/off (off by default).
pub fn quarantine(on: bool) {
    ON.store(on, Ordering::SeqCst);
}

#[derive(Debug, Clone)]
pub struct Corruption {
    pub ptr: usize,
    pub size: usize,
    pub offset: usize,
    pub found: u8,
    pub changed: usize,
}

/// Re-read every parked block; report blocks whose canary changed.
pub fn scan() -> Vec<Corruption> {
    let mut out = Vec::new();
    // collect under the lock without allocating, then build the Vec outside
    let mut found = [(0usize, 0usize, 0usize, 0u8, 0usize); 16];
    let mut nfound = 0;
    lock();
    unsafe {
        for i in 0..NBLOCKS {
            let b = *BLOCKS.add(i);
            let s = std::slice::from_raw_parts(b.ptr as *const u8, b.size);
            let mut first = None;
            let mut changed = 0;
            for (j, x) in s.iter().enumerate() {
                if *x != CANARY {
                    changed += 1;
                    if first.is_none() {
                        first = Some((j, *x));
                    }
                }
            }
            if let Some((j, x)) = first
                && nfound < found.len()
            {
                found[nfound] = (b.ptr, b.size, j, x, changed);
                nfound += 1;
            }
        }
    }
    unlock();
    for f in &found[..nfound] {
        out.push(Corruption {
            ptr: f.0,
            size: f.1,
            offset: f.2,
            found: f.3,
            changed: f.4,
        });
    }
    out
}

/// Give every parked block back to the system (after a final `scan`).
pub fn release_all() {
    lock();
    unsafe {
        for i in 0..NBLOCKS {
            let b = *BLOCKS.add(i);
            System.dealloc(
                b.ptr as *mut u8,
                Layout::from_size_align_unchecked(b.size, b.align),
            );
        }
        NBLOCKS = 0;
    }
    BYTES.store(0, Ordering::Relaxed);
    unlock();
}

pub fn stats() -> (usize, usize, usize) {
    lock();
    let n = unsafe { NBLOCKS };
    unlock();
    (n, BYTES.load(Ordering::Relaxed), OVERFLOWED.load(Ordering::Relaxed))
}
