//! Offline checker over the recorded event log (hooks in compio-driver plus
//! harness-side events on the same sequence counter). One pass, linear.
//!
//! kernel-held(op): from `Submit{route 0}` until the CQE *without*
//! `IORING_CQE_F_MORE` for its user_data, or `RingClosed` of its driver.
//! pool-held(op): from `BlockingBegin` to `BlockingEnd`.

use std::collections::HashMap;

use compio_driver::verif::{Event, Kind};

use super::ev;

const CQE_F_MORE: u64 = 1 << 1;

#[derive(Debug, Clone)]
pub struct Finding {
    pub rule: &'static str,
    pub ty: String,
    pub what: String,
    pub seq: u64,
}

#[derive(Debug, Default, Clone)]
pub struct OpSt {
    pub op_id: u64,
    pub addr: u64,
    pub ty: String,
    pub route: Option<u64>,
    pub driver: Option<u64>,
    pub kernel_held: bool,
    pub queued: bool,
    pub pool_held: bool,
    pub pool_submitted: bool,
    pub finals: u32,
    pub final_ok: Option<(bool, i64)>,
    pub multi_items: u32,
    pub taken: bool,
    pub freed: u32,
    pub free_seq: u64,
    pub cancel_reqs: u32,
    pub cancel_sqes: u32,
    pub idx: Option<usize>,
    pub first_seq: u64,
    /// who let go first while the op was still held by the OS
    pub released_while_held: bool,
    pub freed_by_ring_close: bool,
    pub new_tid: u64,
}

#[derive(Debug, Default)]
pub struct LogSummary {
    pub findings: Vec<Finding>,
    pub ops: Vec<OpSt>,
    pub kinds: HashMap<&'static str, u64>,
    pub fd_closed: HashMap<u64, u32>,
    pub poll_enters: Vec<(u64, u64)>,
    pub wakes: (u64, u64),
}

pub fn short_type(full: &str) -> String {
    let head = full.split('<').next().unwrap_or(full);
    head.rsplit("::").next().unwrap_or(head).to_string()
}

fn kind_name(k: Kind) -> &'static str {
    match k {
        Kind::OpNew => "OpNew",
        Kind::Submit => "Submit",
        Kind::Cqe => "Cqe",
        Kind::Final => "Final",
        Kind::Taken => "Taken",
        Kind::OpFree => "OpFree",
        Kind::CancelReq => "CancelReq",
        Kind::CancelSqe => "CancelSqe",
        Kind::BlockingBegin => "BlockingBegin",
        Kind::BlockingEnd => "BlockingEnd",
        Kind::DriverNew => "DriverNew",
        Kind::RingClosed => "RingClosed",
        Kind::DriverDropEnd => "DriverDropEnd",
        Kind::PollEnter => "PollEnter",
        Kind::PollExit => "PollExit",
        Kind::FlushExit => "FlushExit",
        Kind::Wake => "Wake",
        Kind::CancelFlag => "CancelFlag",
        Kind::MultiItem => "MultiItem",
        Kind::Requeue => "Requeue",
        Kind::Pool => "Pool",
        Kind::User => "User",
    }
}

/// `expect_all_freed`: the program dropped every key and the proactor and the
/// pool was quiescent, so every operation's storage must have been released.
pub fn check_log(events: &[Event], type_names: &[&'static str], expect_all_freed: bool) -> LogSummary {
    let mut s = LogSummary::default();
    let mut ops: HashMap<u64, OpSt> = HashMap::new();
    let mut live: HashMap<u64, u64> = HashMap::new();
    let mut closed_rings: HashMap<u64, bool> = HashMap::new();
    let mut idx_to_op: HashMap<usize, u64> = HashMap::new();
    let mut fd_users: HashMap<u64, Vec<usize>> = HashMap::new();
    let mut order: Vec<u64> = Vec::new();

    macro_rules! finding {
        ($rule:expr, $ty:expr, $seq:expr, $($arg:tt)*) => {
            s.findings.push(Finding { rule: $rule, ty: $ty, what: format!($($arg)*), seq: $seq })
        };
    }

    for e in events {
        *s.kinds.entry(kind_name(e.kind)).or_insert(0) += 1;
        match e.kind {
            Kind::OpNew => {
                let ty = type_names
                    .get(e.c.max(0) as usize)
                    .map(|t| short_type(t))
                    .unwrap_or_else(|| "?".into());
                if let Some(old) = live.get(&e.b) {
                    finding!("storage-address-reused-while-live", ty.clone(), e.seq,
                        "new operation {} allocated at {:#x} while operation {} still lives there", e.a, e.b, old);
                }
                live.insert(e.b, e.a);
                order.push(e.a);
                ops.insert(e.a, OpSt { op_id: e.a, addr: e.b, ty, first_seq: e.seq, new_tid: e.tid, ..Default::default() });
            }
            Kind::Submit => {
                let Some(op) = live.get(&e.a).and_then(|id| ops.get_mut(id)) else {
                    finding!("submit-unknown-op", "?".into(), e.seq, "Submit for address {:#x} with no live operation", e.a);
                    continue;
                };
                op.route = Some(e.b);
                op.driver = Some((e.c as u64) >> 32);
                match e.b {
                    0 => op.kernel_held = true,
                    1 => op.queued = true,
                    _ => op.pool_submitted = true,
                }
            }
            Kind::Cqe => {
                if e.a >= u64::MAX - 1 {
                    continue;
                }
                let Some(op) = live.get(&e.a).and_then(|id| ops.get_mut(id)) else {
                    finding!("dangling-user-data", "?".into(), e.seq,
                        "completion for user_data {:#x} (res {}) but no live operation has that address: storage was released before the OS finished", e.a, e.c);
                    continue;
                };
                if !op.kernel_held {
                    finding!("cqe-for-op-not-held", op.ty.clone(), e.seq,
                        "completion (res {}) for operation {} which the OS did not hold any more (second final completion?)", e.c, op.op_id);
                }
                if e.b & CQE_F_MORE == 0 {
                    op.kernel_held = false;
                }
            }
            Kind::MultiItem => {
                if let Some(op) = live.get(&e.a).and_then(|id| ops.get_mut(id)) {
                    op.multi_items += 1;
                }
            }
            Kind::Final => {
                let Some(op) = live.get(&e.a).and_then(|id| ops.get_mut(id)) else {
                    finding!("final-unknown-op", "?".into(), e.seq, "final result for address {:#x} with no live operation", e.a);
                    continue;
                };
                op.finals += 1;
                op.queued = false;
                if op.finals > 1 {
                    finding!("two-final-outcomes", op.ty.clone(), e.seq,
                        "operation {} received {} final results", op.op_id, op.finals);
                }
                if op.kernel_held {
                    finding!("final-while-kernel-held", op.ty.clone(), e.seq,
                        "operation {} got its final result while the OS still holds it (non-final completion treated as final)", op.op_id);
                }
                op.final_ok = Some((e.b != 0, e.c));
            }
            Kind::Taken => {
                if let Some(op) = ops.get_mut(&e.a) {
                    op.taken = true;
                    if op.finals == 0 {
                        finding!("taken-before-final", op.ty.clone(), e.seq, "operation {} handed back before its final result", op.op_id);
                    }
                    if op.kernel_held {
                        finding!("handed-back-while-kernel-held", op.ty.clone(), e.seq,
                            "operation {} (buffer included) handed back to the submitter while the OS still holds it", op.op_id);
                    }
                    if op.pool_held {
                        finding!("handed-back-while-pool-held", op.ty.clone(), e.seq,
                            "operation {} handed back while a pool thread still runs it", op.op_id);
                    }
                }
            }
            Kind::OpFree => {
                if let Some(op) = ops.get_mut(&e.a) {
                    op.freed += 1;
                    op.free_seq = e.seq;
                    if e.tid != op.new_tid {
                        // keys are not thread-safe (unsync reference counts, thread-bound
                        // descriptors inside): releasing one on another thread races with
                        // whatever the owner thread still shares with it
                        finding!("released-on-foreign-thread", "pool-job".to_string(), e.seq,
                            "operation {} ({}) was created on thread {} but its storage (and what it holds: buffer, descriptor handle) was released on thread {}", op.op_id, op.ty, op.new_tid, e.tid);
                    }
                    if op.freed > 1 {
                        finding!("freed-twice", op.ty.clone(), e.seq, "operation {} released {} times", op.op_id, op.freed);
                    }
                    let ring_closed = op.driver.and_then(|d| closed_rings.get(&d).copied()).unwrap_or(false);
                    if op.kernel_held && !ring_closed {
                        finding!("freed-while-kernel-held", op.ty.clone(), e.seq,
                            "storage of operation {} ({}) released while the OS may still complete it (no final completion seen, ring not closed)", op.op_id, op.ty);
                    }
                    if op.kernel_held && ring_closed {
                        op.freed_by_ring_close = true;
                    }
                    if op.pool_held {
                        finding!("freed-while-pool-held", op.ty.clone(), e.seq,
                            "storage of operation {} released while a pool thread is still running it", op.op_id);
                    }
                    if live.get(&op.addr) == Some(&op.op_id) {
                        live.remove(&op.addr);
                    }
                }
            }
            Kind::BlockingBegin => {
                if let Some(op) = live.get(&e.a).and_then(|id| ops.get_mut(id)) {
                    op.pool_held = true;
                }
                // (an unknown address here is a late job of an earlier program whose
                // proactor is long gone; it cannot be told apart, so it is not judged)
            }
            Kind::BlockingEnd => {
                if let Some(op) = live.get(&e.a).and_then(|id| ops.get_mut(id)) {
                    op.pool_held = false;
                    op.pool_submitted = false;
                }
            }
            Kind::RingClosed => {
                closed_rings.insert(e.a, true);
                for op in ops.values_mut() {
                    if op.driver == Some(e.a) && op.kernel_held {
                        // the kernel is done with it once close() returned
                        op.freed_by_ring_close = true;
                    }
                }
            }
            Kind::CancelReq => {
                if let Some(op) = live.get(&e.a).and_then(|id| ops.get_mut(id)) {
                    op.cancel_reqs += 1;
                }
            }
            Kind::CancelSqe => {
                if let Some(op) = live.get(&e.a).and_then(|id| ops.get_mut(id)) {
                    op.cancel_sqes += 1;
                }
            }
            Kind::PollEnter => s.poll_enters.push((e.seq, e.b)),
            Kind::Wake => {
                if e.b != 0 {
                    s.wakes.1 += 1
                } else {
                    s.wakes.0 += 1
                }
            }
            Kind::User => match e.a {
                ev::PUSHED => {
                    if let Some(id) = live.get(&(e.c as u64)) {
                        idx_to_op.insert(e.b as usize, *id);
                        if let Some(op) = ops.get_mut(id) {
                            op.idx = Some(e.b as usize);
                        }
                    }
                }
                ev::OP_USES_FD => fd_users.entry(e.c as u64).or_default().push(e.b as usize),
                ev::KEY_DROPPED => {
                    if let Some(op) = idx_to_op.get(&(e.b as usize)).and_then(|id| ops.get_mut(id))
                        && (op.kernel_held || op.pool_held || op.queued)
                    {
                        op.released_while_held = true;
                    }
                }
                ev::FD_CLOSED => {
                    *s.fd_closed.entry(e.b).or_insert(0) += 1;
                    for idx in fd_users.get(&e.b).cloned().unwrap_or_default() {
                        let Some(op) = idx_to_op.get(&idx).and_then(|id| ops.get(id)) else { continue };
                        let ring_closed = op.driver.and_then(|d| closed_rings.get(&d).copied()).unwrap_or(false);
                        if op.kernel_held && !ring_closed {
                            finding!("fd-closed-while-kernel-held", op.ty.clone(), e.seq,
                                "descriptor {} closed while operation {} on it is still held by the OS", e.b, op.op_id);
                        }
                        if op.pool_held {
                            finding!("fd-closed-while-pool-held", op.ty.clone(), e.seq,
                                "descriptor {} closed while a pool thread still runs operation {} on it", e.b, op.op_id);
                        }
                        if op.queued && op.freed == 0 && op.finals == 0 {
                            finding!("fd-closed-while-queued", op.ty.clone(), e.seq,
                                "descriptor {} closed while operation {} still waits for its readiness", e.b, op.op_id);
                        }
                    }
                }
                _ => {}
            },
            _ => {}
        }
    }
    if expect_all_freed {
        for id in &order {
            let op = &ops[id];
            if op.freed == 0 {
                finding!("never-released", op.ty.clone(), op.first_seq,
                    "operation {} ({}, route {:?}, finals {}) was never released although every handle and the proactor are gone",
                    op.op_id, op.ty, op.route, op.finals);
            }
        }
    }
    s.ops = order.iter().map(|id| ops[id].clone()).collect();
    s
}

/// Render a slice of the log for replay files / samples.
pub fn render(events: &[Event], type_names: &[&'static str], max: usize) -> Vec<String> {
    events
        .iter()
        .take(max)
        .map(|e| {
            let extra = if e.kind == Kind::OpNew {
                type_names.get(e.c.max(0) as usize).map(|t| short_type(t)).unwrap_or_default()
            } else {
                String::new()
            };
            format!("{} t{} {} a={:#x} b={:#x} c={} {}", e.seq, e.tid, kind_name(e.kind), e.a, e.b, e.c, extra)
        })
        .collect()
}

#[cfg(test)]
mod tests {
    use super::*;

    fn e(seq: u64, kind: Kind, a: u64, b: u64, c: i64) -> Event {
        Event { seq, tid: 1, kind, a, b, c }
    }

    #[test]
    fn good_trace_is_silent() {
        let ev = vec![
            e(1, Kind::OpNew, 1, 0x1000, 0),
            e(2, Kind::Submit, 0x1000, 0, 1 << 32),
            e(3, Kind::Cqe, 0x1000, 0, 5),
            e(4, Kind::Final, 0x1000, 1, 5),
            e(5, Kind::Taken, 1, 0, 0),
            e(6, Kind::OpFree, 1, 0, 0),
        ];
        assert!(check_log(&ev, &["x::Read<a>"], true).findings.is_empty());
    }

    #[test]
    fn early_free_is_flagged() {
        let ev = vec![
            e(1, Kind::OpNew, 1, 0x1000, 0),
            e(2, Kind::Submit, 0x1000, 0, 1 << 32),
            e(3, Kind::OpFree, 1, 0, 0),
            e(4, Kind::Cqe, 0x1000, 0, 5),
        ];
        let f = check_log(&ev, &["x::Read<a>"], true).findings;
        assert!(f.iter().any(|f| f.rule == "freed-while-kernel-held"));
        assert!(f.iter().any(|f| f.rule == "dangling-user-data"));
    }

    #[test]
    fn ring_close_releases() {
        let ev = vec![
            e(1, Kind::OpNew, 1, 0x1000, 0),
            e(2, Kind::Submit, 0x1000, 0, 7 << 32),
            e(3, Kind::RingClosed, 7, 0, 0),
            e(4, Kind::OpFree, 1, 0, 0),
        ];
        assert!(check_log(&ev, &["x::Read<a>"], true).findings.is_empty());
    }

    #[test]
    fn leak_is_flagged() {
        let ev = vec![e(1, Kind::OpNew, 1, 0x1000, 0)];
        assert!(check_log(&ev, &["x"], true).findings.iter().any(|f| f.rule == "never-released"));
    }
}
