//! Driver-level machinery shared by C01, C02, C05 (and C06/C07 legs): canary
//! allocator, probe descriptors, the event-log checker and the operation soup.

pub mod alloc;
pub mod check;
pub mod soup;

use std::{
    os::fd::{AsFd, AsRawFd, BorrowedFd, FromRawFd, OwnedFd, RawFd},
    sync::atomic::{AtomicU64, Ordering},
};

use compio_driver::verif;

/// Harness-side event codes (`Kind::User`, field `a`).
pub mod ev {
    /// b = fd_id, c = raw fd
    pub const FD_CLOSED: u64 = 1;
    /// b = op index
    pub const KEY_DROPPED: u64 = 2;
    /// b = op index
    pub const MADE_READY: u64 = 3;
    pub const PROACTOR_DROP_BEGIN: u64 = 4;
    pub const PROACTOR_DROP_END: u64 = 5;
    /// b = op index, c = addr (user_data) — emitted right after a push returned Pending
    pub const PUSHED: u64 = 6;
    /// b = op index
    pub const POPPED: u64 = 7;
    /// b = op index, c = fd_id: op `b` refers to descriptor `c`
    pub const OP_USES_FD: u64 = 8;
    /// b = program counter of the action about to run
    pub const ACTION: u64 = 9;
}

static FD_ID: AtomicU64 = AtomicU64::new(1);

/// An owned descriptor with identity whose real `close` is logged.
#[derive(Debug)]
pub struct ProbeFd {
    fd: Option<OwnedFd>,
    pub id: u64,
}

impl ProbeFd {
    pub fn new(fd: OwnedFd) -> Self {
        Self {
            fd: Some(fd),
            id: FD_ID.fetch_add(1, Ordering::Relaxed),
        }
    }

    pub fn raw(&self) -> RawFd {
        self.fd.as_ref().unwrap().as_raw_fd()
    }
}

impl AsFd for ProbeFd {
    fn as_fd(&self) -> BorrowedFd<'_> {
        self.fd.as_ref().unwrap().as_fd()
    }
}

impl Drop for ProbeFd {
    fn drop(&mut self) {
        if let Some(fd) = self.fd.take() {
            let raw = fd.as_raw_fd();
            // The event is taken *before* the close: from here on the number may be reused.
            verif::emit_user(ev::FD_CLOSED, self.id, raw as i64);
            drop(fd);
        }
    }
}

pub fn set_nonblocking(fd: RawFd, on: bool) {
    unsafe {
        let fl = libc::fcntl(fd, libc::F_GETFL);
        let fl = if on { fl | libc::O_NONBLOCK } else { fl & !libc::O_NONBLOCK };
        libc::fcntl(fd, libc::F_SETFL, fl);
    }
}

pub fn mk_pipe() -> (OwnedFd, OwnedFd) {
    let mut fds = [0 as RawFd; 2];
    let r = unsafe { libc::pipe2(fds.as_mut_ptr(), libc::O_CLOEXEC) };
    assert_eq!(r, 0, "pipe2 failed");
    unsafe { (OwnedFd::from_raw_fd(fds[0]), OwnedFd::from_raw_fd(fds[1])) }
}

pub fn mk_socketpair(ty: i32) -> (OwnedFd, OwnedFd) {
    let mut fds = [0 as RawFd; 2];
    let r = unsafe { libc::socketpair(libc::AF_UNIX, ty | libc::SOCK_CLOEXEC, 0, fds.as_mut_ptr()) };
    assert_eq!(r, 0, "socketpair failed");
    unsafe { (OwnedFd::from_raw_fd(fds[0]), OwnedFd::from_raw_fd(fds[1])) }
}

/// Is `fd` readable/writable right now (independent confirmation of readiness)?
pub fn poll_ready(fd: RawFd, events: i16) -> bool {
    let mut p = libc::pollfd {
        fd,
        events,
        revents: 0,
    };
    let r = unsafe { libc::poll(&mut p, 1, 0) };
    r > 0 && (p.revents & (events | libc::POLLHUP | libc::POLLERR)) != 0
}

pub fn write_all_fd(fd: RawFd, mut data: &[u8]) -> bool {
    while !data.is_empty() {
        let n = unsafe { libc::write(fd, data.as_ptr() as _, data.len()) };
        if n <= 0 {
            return false;
        }
        data = &data[n as usize..];
    }
    true
}

/// Position-dependent stream content: byte at offset `o` of stream `salt`.
pub fn pat(salt: u64, o: usize) -> u8 {
    let x = (o as u64)
        .wrapping_mul(0x9E37_79B9_7F4A_7C15)
        .wrapping_add(salt.wrapping_mul(0xD6E8_FEB8_6659_FD93));
    ((x >> 29) ^ (x >> 47)) as u8
}
