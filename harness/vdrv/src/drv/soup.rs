//! The operation soup: seeded programs over the `Proactor` API (full control
//! of the order of submit / readiness / poll / pop / cancel / key drop / token
//! / proactor drop), executed on either driver with tiny or large queues, and
//! judged by (1) the event-log checker, (2) the canary allocator, (3)
//! end-to-end data oracles with position-dependent stream content.

use std::{
    collections::HashMap,
    io,
    net::{TcpListener, TcpStream},
    os::fd::{AsRawFd, OwnedFd, RawFd},
    sync::mpsc,
    time::{Duration, Instant},
};

use compio_buf::{BufResult, IntoInner};
use compio_driver::{
    Cancel, DriverType, Key, Proactor, PushEntry, SharedFd,
    op::{Accept, Asyncify, Interest, PollOnce, Read, ReadAt, Recv, RecvMulti, SendZc, Write},
    verif,
};
use rustix::net::{RecvFlags, SendFlags};
use vcommon::{Args, Report, Rng, Value, json, panics};

use super::{ProbeFd, alloc, check, ev, mk_pipe, mk_socketpair, pat, poll_ready, set_nonblocking, write_all_fd};

type Fd = SharedFd<ProbeFd>;
type GateFn = Box<dyn FnOnce() -> BufResult<usize, ()> + Send>;

#[derive(Debug, Clone, Copy, PartialEq, Eq, Hash)]
pub enum K {
    PipeRead,
    SockRecv,
    Accept,
    PollOnce,
    ReadAt,
    WriteFull,
    SendZc,
    Asyncify,
    RecvMulti,
}

const KINDS: [K; 9] = [
    K::PipeRead,
    K::SockRecv,
    K::Accept,
    K::PollOnce,
    K::ReadAt,
    K::WriteFull,
    K::SendZc,
    K::Asyncify,
    K::RecvMulti,
];

impl K {
    fn name(self) -> &'static str {
        match self {
            K::PipeRead => "PipeRead",
            K::SockRecv => "SockRecv",
            K::Accept => "Accept",
            K::PollOnce => "PollOnce",
            K::ReadAt => "ReadAt",
            K::WriteFull => "WriteFull",
            K::SendZc => "SendZc",
            K::Asyncify => "Asyncify",
            K::RecvMulti => "RecvMulti",
        }
    }

    fn from_name(s: &str) -> Option<K> {
        KINDS.iter().copied().find(|k| k.name() == s)
    }

    /// Can several operations of this kind wait on one descriptor?
    fn shareable(self) -> bool {
        matches!(self, K::PipeRead | K::SockRecv)
    }

    /// Interruptible by cancellation (thread-pool jobs are documented as not).
    fn cancellable(self) -> bool {
        !matches!(self, K::Asyncify | K::ReadAt)
    }
}

#[derive(Debug, Clone)]
pub struct OpSpec {
    pub kind: K,
    /// buffer capacity / payload size
    pub size: usize,
    /// share the descriptor of an earlier op of the same kind
    pub share: Option<usize>,
    /// ... through a `dup` of it: another descriptor number (its own queue in the polling
    /// driver, its own registration) for the same pipe / socket, so that one arrival of
    /// data makes both ready and the loser finds nothing (spurious readiness)
    pub dup: bool,
}

#[derive(Debug, Clone, PartialEq, Eq)]
pub enum Act {
    Push(usize),
    /// produce what op i waits for; `n` bytes where meaningful
    Ready(usize, usize),
    /// poll with a timeout in ms
    Poll(u64),
    Pop(usize),
    Cancel(usize),
    DropKey(usize),
    /// register a cancel token for op i (before) and fire it
    Token(usize),
    /// fire a token a second time / after completion
    TokenAgain(usize),
    DropProactor,
}

#[derive(Debug, Clone)]
pub struct Program {
    pub driver: &'static str,
    pub cap: u32,
    pub pool_limit: usize,
    pub ops: Vec<OpSpec>,
    pub acts: Vec<Act>,
}

impl Program {
    pub fn to_json(&self) -> Value {
        json!({
            "driver": self.driver, "cap": self.cap, "pool_limit": self.pool_limit,
            "ops": self.ops.iter().map(|o| json!({"kind": o.kind.name(), "size": o.size, "share": o.share, "dup": o.dup})).collect::<Vec<_>>(),
            "acts": self.acts.iter().map(|a| match a {
                Act::Push(i) => json!(["push", i]),
                Act::Ready(i, n) => json!(["ready", i, n]),
                Act::Poll(ms) => json!(["poll", ms]),
                Act::Pop(i) => json!(["pop", i]),
                Act::Cancel(i) => json!(["cancel", i]),
                Act::DropKey(i) => json!(["dropkey", i]),
                Act::Token(i) => json!(["token", i]),
                Act::TokenAgain(i) => json!(["tokenagain", i]),
                Act::DropProactor => json!(["dropproactor"]),
            }).collect::<Vec<_>>(),
        })
    }

    pub fn from_json(v: &Value) -> Option<Program> {
        let driver = if v["driver"].as_str()? == "poll" { "poll" } else { "iour" };
        let ops = v["ops"]
            .as_array()?
            .iter()
            .map(|o| {
                Some(OpSpec {
                    kind: K::from_name(o["kind"].as_str()?)?,
                    size: o["size"].as_u64()? as usize,
                    share: o["share"].as_u64().map(|x| x as usize),
                    dup: o["dup"].as_bool().unwrap_or(false),
                })
            })
            .collect::<Option<Vec<_>>>()?;
        let acts = v["acts"]
            .as_array()?
            .iter()
            .map(|a| {
                let a = a.as_array()?;
                let n = |i: usize| a.get(i).and_then(|x| x.as_u64()).unwrap_or(0) as usize;
                Some(match a.first()?.as_str()? {
                    "push" => Act::Push(n(1)),
                    "ready" => Act::Ready(n(1), n(2)),
                    "poll" => Act::Poll(n(1) as u64),
                    "pop" => Act::Pop(n(1)),
                    "cancel" => Act::Cancel(n(1)),
                    "dropkey" => Act::DropKey(n(1)),
                    "token" => Act::Token(n(1)),
                    "tokenagain" => Act::TokenAgain(n(1)),
                    "dropproactor" => Act::DropProactor,
                    _ => return None,
                })
            })
            .collect::<Option<Vec<_>>>()?;
        Some(Program {
            driver,
            cap: v["cap"].as_u64()? as u32,
            pool_limit: v["pool_limit"].as_u64().unwrap_or(4) as usize,
            ops,
            acts,
        })
    }
}

// ---------------------------------------------------------------------------
// generation
// ---------------------------------------------------------------------------

#[derive(Debug, Clone, Copy, PartialEq, Eq)]
pub enum Focus {
    /// C01: early release, drops, proactor drop mid-flight
    Lifetime,
    /// C02: many concurrent ops, bursts, tiny queues, unusual orders
    Completion,
    /// C05: cancellation
    Cancel,
}

/// Template family: 2-4 operations of one shareable kind queued on *one* descriptor (some through a
/// `dup`), a random subset let go in a random way (cancel / token / key drop) with polls in between,
/// then data for the survivors. Exercises the per-descriptor queues and registrations of the polling
/// driver and "neighbours on the same descriptor" of the cancellation contract.
fn generate_shared(rng: &mut Rng, driver: &'static str, kinds: &[K]) -> Option<Program> {
    let shareable: Vec<K> = kinds.iter().copied().filter(|k| k.shareable()).collect();
    if shareable.is_empty() {
        return None;
    }
    let kind = *rng.pick(&shareable);
    let n = rng.range(2, 4);
    let ops: Vec<OpSpec> = (0..n)
        .map(|i| OpSpec {
            kind,
            size: *rng.pick(&[1usize, 7, 16, 64]),
            share: (i > 0).then_some(0),
            dup: i > 0 && rng.chance(1, 4),
        })
        .collect();
    let mut acts: Vec<Act> = (0..n).map(Act::Push).collect();
    if rng.chance(1, 3) {
        acts.push(Act::Poll(0));
    }
    let mut order: Vec<usize> = (0..n).collect();
    for i in (1..n).rev() {
        order.swap(i, rng.below(i + 1));
    }
    let victims = rng.range(1, n - 1).max(1);
    for &i in order.iter().take(victims) {
        acts.push(match rng.below(4) {
            0 | 1 => Act::Cancel(i),
            2 => Act::Token(i),
            _ => Act::DropKey(i),
        });
        for _ in 0..rng.below(3) {
            acts.push(Act::Poll(*rng.pick(&[0u64, 0, 1])));
        }
    }
    for &i in order.iter().skip(victims) {
        acts.push(Act::Ready(i, rng.range(1, 20)));
        acts.push(Act::Poll(*rng.pick(&[0u64, 1, 20])));
        if rng.chance(1, 2) {
            acts.push(Act::Pop(i));
        }
    }
    Some(Program {
        driver,
        cap: *rng.pick(&[1u32, 2, 8, 1024]),
        pool_limit: 2,
        ops,
        acts,
    })
}

pub fn generate(rng: &mut Rng, focus: Focus, driver: &'static str, kinds: &[K]) -> Program {
    if rng.chance(1, 6)
        && let Some(p) = generate_shared(rng, driver, kinds)
    {
        return p;
    }
    let cap = *rng.pick(&[1u32, 2, 2, 4, 8, 1024]);
    let nops = match focus {
        Focus::Completion => rng.range(2, 12),
        _ => rng.range(1, 8),
    };
    let mut ops: Vec<OpSpec> = Vec::new();
    for i in 0..nops {
        let kind = *rng.pick(kinds);
        let size = *rng.pick(&[1usize, 2, 7, 16, 64, 300]);
        let share = if kind.shareable() && rng.chance(1, 3) {
            (0..i).rev().find(|j| ops[*j].kind == kind && ops[*j].share.is_none())
        } else {
            None
        };
        let dup = share.is_some() && rng.chance(1, 2);
        ops.push(OpSpec { kind, size, share, dup });
    }
    // schedule: every op gets a Push, then a random soup of actions
    let mut acts = Vec::new();
    let mut pushed: Vec<usize> = Vec::new();
    let mut next_push = 0;
    let steps = nops * 3 + rng.range(2, 10);
    let mut proactor_dropped = false;
    for _ in 0..steps {
        if proactor_dropped {
            break;
        }
        let roll = rng.below(100);
        if next_push < nops && (pushed.is_empty() || roll < 30) {
            acts.push(Act::Push(next_push));
            pushed.push(next_push);
            next_push += 1;
            continue;
        }
        if pushed.is_empty() {
            continue;
        }
        let i = *rng.pick(&pushed);
        let (w_ready, w_poll, w_pop, w_cancel, w_drop, w_token, w_dropp) = match focus {
            Focus::Lifetime => (22, 20, 14, 12, 14, 8, 6),
            Focus::Completion => (34, 30, 24, 4, 3, 3, 1),
            Focus::Cancel => (18, 22, 16, 22, 4, 16, 1),
        };
        let total = w_ready + w_poll + w_pop + w_cancel + w_drop + w_token + w_dropp;
        let mut r = rng.below(total);
        let mut pickw = |w: usize| {
            if r < w {
                true
            } else {
                r -= w;
                false
            }
        };
        if pickw(w_ready) {
            let n = rng.range(1, ops[i].size.max(1) + 3);
            acts.push(Act::Ready(i, n));
        } else if pickw(w_poll) {
            acts.push(Act::Poll(*rng.pick(&[0u64, 0, 1, 20])));
        } else if pickw(w_pop) {
            acts.push(Act::Pop(i));
        } else if pickw(w_cancel) {
            acts.push(Act::Cancel(i));
        } else if pickw(w_drop) {
            acts.push(Act::DropKey(i));
        } else if pickw(w_token) {
            acts.push(if rng.chance(1, 4) { Act::TokenAgain(i) } else { Act::Token(i) });
        } else {
            acts.push(Act::DropProactor);
            proactor_dropped = true;
        }
    }
    while next_push < nops && !proactor_dropped {
        acts.push(Act::Push(next_push));
        next_push += 1;
    }
    if focus == Focus::Completion && rng.chance(1, 2) {
        // completion burst: everything ready, then one poll
        for i in 0..nops {
            acts.push(Act::Ready(i, ops[i].size));
        }
        acts.push(Act::Poll(20));
    }
    Program {
        driver,
        cap,
        // a gated pool job occupies a worker until the harness opens its gate, and
        // `push` spins until a worker is free: keep one worker more than gated jobs
        pool_limit: rng.range(1, 4).max(ops.iter().filter(|o| o.kind == K::Asyncify).count() + 1),
        ops,
        acts,
    }
}

// ---------------------------------------------------------------------------
// execution
// ---------------------------------------------------------------------------

enum Slot {
    None,
    PipeRead(Key<Read<Vec<u8>, Fd>>),
    SockRecv(Key<Recv<Vec<u8>, Fd>>),
    Accept(Key<Accept<Fd>>),
    PollOnce(Key<PollOnce<Fd>>),
    ReadAt(Key<ReadAt<Vec<u8>, Fd>>),
    Write(Key<Write<Vec<u8>, Fd>>),
    SendZc(Key<SendZc<Vec<u8>, Fd>>),
    Asyncify(Key<Asyncify<GateFn, ()>>),
    RecvMulti(Key<RecvMulti<Fd>>),
}

#[derive(Debug, Clone, PartialEq)]
enum St {
    NotPushed,
    Pending,
    /// final outcome observed: Ok(n)/Err(errno), data
    Done(Result<usize, i32>, Option<Vec<u8>>),
    /// the submitter let go (cancel consumed the key, or the key was dropped)
    LetGo,
    /// push failed / not supported here
    Skipped,
}

/// One descriptor group (the thing several ops may share).
struct Group {
    /// peer end the harness feeds / drains
    peer: Option<OwnedFd>,
    /// our end (kept so the descriptor stays open independently of ops)
    ours: Fd,
    fd_id: u64,
    /// bytes the harness wrote towards the ops, in order
    fed: Vec<u8>,
    salt: u64,
    listener_addr: Option<std::net::SocketAddr>,
    clients: Vec<TcpStream>,
    /// further descriptors (`dup`) of our end, with their probe ids
    dups: Vec<(Fd, u64)>,
}

struct OpRt {
    spec: OpSpec,
    slot: Slot,
    st: St,
    group: usize,
    addr: usize,
    buf_ptr: usize,
    buf_cap: usize,
    /// address of the buffer that came back with the result
    ret_ptr: usize,
    made_ready: bool,
    /// bytes available to this op's descriptor when it was last fed
    token: Option<Cancel>,
    token_fired: bool,
    cancel_requested: bool,
    cancel_seq_polls: u32,
    gate: Option<mpsc::Sender<usize>>,
    gate_val: usize,
    multi_items: Vec<(Result<usize, i32>, Vec<u8>)>,
    ready_immediately: bool,
    accepted: Vec<OwnedFd>,
    zc_first: Option<Result<usize, i32>>,
}

pub struct Outcome {
    pub violations: Vec<(String, String)>,
    pub signatures: Vec<String>,
    pub trivial: bool,
    pub inconclusive: Option<String>,
    pub log: Vec<String>,
    pub counts: HashMap<&'static str, i64>,
}

fn errno_of(e: &io::Error) -> i32 {
    e.raw_os_error().unwrap_or(-1)
}

fn res_class(r: &Result<usize, i32>) -> String {
    match r {
        Ok(0) => "ok0".into(),
        Ok(_) => "ok".into(),
        Err(e) if *e == libc::ECANCELED => "cancelled".into(),
        Err(e) => format!("err{e}"),
    }
}

struct Exec<'a> {
    p: &'a Program,
    prop: &'a str,
    driver: Option<Proactor>,
    dt: DriverType,
    ops: Vec<OpRt>,
    groups: Vec<Group>,
    viol: Vec<(String, String)>,
    file: Option<(std::path::PathBuf, Vec<u8>)>,
    counts: HashMap<&'static str, i64>,
    proactor_dropped: bool,
    /// race-detector legs: never let go of a thread-pool operation and finish them all
    /// before the proactor goes away (the release of a key on a pool thread after the
    /// proactor is gone is a known finding which the log rule of the plain leg reports)
    keep_pool_ops: bool,
}

fn vio(v: &mut Vec<(String, String)>, prop: &str, rule: &str, ctx: &str, what: String) {
    v.push((format!("{prop}/{rule}/{ctx}"), what));
}

impl<'a> Exec<'a> {
    fn pool_route(&self, i: usize) -> bool {
        match self.ops[i].spec.kind {
            K::Asyncify => true,
            K::ReadAt => self.dt == DriverType::Poll,
            _ => false,
        }
    }

    /// Finish every pending thread-pool operation (bounded).
    fn drain_pool_ops(&mut self) {
        if !self.keep_pool_ops || self.driver.is_none() {
            return;
        }
        let n = self.ops.len();
        for i in 0..n {
            if self.ops[i].st == St::Pending && self.pool_route(i) {
                self.ready(i, 1);
            }
        }
        let t0 = Instant::now();
        while t0.elapsed() < Duration::from_secs(5) {
            let still: Vec<usize> = (0..n).filter(|i| self.ops[*i].st == St::Pending && self.pool_route(*i)).collect();
            if still.is_empty() {
                break;
            }
            self.poll(5);
            for i in still {
                self.pop(i);
            }
        }
    }

    fn ctx(&self, i: usize) -> String {
        format!("{}/{}", self.p.driver, self.ops[i].spec.kind.name())
    }

    fn new_group(&mut self, kind: K, salt: u64, size: usize) -> io::Result<usize> {
        let poll = self.dt == DriverType::Poll;
        let (ours, peer, addr): (OwnedFd, Option<OwnedFd>, Option<std::net::SocketAddr>) = match kind {
            K::PipeRead | K::PollOnce => {
                let (r, w) = mk_pipe();
                (r, Some(w), None)
            }
            K::WriteFull => {
                let (r, w) = mk_pipe();
                // fill the pipe so that a write pends
                set_nonblocking(w.as_raw_fd(), true);
                let chunk = [0x77u8; 4096];
                loop {
                    let n = unsafe { libc::write(w.as_raw_fd(), chunk.as_ptr() as _, chunk.len()) };
                    if n <= 0 {
                        break;
                    }
                }
                set_nonblocking(w.as_raw_fd(), false);
                (w, Some(r), None)
            }
            K::SockRecv | K::RecvMulti => {
                let (a, b) = mk_socketpair(libc::SOCK_STREAM);
                (a, Some(b), None)
            }
            K::SendZc if size == 2 || size == 7 => {
                // a stream socket that was never connected: the send fails at issue time (EPIPE),
                // and the kernel still posts the result *and* the buffer-release notification
                let s = socket2::Socket::new(socket2::Domain::IPV4, socket2::Type::STREAM, None)?;
                (OwnedFd::from(s), None, None)
            }
            K::SendZc => {
                let l = TcpListener::bind("127.0.0.1:0")?;
                let c = TcpStream::connect(l.local_addr()?)?;
                let (s, _) = l.accept()?;
                (OwnedFd::from(c), Some(OwnedFd::from(s)), None)
            }
            K::Accept => {
                let l = TcpListener::bind("127.0.0.1:0")?;
                let a = l.local_addr()?;
                (OwnedFd::from(l), None, Some(a))
            }
            K::ReadAt => {
                let (path, content) = self.file.get_or_insert_with(|| {
                    let path = std::env::temp_dir().join(format!("vrt-soup-{}-{}", std::process::id(), salt));
                    let content: Vec<u8> = (0..1024).map(|o| pat(0xF11E, o)).collect();
                    std::fs::write(&path, &content).expect("write temp file");
                    (path, content)
                });
                let _ = content;
                let f = std::fs::File::open(&*path)?;
                (OwnedFd::from(f), None, None)
            }
            K::Asyncify => {
                // no descriptor; use a dummy pipe so that bookkeeping is uniform
                let (r, w) = mk_pipe();
                (r, Some(w), None)
            }
        };
        if poll && !matches!(kind, K::ReadAt) {
            set_nonblocking(ours.as_raw_fd(), true);
        }
        let probe = ProbeFd::new(ours);
        let fd_id = probe.id;
        self.groups.push(Group {
            peer,
            ours: SharedFd::new(probe),
            fd_id,
            fed: Vec::new(),
            salt,
            listener_addr: addr,
            clients: Vec::new(),
            dups: Vec::new(),
        });
        Ok(self.groups.len() - 1)
    }

    fn push(&mut self, i: usize) {
        if self.proactor_dropped || self.ops[i].st != St::NotPushed {
            return;
        }
        let spec = self.ops[i].spec.clone();
        let group = match spec.share.filter(|j| self.ops[*j].st != St::NotPushed && self.ops[*j].spec.kind == spec.kind) {
            Some(j) => self.ops[j].group,
            None => match self.new_group(spec.kind, 0x5000 + i as u64, spec.size) {
                Ok(g) => g,
                Err(e) => {
                    self.ops[i].st = St::Skipped;
                    *self.counts.entry("setup_failed").or_insert(0) += 1;
                    let _ = e;
                    return;
                }
            },
        };
        self.ops[i].group = group;
        let mut fd = self.groups[group].ours.clone();
        let mut fd_id = self.groups[group].fd_id;
        if spec.dup && spec.share.is_some() {
            let raw = unsafe { libc::dup(fd.as_raw_fd()) };
            if raw >= 0 {
                use std::os::fd::FromRawFd;
                let probe = ProbeFd::new(unsafe { OwnedFd::from_raw_fd(raw) });
                fd_id = probe.id;
                fd = SharedFd::new(probe);
                self.groups[group].dups.push((fd.clone(), fd_id));
                *self.counts.entry("dup_descriptors").or_insert(0) += 1;
            }
        }
        if spec.kind != K::Asyncify {
            // (a gated pool job does not touch the descriptor of its dummy group)
            verif::emit_user(ev::OP_USES_FD, i as u64, fd_id as i64);
        }
        let buf = Vec::<u8>::with_capacity(spec.size.max(1));
        self.ops[i].buf_ptr = buf.as_ptr() as usize;
        self.ops[i].buf_cap = buf.capacity();
        let driver = self.driver.as_mut().unwrap();

        macro_rules! do_push {
            ($op:expr, $variant:ident, $done:expr) => {{
                match driver.push($op) {
                    PushEntry::Pending(key) => {
                        let addr = verif::key_addr(&key);
                        verif::emit_user(ev::PUSHED, i as u64, addr as i64);
                        self.ops[i].addr = addr;
                        self.ops[i].slot = Slot::$variant(key);
                        self.ops[i].st = St::Pending;
                    }
                    PushEntry::Ready(BufResult(res, op)) => {
                        self.ops[i].ready_immediately = true;
                        #[allow(clippy::redundant_closure_call)]
                        let data: Vec<u8> = ($done)(&res, op);
                        self.ops[i].ret_ptr = data.as_ptr() as usize;
                        self.ops[i].st = St::Done(res.map_err(|e| errno_of(&e)), Some(data));
                    }
                }
            }};
        }
        fn take_buf(res: &io::Result<usize>, mut b: Vec<u8>) -> Vec<u8> {
            if let Ok(n) = res {
                let n = (*n).min(b.capacity());
                unsafe { b.set_len(n) };
            }
            b
        }
        match spec.kind {
            K::PipeRead => do_push!(Read::new(fd, buf), PipeRead, |r: &io::Result<usize>, op: Read<Vec<u8>, Fd>| take_buf(r, op.into_inner())),
            K::SockRecv => do_push!(Recv::new(fd, buf, RecvFlags::empty()), SockRecv, |r: &io::Result<usize>, op: Recv<Vec<u8>, Fd>| take_buf(r, op.into_inner())),
            K::Accept => do_push!(Accept::new(fd), Accept, |_r: &io::Result<usize>, _op: Accept<Fd>| Vec::new()),
            K::PollOnce => do_push!(PollOnce::new(fd, Interest::Readable), PollOnce, |_r: &io::Result<usize>, _op: PollOnce<Fd>| Vec::new()),
            K::ReadAt => do_push!(ReadAt::new(fd, 0, buf), ReadAt, |r: &io::Result<usize>, op: ReadAt<Vec<u8>, Fd>| take_buf(r, op.into_inner())),
            K::WriteFull => {
                let data: Vec<u8> = (0..spec.size.max(1)).map(|o| pat(0xBEEF + i as u64, o)).collect();
                self.ops[i].buf_ptr = data.as_ptr() as usize;
                self.ops[i].buf_cap = data.capacity();
                do_push!(Write::new(fd, data), Write, |_r: &io::Result<usize>, op: Write<Vec<u8>, Fd>| op.into_inner())
            }
            K::SendZc => {
                let data: Vec<u8> = (0..spec.size.max(1)).map(|o| pat(0x2C00 + i as u64, o)).collect();
                self.ops[i].buf_ptr = data.as_ptr() as usize;
                self.ops[i].buf_cap = data.capacity();
                do_push!(SendZc::new(fd, data, SendFlags::empty()), SendZc, |_r: &io::Result<usize>, op: SendZc<Vec<u8>, Fd>| op.into_inner())
            }
            K::Asyncify => {
                let (tx, rx) = mpsc::channel::<usize>();
                self.ops[i].gate = Some(tx);
                self.ops[i].gate_val = 1000 + i;
                let f: GateFn = Box::new(move || {
                    // Runs on a pool thread; finishes when the harness opens the gate (or hangs up).
                    let v = rx.recv().unwrap_or(usize::MAX >> 1);
                    BufResult(Ok(v), ())
                });
                do_push!(Asyncify::new(f), Asyncify, |_r: &io::Result<usize>, _op: Asyncify<GateFn, ()>| Vec::new())
            }
            K::RecvMulti => {
                let pool = match driver.buffer_pool() {
                    Ok(p) => p,
                    Err(_) => {
                        self.ops[i].st = St::Skipped;
                        return;
                    }
                };
                match RecvMulti::new(fd, &pool, 0, RecvFlags::empty()) {
                    Ok(op) => do_push!(op, RecvMulti, |_r: &io::Result<usize>, _op: RecvMulti<Fd>| Vec::new()),
                    Err(_) => self.ops[i].st = St::Skipped,
                }
            }
        }
    }

    /// Produce what op `i` waits for.
    fn ready(&mut self, i: usize, n: usize) {
        if self.ops[i].st == St::NotPushed || self.ops[i].st == St::Skipped {
            return;
        }
        verif::emit_user(ev::MADE_READY, i as u64, n as i64);
        let kind = self.ops[i].spec.kind;
        let g = self.ops[i].group;
        match kind {
            K::PipeRead | K::SockRecv | K::RecvMulti | K::PollOnce => {
                let grp = &mut self.groups[g];
                let Some(peer) = &grp.peer else { return };
                let n = n.clamp(1, 2048);
                let start = grp.fed.len();
                let data: Vec<u8> = (start..start + n).map(|o| pat(grp.salt, o)).collect();
                set_nonblocking(peer.as_raw_fd(), true);
                let w = unsafe { libc::write(peer.as_raw_fd(), data.as_ptr() as _, data.len()) };
                if w > 0 {
                    grp.fed.extend_from_slice(&data[..w as usize]);
                }
            }
            K::WriteFull => {
                // drain the reader side so the pending write can proceed
                let grp = &mut self.groups[g];
                if let Some(peer) = &grp.peer {
                    set_nonblocking(peer.as_raw_fd(), true);
                    let mut buf = [0u8; 65536];
                    loop {
                        let r = unsafe { libc::read(peer.as_raw_fd(), buf.as_mut_ptr() as _, buf.len()) };
                        if r <= 0 {
                            break;
                        }
                        grp.fed.extend_from_slice(&buf[..r as usize]);
                    }
                }
            }
            K::Accept => {
                let grp = &mut self.groups[g];
                if let Some(a) = grp.listener_addr
                    && let Ok(c) = TcpStream::connect(a)
                {
                    grp.clients.push(c);
                }
            }
            K::Asyncify => {
                if let Some(tx) = &self.ops[i].gate {
                    let _ = tx.send(self.ops[i].gate_val);
                }
            }
            K::SendZc | K::ReadAt => {}
        }
        self.ops[i].made_ready = true;
    }

    fn poll(&mut self, ms: u64) {
        let Some(d) = self.driver.as_mut() else { return };
        match d.poll(Some(Duration::from_millis(ms))) {
            Ok(()) => {}
            Err(e) if matches!(e.kind(), io::ErrorKind::TimedOut | io::ErrorKind::Interrupted) => {}
            Err(e) => {
                *self.counts.entry("poll_errors").or_insert(0) += 1;
                let _ = e;
            }
        }
        for op in self.ops.iter_mut() {
            if op.cancel_requested && op.st == St::Pending {
                op.cancel_seq_polls += 1;
            }
        }
    }

    /// Try to take the final outcome of op `i` (and queued multishot items).
    fn pop(&mut self, i: usize) {
        if self.ops[i].st != St::Pending {
            return;
        }
        let Some(driver) = self.driver.as_mut() else { return };
        let slot = std::mem::replace(&mut self.ops[i].slot, Slot::None);
        fn take_buf(res: &io::Result<usize>, mut b: Vec<u8>) -> Vec<u8> {
            if let Ok(n) = res {
                let n = (*n).min(b.capacity());
                unsafe { b.set_len(n) };
            }
            b
        }
        macro_rules! pop_plain {
            ($key:expr, $variant:ident, $done:expr) => {{
                match driver.pop($key) {
                    PushEntry::Pending(k) => self.ops[i].slot = Slot::$variant(k),
                    PushEntry::Ready(BufResult(res, op)) => {
                        verif::emit_user(ev::POPPED, i as u64, 0);
                        #[allow(clippy::redundant_closure_call)]
                        let data: Vec<u8> = ($done)(&res, op, &mut self.ops[i]);
                        self.ops[i].ret_ptr = data.as_ptr() as usize;
                        self.ops[i].st = St::Done(res.map_err(|e| errno_of(&e)), Some(data));
                    }
                }
            }};
        }
        match slot {
            Slot::None => {}
            Slot::PipeRead(k) => pop_plain!(k, PipeRead, |r: &io::Result<usize>, op: Read<Vec<u8>, Fd>, _: &mut OpRt| take_buf(r, op.into_inner())),
            Slot::SockRecv(k) => pop_plain!(k, SockRecv, |r: &io::Result<usize>, op: Recv<Vec<u8>, Fd>, _: &mut OpRt| take_buf(r, op.into_inner())),
            Slot::ReadAt(k) => pop_plain!(k, ReadAt, |r: &io::Result<usize>, op: ReadAt<Vec<u8>, Fd>, _: &mut OpRt| take_buf(r, op.into_inner())),
            Slot::Write(k) => pop_plain!(k, Write, |_r: &io::Result<usize>, op: Write<Vec<u8>, Fd>, _: &mut OpRt| op.into_inner()),
            Slot::PollOnce(k) => pop_plain!(k, PollOnce, |_r: &io::Result<usize>, _op: PollOnce<Fd>, _: &mut OpRt| Vec::new()),
            Slot::Asyncify(k) => pop_plain!(k, Asyncify, |_r: &io::Result<usize>, _op: Asyncify<GateFn, ()>, _: &mut OpRt| Vec::new()),
            Slot::Accept(k) => pop_plain!(k, Accept, |r: &io::Result<usize>, op: Accept<Fd>, rt: &mut OpRt| {
                if r.is_ok() {
                    let (sock, _addr) = op.into_inner();
                    rt.accepted.push(OwnedFd::from(sock));
                }
                Vec::new()
            }),
            Slot::SendZc(k) => {
                if let Some(BufResult(res, _)) = driver.pop_multishot(&k) {
                    self.ops[i].zc_first = Some(res.map_err(|e| errno_of(&e)));
                }
                pop_plain!(k, SendZc, |_r: &io::Result<usize>, op: SendZc<Vec<u8>, Fd>, _: &mut OpRt| op.into_inner())
            }
            Slot::RecvMulti(k) => {
                let pool = driver.buffer_pool().ok();
                while let Some(BufResult(res, extra)) = driver.pop_multishot(&k) {
                    let mut data = Vec::new();
                    if let (Ok(n), Some(pool)) = (&res, &pool)
                        && let Ok(id) = extra.buffer_id()
                        && let Ok(Some(buf)) = pool.take(id)
                    {
                        use compio_buf::IoBufMut;
                        let mut buf = buf;
                        let n = (*n).min(buf.as_uninit().len());
                        data = unsafe { std::slice::from_raw_parts(buf.as_uninit().as_ptr() as *const u8, n).to_vec() };
                    }
                    self.ops[i].multi_items.push((res.map_err(|e| errno_of(&e)), data));
                }
                match driver.pop_with_extra(k) {
                    PushEntry::Pending(k) => self.ops[i].slot = Slot::RecvMulti(k),
                    PushEntry::Ready((BufResult(res, op), _extra)) => {
                        verif::emit_user(ev::POPPED, i as u64, 0);
                        let mut data = Vec::new();
                        if let Ok(n) = &res
                            && *n > 0
                        {
                            use compio_driver::TakeBuffer;
                            if let Some(mut buf) = op.take_buffer() {
                                use compio_buf::IoBufMut;
                                let n = (*n).min(buf.as_uninit().len());
                                data = unsafe { std::slice::from_raw_parts(buf.as_uninit().as_ptr() as *const u8, n).to_vec() };
                            }
                        }
                        self.ops[i].ret_ptr = 0;
                        self.ops[i].st = St::Done(res.map_err(|e| errno_of(&e)), Some(data));
                    }
                }
            }
        }
    }

    fn cancel(&mut self, i: usize) {
        if self.ops[i].st != St::Pending || (self.keep_pool_ops && self.pool_route(i)) {
            return;
        }
        let Some(driver) = self.driver.as_mut() else { return };
        let slot = std::mem::replace(&mut self.ops[i].slot, Slot::None);
        self.ops[i].cancel_requested = true;
        macro_rules! c {
            ($k:expr) => {{
                verif::emit_user(ev::KEY_DROPPED, i as u64, 1);
                match driver.cancel($k) {
                    Some(BufResult(res, _op)) => {
                        // completed before the cancel: the genuine result comes back
                        self.ops[i].st = St::Done(res.map_err(|e| errno_of(&e)), None);
                        *self.counts.entry("cancel_after_completion").or_insert(0) += 1;
                    }
                    None => self.ops[i].st = St::LetGo,
                }
            }};
        }
        match slot {
            Slot::None => {}
            Slot::PipeRead(k) => c!(k),
            Slot::SockRecv(k) => c!(k),
            Slot::Accept(k) => c!(k),
            Slot::PollOnce(k) => c!(k),
            Slot::ReadAt(k) => c!(k),
            Slot::Write(k) => c!(k),
            Slot::SendZc(k) => c!(k),
            Slot::Asyncify(k) => c!(k),
            Slot::RecvMulti(k) => c!(k),
        }
    }

    fn drop_key(&mut self, i: usize) {
        if self.ops[i].st != St::Pending || (self.keep_pool_ops && self.pool_route(i)) {
            return;
        }
        verif::emit_user(ev::KEY_DROPPED, i as u64, 0);
        self.ops[i].slot = Slot::None;
        self.ops[i].st = St::LetGo;
    }

    fn token(&mut self, i: usize, again: bool) {
        let Some(driver) = self.driver.as_mut() else { return };
        if self.ops[i].token.is_none() {
            macro_rules! reg {
                ($k:expr) => {
                    Some(driver.register_cancel($k))
                };
            }
            self.ops[i].token = match &self.ops[i].slot {
                Slot::None => None,
                Slot::PipeRead(k) => reg!(k),
                Slot::SockRecv(k) => reg!(k),
                Slot::Accept(k) => reg!(k),
                Slot::PollOnce(k) => reg!(k),
                Slot::ReadAt(k) => reg!(k),
                Slot::Write(k) => reg!(k),
                Slot::SendZc(k) => reg!(k),
                Slot::Asyncify(k) => reg!(k),
                Slot::RecvMulti(k) => reg!(k),
            };
        }
        let Some(tok) = self.ops[i].token.clone() else { return };
        let was_pending = self.ops[i].st == St::Pending;
        let issued = driver.cancel_token(tok);
        if issued {
            if self.ops[i].token_fired || !was_pending {
                // Tolerated only if the op was in fact still pending in the driver
                // (LetGo = key dropped but operation alive): a token may cancel it.
                if self.ops[i].token_fired {
                    let c = self.ctx(i);
                    vio(&mut self.viol, self.prop, "token-cancels-twice", &c,
                        format!("cancel_token returned true again for op {i} although it was already cancelled through this token"));
                }
            }
            self.ops[i].token_fired = true;
            self.ops[i].cancel_requested = true;
        }
        let _ = again;
    }

    fn drop_proactor(&mut self) {
        if self.proactor_dropped {
            return;
        }
        self.drain_pool_ops();
        verif::emit_user(ev::PROACTOR_DROP_BEGIN, 0, 0);
        self.driver = None;
        verif::emit_user(ev::PROACTOR_DROP_END, 0, 0);
        self.proactor_dropped = true;
    }
}

/// Execute one program and judge it.
pub fn run_program(p: &Program, prop: &str, canary: bool, log: bool) -> Outcome {
    let dt = if p.driver == "poll" { DriverType::Poll } else { DriverType::IoUring };
    let _ = verif::drain();
    verif::enable(log);
    if canary {
        alloc::quarantine(true);
    }
    let mut counts: HashMap<&'static str, i64> = HashMap::new();
    let driver = Proactor::builder()
        .capacity(p.cap)
        .driver_type(dt)
        .thread_pool_limit(p.pool_limit.max(1))
        .thread_pool_recv_timeout(Duration::from_millis(50))
        .buffer_pool_size(std::num::NonZero::new(4).unwrap())
        .buffer_pool_buffer_len(64)
        .build();
    let driver = match driver {
        Ok(d) => d,
        Err(e) => {
            verif::enable(false);
            alloc::quarantine(false);
            return Outcome {
                violations: vec![],
                signatures: vec![],
                trivial: true,
                inconclusive: Some(format!("cannot build proactor ({}, cap {}): {e}", p.driver, p.cap)),
                log: vec![],
                counts,
            };
        }
    };
    let mut ex = Exec {
        p,
        prop,
        driver: Some(driver),
        dt,
        ops: p
            .ops
            .iter()
            .map(|s| OpRt {
                spec: s.clone(),
                slot: Slot::None,
                st: St::NotPushed,
                group: 0,
                addr: 0,
                buf_ptr: 0,
                buf_cap: 0,
                ret_ptr: 0,
                made_ready: false,
                token: None,
                token_fired: false,
                cancel_requested: false,
                cancel_seq_polls: 0,
                gate: None,
                gate_val: 0,
                multi_items: Vec::new(),
                ready_immediately: false,
                accepted: Vec::new(),
                zc_first: None,
            })
            .collect(),
        groups: Vec::new(),
        viol: Vec::new(),
        file: None,
        counts: HashMap::new(),
        proactor_dropped: false,
        keep_pool_ops: !log,
    };

    let mut pending_at_drop = 0usize;
    let mut max_pending = 0usize;
    for (pc, a) in p.acts.iter().enumerate() {
        verif::emit_user(ev::ACTION, pc as u64, 0);
        match a {
            Act::Push(i) => ex.push(*i),
            Act::Ready(i, n) => ex.ready(*i, *n),
            Act::Poll(ms) => ex.poll(*ms),
            Act::Pop(i) => ex.pop(*i),
            Act::Cancel(i) => ex.cancel(*i),
            Act::DropKey(i) => ex.drop_key(*i),
            Act::Token(i) => ex.token(*i, false),
            Act::TokenAgain(i) => ex.token(*i, true),
            Act::DropProactor => {
                pending_at_drop = ex.ops.iter().filter(|o| matches!(o.st, St::Pending | St::LetGo)).count();
                ex.drop_proactor()
            }
        }
        max_pending = max_pending.max(ex.ops.iter().filter(|o| o.st == St::Pending).count());
    }

    // ---- settle phase (only while the proactor lives): everything still
    // pending is fed and must complete within a bounded number of polls.
    let mut undelivered: Vec<usize> = Vec::new();
    if !ex.proactor_dropped {
        let n = ex.ops.len();
        for i in 0..n {
            if ex.ops[i].st == St::Pending && (!ex.ops[i].cancel_requested || !ex.ops[i].spec.kind.cancellable()) {
                let size = ex.ops[i].spec.size;
                ex.ready(i, size);
            }
        }
        let mut rounds = 0;
        // one driver poll may legitimately deliver a single completion (event capacity 1):
        // allow one poll per pending operation plus four
        let max_rounds = 4 + (0..n).filter(|i| ex.ops[*i].st == St::Pending).count() as i64;
        loop {
            let still: Vec<usize> = (0..n).filter(|i| ex.ops[*i].st == St::Pending).collect();
            if still.is_empty() || rounds >= max_rounds {
                undelivered = still;
                break;
            }
            ex.poll([0u64, 5, 20, 50, 100][(rounds as usize).min(4)]);
            for i in still {
                ex.pop(i);
            }
            rounds += 1;
        }
        ex.counts.insert("settle_rounds_max", rounds);
    }
    // an operation whose readiness was produced (and independently confirmed)
    // but which has no result after the bounded polls is stranded
    for i in undelivered {
        let k = ex.ops[i].spec.kind;
        let g = ex.ops[i].group;
        let confirmed = match k {
            K::PipeRead | K::SockRecv | K::PollOnce | K::RecvMulti | K::Accept => {
                poll_ready(ex.groups[g].ours.as_raw_fd(), libc::POLLIN)
            }
            K::WriteFull => poll_ready(ex.groups[g].ours.as_raw_fd(), libc::POLLOUT),
            K::SendZc => true,
            // thread-pool route: progress depends on another thread being scheduled;
            // only once the log shows that the pool thread finished the job is a
            // missing result the driver's fault
            K::ReadAt | K::Asyncify => pool_job_ended(ex.ops[i].addr) != Some(false),
        };
        let confirmed = if confirmed && matches!(k, K::ReadAt | K::Asyncify) && pool_job_ended(ex.ops[i].addr) == Some(true) {
            // the completion is sent right after `BlockingEnd`: give it three more polls
            for _ in 0..3 {
                ex.poll(50);
                ex.pop(i);
            }
            if ex.ops[i].st != St::Pending {
                continue;
            }
            true
        } else {
            confirmed
        };
        // with several ops sharing the descriptor the data may legitimately have gone to a sibling
        let shared = ex.ops.iter().enumerate().any(|(j, o)| j != i && o.group == g && o.st != St::NotPushed && o.spec.kind == k);
        // ... but data that is *still there* after one more bounded series of polls, with a
        // read still pending on that very pipe / socket, went to nobody
        let mut stranded_shared = false;
        if confirmed && shared && matches!(k, K::PipeRead | K::SockRecv) && ex.ops[i].st == St::Pending {
            let sibs: Vec<usize> = (0..ex.ops.len()).filter(|j| ex.ops[*j].group == g && ex.ops[*j].st == St::Pending).collect();
            for r in 0..(4 + sibs.len()) {
                ex.poll([5u64, 20, 50, 100][r.min(3)]);
                for j in &sibs {
                    ex.pop(*j);
                }
            }
            if ex.ops[i].st != St::Pending {
                continue;
            }
            stranded_shared = poll_ready(ex.groups[g].ours.as_raw_fd(), libc::POLLIN);
        }
        let c = ex.ctx(i);
        if ex.ops[i].cancel_requested && ex.ops[i].spec.kind.cancellable() {
            vio(&mut ex.viol, prop, "cancel-not-prompt", &c,
                format!("op {i} was cancelled but had no outcome after {} polls", ex.ops[i].cancel_seq_polls));
        } else if stranded_shared {
            vio(&mut ex.viol, prop, "ready-but-undelivered", &format!("{c}/shared{}", if ex.ops[i].spec.dup { "-dup" } else { "" }),
                format!("op {i} reads a descriptor that several operations share: after one driver poll per pending operation plus four, and as many again,                          data is still unread in it (poll(2)) yet the read is still pending"));
        } else if confirmed && !shared {
            vio(&mut ex.viol, prop, "ready-but-undelivered", &c,
                format!("op {i}: what it waits for is ready (confirmed with poll(2)) but one driver poll per pending operation plus four produced no result"));
        } else {
            *ex.counts.entry("settle_unconfirmed").or_insert(0) += 1;
        }
    }

    // ---- data oracles over everything that completed
    judge_results(&mut ex);

    // ---- teardown: drop every handle, then the proactor, then poke the peers
    for o in ex.ops.iter_mut() {
        if !matches!(o.slot, Slot::None) {
            verif::emit_user(ev::KEY_DROPPED, 0, 2);
        }
        o.slot = Slot::None;
        o.token = None;
    }
    if !ex.proactor_dropped {
        pending_at_drop = ex.ops.iter().filter(|o| matches!(o.st, St::Pending | St::LetGo)).count();
        ex.drop_proactor();
    }
    // After the drop: make every peer ready. If the OS still held a pointer into
    // released memory it would now scribble over the canaries.
    let n = ex.ops.len();
    for i in 0..n {
        if matches!(ex.ops[i].st, St::Pending | St::LetGo) {
            let size = ex.ops[i].spec.size;
            ex.ready(i, size);
        }
        // open every gate so pool threads can finish
        if let Some(tx) = ex.ops[i].gate.take() {
            let _ = tx.send(ex.ops[i].gate_val);
        }
    }
    // Groups (our ends of the descriptors and the peers) go first, then wait (bounded)
    // until every pool job has ended, the log is silent and every operation created
    // by this program has been released — a release on a pool thread may lag.
    let groups = std::mem::take(&mut ex.groups);
    let fd_ids: Vec<u64> = groups.iter().flat_map(|g| std::iter::once(g.fd_id).chain(g.dups.iter().map(|d| d.1))).collect();
    drop(groups);
    for o in ex.ops.iter_mut() {
        o.accepted.clear();
    }
    let (mut pool_quiet, settled) = if log {
        settle_log(Duration::from_millis(3000))
    } else {
        // no event log (race-detector legs): a fixed grace period, and the
        // log-based rules are skipped below
        std::thread::sleep(Duration::from_millis(20));
        (true, Vec::new())
    };
    // A handle released on a pool thread closes its descriptor a moment after the operation is
    // reported free (the release runs field by field): give outstanding closes a bounded grace
    // period before the census; a descriptor that is really leaked stays open for ever.
    let mut settled = settled;
    if log {
        let t0 = Instant::now();
        loop {
            let closed: std::collections::HashSet<u64> =
                settled.iter().filter(|e| e.kind == verif::Kind::User && e.a == ev::FD_CLOSED).map(|e| e.b).collect();
            if fd_ids.iter().all(|id| closed.contains(id)) || t0.elapsed() > Duration::from_secs(2) {
                break;
            }
            std::thread::sleep(Duration::from_millis(5));
            settled.extend(verif::drain());
        }
    }
    let had_pool_jobs = settled.iter().any(|e| e.kind == verif::Kind::Submit && e.b == 2);
    {
        let news: std::collections::HashSet<u64> = settled.iter().filter(|e| e.kind == verif::Kind::OpNew).map(|e| e.a).collect();
        let frees = settled.iter().filter(|e| e.kind == verif::Kind::OpFree && news.contains(&e.a)).count();
        if frees < news.len() && had_pool_jobs {
            // something is still held by a pool thread that has not got round to dropping it
            // (itself the known foreign-thread release); leak rules cannot be decided
            pool_quiet = false;
        }
    }
    STASH.with(|s| s.borrow_mut().extend(settled));
    if let Some((path, _)) = ex.file.take() {
        let _ = std::fs::remove_file(path);
    }

    let corrupt = if canary { alloc::scan() } else { Vec::new() };
    alloc::quarantine(false);
    verif::enable(false);
    let mut events = STASH.with(|s| std::mem::take(&mut *s.borrow_mut()));
    events.extend(verif::drain());
    events.sort_by_key(|e| e.seq);
    if canary {
        alloc::release_all();
    }
    let names = verif::type_names();
    let sum = check::check_log(&events, &names, pool_quiet && log);

    let mut viol = std::mem::take(&mut ex.viol);
    for f in &sum.findings {
        vio(&mut viol, prop, f.rule, &format!("{}/{}", p.driver, f.ty), f.what.clone());
    }
    for c in &corrupt {
        vio(&mut viol, prop, "write-into-released-memory", p.driver,
            format!("a released {}-byte block was written after its release (offset {}, byte {:#x}, {} bytes changed): the OS or a pool thread used memory that compio had already freed",
                c.size, c.offset, c.found, c.changed));
    }
    // descriptors: every probe fd closed exactly once by now
    for id in fd_ids {
        if !log {
            break;
        }
        match sum.fd_closed.get(&id).copied().unwrap_or(0) {
            1 => {}
            0 if !pool_quiet => {}
            0 => vio(&mut viol, prop, "descriptor-never-closed", p.driver,
                format!("descriptor {id} is still open although every handle, operation and the proactor are gone")),
            n => vio(&mut viol, prop, "descriptor-closed-twice", p.driver, format!("descriptor {id} closed {n} times")),
        }
    }

    // ---- coverage signature
    let mut sigs = Vec::new();
    let cap_class = match p.cap {
        1 => "cap1",
        2 => "cap2",
        3..=8 => "capS",
        _ => "capL",
    };
    let mut nontrivial = false;
    for (i, o) in ex.ops.iter().enumerate() {
        let st = sum.ops.iter().find(|s| s.idx == Some(i));
        let route = st.and_then(|s| s.route).map(|r| ["sqe", "wait", "pool"][r.min(2) as usize]).unwrap_or("none");
        let releaser = match (&o.st, st) {
            (St::NotPushed, _) | (St::Skipped, _) => continue,
            (St::Done(..), _) if o.ready_immediately => "immediate",
            (St::Done(..), _) => "completion",
            (St::LetGo, Some(s)) if s.freed_by_ring_close => "ring-close",
            (St::LetGo, _) if o.token_fired => "token",
            (St::LetGo, _) if o.cancel_requested => "cancel",
            (St::LetGo, _) => "key-drop",
            (St::Pending, Some(s)) if s.freed_by_ring_close => "ring-close",
            (St::Pending, _) => "proactor-drop",
        };
        if matches!(releaser, "ring-close" | "token" | "cancel" | "key-drop" | "proactor-drop") {
            nontrivial = true;
        }
        let rc = match &o.st {
            St::Done(r, _) => res_class(r),
            _ => st.and_then(|s| s.final_ok).map(|(ok, v)| if ok { "ok".to_string() } else if v == libc::ECANCELED as i64 { "cancelled".into() } else { format!("err{v}") }).unwrap_or_else(|| "none".into()),
        };
        sigs.push(format!("{}|{}|{}|{}|{}|{}", p.driver, cap_class, o.spec.kind.name(), route, releaser, rc));
    }
    if max_pending >= 2 {
        nontrivial = true;
    }
    counts.extend(ex.counts.iter().map(|(k, v)| (*k, *v)));
    counts.insert("ops", ex.ops.iter().filter(|o| o.st != St::NotPushed).count() as i64);
    counts.insert("pending_at_proactor_drop", pending_at_drop as i64);
    counts.insert("max_pending", max_pending as i64);
    for (k, v) in &sum.kinds {
        counts.insert(k, *v as i64);
    }
    counts.insert("freed_by_ring_close", sum.ops.iter().filter(|o| o.freed_by_ring_close).count() as i64);
    let inconclusive = (!pool_quiet).then(|| "pool threads still running after 1.5 s; leak/close rules skipped".to_string());
    Outcome {
        violations: viol,
        signatures: sigs,
        trivial: !nontrivial,
        inconclusive,
        log: check::render(&events, &names, 400),
        counts,
    }
}

/// Wait (bounded) until every operation created so far has been released (a release that
/// happens on a pool thread after its job ended may lag on a loaded machine).
pub fn wait_ops_released(max: Duration) -> bool {
    let t0 = Instant::now();
    loop {
        STASH.with(|s| s.borrow_mut().extend(verif::drain()));
        let (news, frees) = STASH.with(|s| {
            let s = s.borrow();
            let news: std::collections::HashSet<u64> = s.iter().filter(|e| e.kind == verif::Kind::OpNew).map(|e| e.a).collect();
            let frees = s.iter().filter(|e| e.kind == verif::Kind::OpFree && news.contains(&e.a)).count();
            (news.len(), frees)
        });
        if frees >= news {
            return true;
        }
        if t0.elapsed() > max {
            return false;
        }
        std::thread::sleep(Duration::from_millis(2));
    }
}

/// Did this program hand any job to the thread pool (from the stashed log)?
pub fn had_pool_jobs() -> bool {
    STASH.with(|s| s.borrow_mut().extend(verif::drain()));
    STASH.with(|s| s.borrow().iter().any(|e| e.kind == verif::Kind::Submit && e.b == 2))
}

/// Forget the events stashed by `wait_pool_jobs` (start of a new program).
pub fn reset_stash() {
    STASH.with(|s| s.borrow_mut().clear());
}

/// Wait (bounded) until every pool job submitted so far has begun and ended.
pub fn wait_pool_jobs(max: Duration) -> bool {
    let t0 = Instant::now();
    loop {
        STASH.with(|s| s.borrow_mut().extend(verif::drain()));
        let (b, e2, s2) = STASH.with(|s| {
            let s = s.borrow();
            (
                s.iter().filter(|e| e.kind == verif::Kind::BlockingBegin).count(),
                s.iter().filter(|e| e.kind == verif::Kind::BlockingEnd).count(),
                s.iter().filter(|e| e.kind == verif::Kind::Submit && e.b == 2).count(),
            )
        });
        if b == e2 && b == s2 {
            return true;
        }
        if t0.elapsed() > max {
            return false;
        }
        std::thread::sleep(Duration::from_millis(1));
    }
}

/// Wait (bounded) until every pool job that was submitted has begun and ended and
/// the log has been silent for a moment; returns whether that was reached and
/// all events recorded so far (sorted).
pub fn settle_log(max: Duration) -> (bool, Vec<verif::Event>) {
    let t0 = Instant::now();
    let mut quiet = true;
    loop {
        STASH.with(|s| s.borrow_mut().extend(verif::drain()));
        let (b, e2, s2) = STASH.with(|s| {
            let s = s.borrow();
            (
                s.iter().filter(|e| e.kind == verif::Kind::BlockingBegin).count(),
                s.iter().filter(|e| e.kind == verif::Kind::BlockingEnd).count(),
                s.iter().filter(|e| e.kind == verif::Kind::Submit && e.b == 2).count(),
            )
        });
        if b == e2 && b == s2 {
            break;
        }
        if t0.elapsed() > max {
            quiet = false;
            break;
        }
        std::thread::sleep(Duration::from_millis(2));
    }
    let tq = Instant::now();
    let mut last = STASH.with(|s| s.borrow().len());
    let mut stable = 0;
    while tq.elapsed() < Duration::from_millis(300) && stable < 3 {
        std::thread::sleep(Duration::from_micros(500));
        STASH.with(|s| s.borrow_mut().extend(verif::drain()));
        let now = STASH.with(|s| s.borrow().len());
        if now == last {
            stable += 1;
        } else {
            stable = 0;
            last = now;
        }
    }
    // every operation created in this window should be released by now; a release that
    // happens on a pool thread may lag behind on a loaded machine: wait for it (bounded)
    let tf = Instant::now();
    loop {
        STASH.with(|s| s.borrow_mut().extend(verif::drain()));
        let (news, frees) = STASH.with(|s| {
            let s = s.borrow();
            let news: std::collections::HashSet<u64> = s.iter().filter(|e| e.kind == verif::Kind::OpNew).map(|e| e.a).collect();
            let frees = s.iter().filter(|e| e.kind == verif::Kind::OpFree && news.contains(&e.a)).count();
            (news.len(), frees)
        });
        if frees >= news || tf.elapsed() > max {
            break;
        }
        std::thread::sleep(Duration::from_millis(2));
    }
    let mut events = STASH.with(|s| std::mem::take(&mut *s.borrow_mut()));
    events.extend(verif::drain());
    events.sort_by_key(|e| e.seq);
    (quiet, events)
}

/// `Some(true)`: the pool thread finished the job at `addr`; `Some(false)`: the
/// job was handed to the pool but has not finished; `None`: not a pool job.
fn pool_job_ended(addr: usize) -> Option<bool> {
    STASH.with(|s| s.borrow_mut().extend(verif::drain()));
    STASH.with(|s| {
        let s = s.borrow();
        let submitted = s.iter().any(|e| e.kind == verif::Kind::Submit && e.b == 2 && e.a == addr as u64);
        if !submitted {
            return None;
        }
        // the closure sends the completion and then wakes the driver: only the wake that
        // follows `BlockingEnd` on that thread proves the completion is in the channel
        let end = s.iter().find(|e| e.kind == verif::Kind::BlockingEnd && e.a == addr as u64);
        Some(end.is_some_and(|end| s.iter().any(|e| e.kind == verif::Kind::Wake && e.tid == end.tid && e.seq > end.seq)))
    })
}

thread_local! {
    static STASH: std::cell::RefCell<Vec<verif::Event>> = const { std::cell::RefCell::new(Vec::new()) };
}

/// Data-level oracles (C02 own-result, C05 honesty) over completed ops.
fn judge_results(ex: &mut Exec) {
    let prop = ex.prop;
    let n = ex.ops.len();
    // per group of stream readers: multiset/stream conservation
    let mut by_group: HashMap<(usize, K), Vec<usize>> = HashMap::new();
    for i in 0..n {
        if matches!(ex.ops[i].spec.kind, K::PipeRead | K::SockRecv | K::RecvMulti) && ex.ops[i].st != St::NotPushed {
            by_group.entry((ex.ops[i].group, ex.ops[i].spec.kind)).or_default().push(i);
        }
    }
    for ((g, _k), members) in by_group {
        let fed = ex.groups[g].fed.clone();
        let mut chunks: Vec<(usize, Vec<u8>)> = Vec::new();
        for &i in &members {
            for (r, d) in &ex.ops[i].multi_items {
                if let Ok(nn) = r
                    && *nn > 0
                {
                    chunks.push((i, d.clone()));
                }
            }
            if let St::Done(r, d) = &ex.ops[i].st {
                let c = ex.ctx(i);
                let no_data = d.is_none();
                let empty = Vec::new();
                let d = d.as_ref().unwrap_or(&empty);
                match r {
                    Ok(nn) => {
                        if ex.ops[i].spec.kind != K::RecvMulti && *nn > ex.ops[i].buf_cap {
                            vio(&mut ex.viol, prop, "count-exceeds-capacity", &c, format!("op {i} reports {nn} bytes for a {}-byte buffer", ex.ops[i].buf_cap));
                        }
                        if *nn == 0 && ex.ops[i].spec.kind != K::RecvMulti {
                            // Ok(0) on a stream = EOF, but the harness never closes peers before teardown
                            vio(&mut ex.viol, prop, "fabricated-eof", &c, format!("op {i} completed with Ok(0) although the peer is open"));
                        }
                        if no_data {
                            // result obtained through `cancel` after completion: the count must be genuine
                            if *nn > fed.len() {
                                vio(&mut ex.viol, prop, "invented-bytes", &c, format!("op {i} reports {nn} bytes but only {} were written", fed.len()));
                            }
                        } else if *nn > 0 && ex.ops[i].spec.kind != K::RecvMulti {
                            if ex.ops[i].ret_ptr != ex.ops[i].buf_ptr && !d.is_empty() {
                                vio(&mut ex.viol, prop, "not-the-submitted-buffer", &c, format!("op {i} came back with a different buffer than it submitted"));
                            }
                            chunks.push((i, d.clone()));
                        } else if *nn > 0 {
                            chunks.push((i, d.clone()));
                        }
                    }
                    Err(e) if *e == libc::ECANCELED => {
                        if !ex.ops[i].cancel_requested {
                            vio(&mut ex.viol, prop, "cancelled-without-request", &c, format!("op {i} reports cancellation but nobody cancelled it"));
                        }
                    }
                    Err(e) if *e == libc::ENOBUFS || *e == 16 /* EBUSY: ResourceBusy mapping */ => {}
                    Err(e) => {
                        if ex.ops[i].spec.kind != K::RecvMulti {
                            vio(&mut ex.viol, prop, "unexpected-error", &c, format!("op {i} failed with errno {e} although nothing can fail here"));
                        }
                    }
                }
            }
        }
        if chunks.is_empty() {
            continue;
        }
        // the chunks, in *some* order, must be consecutive pieces of the fed stream from offset 0
        let total: usize = chunks.iter().map(|c| c.1.len()).sum();
        let ctx = format!("{}/{}", ex.p.driver, ex.ops[members[0]].spec.kind.name());
        if total > fed.len() {
            vio(&mut ex.viol, prop, "invented-bytes", &ctx,
                format!("readers on one descriptor obtained {total} bytes but only {} were written to it", fed.len()));
            continue;
        }
        // operations the submitter let go of (cancelled / key dropped) may have consumed
        // bytes nobody can observe any more: then gaps between the pieces are legitimate
        let gaps = members.iter().any(|&i| matches!(ex.ops[i].st, St::LetGo | St::Pending) || matches!(ex.ops[i].st, St::Done(_, None)));
        if !arrange(&fed, &mut chunks.iter().map(|c| c.1.as_slice()).collect::<Vec<_>>(), 0, gaps) {
            vio(&mut ex.viol, prop, "wrong-data", &ctx,
                format!("the data obtained by the readers of one descriptor ({} chunk(s), {total} bytes) is not a set of consecutive pieces of what was written (swapped, duplicated or corrupted)", chunks.len()));
        }
    }
    for i in 0..n {
        let c = ex.ctx(i);
        let kind = ex.ops[i].spec.kind;
        let St::Done(r, d) = ex.ops[i].st.clone() else { continue };
        let no_data = d.is_none();
        let d = d.unwrap_or_default();
        match kind {
            K::ReadAt => {
                if let (Ok(nn), Some((_, content))) = (&r, &ex.file) {
                    let want = ex.ops[i].buf_cap.min(content.len());
                    if *nn != want || (!no_data && d[..] != content[..want]) {
                        vio(&mut ex.viol, prop, "wrong-data", &c, format!("ReadAt returned {nn} bytes, expected the first {want} bytes of the file"));
                    }
                } else if let Err(e) = r
                    && !(e == libc::ECANCELED && ex.ops[i].cancel_requested)
                {
                    vio(&mut ex.viol, prop, "unexpected-error", &c, format!("ReadAt failed with errno {e}"));
                }
            }
            K::Asyncify => match r {
                Ok(v) if v == ex.ops[i].gate_val => {
                    if !ex.ops[i].made_ready {
                        vio(&mut ex.viol, prop, "result-before-event", &c, format!("pool job {i} reported its value before the harness opened its gate"));
                    }
                }
                Ok(v) => vio(&mut ex.viol, prop, "swapped-result", &c, format!("pool job {i} returned {v}, its own value is {}", ex.ops[i].gate_val)),
                Err(e) => vio(&mut ex.viol, prop, "unexpected-error", &c, format!("pool job failed with errno {e}")),
            },
            K::Accept => match r {
                Ok(_) => {
                    if ex.groups[ex.ops[i].group].clients.is_empty() {
                        vio(&mut ex.viol, prop, "fabricated-success", &c, format!("accept {i} succeeded although nobody connected"));
                    }
                }
                Err(e) if e == libc::ECANCELED && ex.ops[i].cancel_requested => {}
                Err(e) => vio(&mut ex.viol, prop, "unexpected-error", &c, format!("accept failed with errno {e}")),
            },
            K::PollOnce => match r {
                Ok(_) => {
                    if ex.groups[ex.ops[i].group].fed.is_empty() {
                        vio(&mut ex.viol, prop, "fabricated-success", &c, format!("poll-once {i} reported readiness although nothing was written"));
                    }
                }
                Err(e) if e == libc::ECANCELED && ex.ops[i].cancel_requested => {}
                Err(e) => vio(&mut ex.viol, prop, "unexpected-error", &c, format!("poll-once failed with errno {e}")),
            },
            K::WriteFull => match r {
                Ok(nn) => {
                    if nn > ex.ops[i].buf_cap {
                        vio(&mut ex.viol, prop, "count-exceeds-capacity", &c, format!("write reports {nn} bytes"));
                    }
                    if !ex.ops[i].made_ready {
                        vio(&mut ex.viol, prop, "fabricated-success", &c, format!("write {i} into a full pipe completed although nobody drained the pipe"));
                    }
                }
                Err(e) if e == libc::ECANCELED && ex.ops[i].cancel_requested => {}
                Err(e) => vio(&mut ex.viol, prop, "unexpected-error", &c, format!("write failed with errno {e}")),
            },
            K::SendZc => match r {
                Ok(_) | Err(_) => {
                    if !no_data && ex.ops[i].ret_ptr != ex.ops[i].buf_ptr {
                        vio(&mut ex.viol, prop, "not-the-submitted-buffer", &c, format!("zero-copy send {i} came back with a different buffer"));
                    }
                }
            },
            _ => {}
        }
        // honesty of results on cancelled ops (C05): handled above by requiring genuine data
    }
    // neighbours of cancelled ops must not have been cancelled
    for i in 0..n {
        if let St::Done(Err(e), _) = &ex.ops[i].st
            && *e == libc::ECANCELED
            && !ex.ops[i].cancel_requested
        {
            // already reported as cancelled-without-request for stream kinds; cover the rest
            if !matches!(ex.ops[i].spec.kind, K::PipeRead | K::SockRecv | K::RecvMulti) {
                let c = ex.ctx(i);
                vio(&mut ex.viol, prop, "cancelled-without-request", &c, format!("op {i} reports cancellation but nobody cancelled it"));
            }
        }
    }
}

/// Can `chunks` be placed, in some order, as consecutive pieces of `stream`
/// starting at `at` (with gaps between them only if `gaps`)?
pub fn arrange(stream: &[u8], chunks: &mut Vec<&[u8]>, at: usize, gaps: bool) -> bool {
    if chunks.is_empty() {
        return true;
    }
    if chunks.len() > 6 {
        // too many to permute: greedy earliest placement
        let mut at = at;
        let mut rest: Vec<&[u8]> = chunks.clone();
        while !rest.is_empty() {
            let mut best: Option<(usize, usize)> = None;
            for (ci, c) in rest.iter().enumerate() {
                let range = if gaps { at..stream.len().saturating_sub(c.len()) + 1 } else { at..at + 1 };
                for p in range {
                    if p + c.len() <= stream.len() && stream[p..].starts_with(c) {
                        if best.is_none_or(|b| p < b.1) {
                            best = Some((ci, p));
                        }
                        break;
                    }
                }
            }
            let Some((ci, p)) = best else { return false };
            at = p + rest[ci].len();
            rest.remove(ci);
        }
        return true;
    }
    for i in 0..chunks.len() {
        let c = chunks[i];
        let last = if gaps { stream.len().saturating_sub(c.len()) } else { at };
        for p in at..=last {
            if p + c.len() <= stream.len() && stream[p..].starts_with(c) {
                chunks.remove(i);
                let ok = arrange(stream, chunks, p + c.len(), gaps);
                chunks.insert(i, c);
                if ok {
                    return true;
                }
            }
        }
    }
    false
}

// ---------------------------------------------------------------------------
// entry point shared by c01 / c02 / c05
// ---------------------------------------------------------------------------

pub fn main_for(prop: &str, focus: Focus, args: &Args) {
    let mut rep = Report::from_args(prop, &args.str("leg", "plain"), args);
    let canary = !args.flag("no-canary");
    let log = !args.flag("no-log");
    let kinds: Vec<K> = match args.get("kinds") {
        Some(s) => s.split(',').filter_map(K::from_name).collect(),
        None => KINDS.to_vec(),
    };
    let drivers: Vec<&'static str> = match args.get("driver") {
        Some("poll") => vec!["poll"],
        Some("iour") => vec!["iour"],
        _ => vec!["iour", "poll"],
    };
    if let Some(path) = args.get("replay") {
        let text = std::fs::read_to_string(path).expect("replay file");
        let v: Value = vcommon::serde_json::from_str(&text).expect("replay json");
        if let Some(p) = Program::from_json(&v["program"]["program"]).or_else(|| Program::from_json(&v["program"])) {
            for _ in 0..args.usize("repeat", 20) {
                run_one(&p, prop, canary, log, &mut rep);
            }
        } else {
            rep.inconclusive("replay file has no program");
        }
        rep.finish();
        return;
    }
    let iters = args.iters(400, 20000);
    let base = Rng::new(args.seed()).fork(args.shard() + 1);
    for it in 0..iters {
        if rep.out_of_time() {
            break;
        }
        let mut rng = base.fork(it as u64);
        let driver = drivers[it % drivers.len()];
        let p = generate(&mut rng, focus, driver, &kinds);
        run_one(&p, prop, canary, log, &mut rep);
    }
    rep.finish();
}

fn run_one(p: &Program, prop: &str, canary: bool, log: bool, rep: &mut Report) {
    let r = panics::catch(|| run_program(p, prop, canary, log));
    match r {
        Ok(o) => {
            for (k, v) in &o.counts {
                rep.count(k, *v);
            }
            if log {
            rep.floor("op-freed-by-ring-close", o.counts.get("freed_by_ring_close").copied().unwrap_or(0) > 0);
            rep.floor("pending-at-proactor-drop", o.counts.get("pending_at_proactor_drop").copied().unwrap_or(0) > 0);
            }
            rep.floor("two-ops-pending-at-once", o.counts.get("max_pending").copied().unwrap_or(0) >= 2);
            if let Some(r) = &o.inconclusive {
                rep.inconclusive(r);
            }
            if o.violations.is_empty() {
                if o.trivial {
                    rep.eval(None);
                } else {
                    rep.eval_bulk(1);
                    for s in o.signatures {
                        rep.sig(s);
                    }
                    if rep.want_sample() && p.acts.len() >= 6 {
                        rep.sample(json!({"program": p.to_json(), "log_head": o.log.iter().take(40).collect::<Vec<_>>()}));
                    }
                }
            } else {
                rep.eval(None);
                let mut seen = std::collections::HashSet::new();
                for (sig, what) in o.violations {
                    if seen.insert(sig.clone()) {
                        rep.violation(&sig, &what, json!({"program": p.to_json(), "log": o.log}));
                    }
                }
            }
        }
        Err(pi) => {
            rep.eval(None);
            // make sure global switches are reset after a panic in the middle of a program
            alloc::quarantine(false);
            verif::enable(false);
            let _ = verif::drain();
            alloc::release_all();
            match pi.origin() {
                panics::Origin::Repo(_) => rep.violation(
                    &format!("{prop}/{}/{}", pi.sig(), p.driver),
                    &format!("panic in compio at {}:{}: {}", pi.file, pi.line, pi.message),
                    json!({"program": p.to_json()}),
                ),
                o => rep.inconclusive(&format!("harness panic {o:?}: {}", pi.message)),
            }
        }
    }
}
