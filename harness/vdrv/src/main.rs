//! Native harness binary for the driver-level properties (fusion build:
//! io_uring + polling drivers), with the quarantining canary allocator.

mod c01;
mod c02;
mod c02r;
mod c03r;
mod c05;
mod c05r;
mod c06;
mod c07;
mod c08p;
mod c10p;
mod c17;
mod drv;

use vcommon::Args;

#[global_allocator]
static GLOBAL: drv::alloc::Canary = drv::alloc::Canary;

fn main() {
    vcommon::panics::install_hook();
    let args = Args::parse();
    match args.cmd.as_str() {
        "noop" => {}
        "c01" => c01::main(&args),
        "c02" => c02::main(&args),
        "c02r" => c02r::main(&args),
        "c03r" => c03r::main(&args),
        "c05" => c05::main(&args),
        "c05r" => c05r::main(&args),
        "c06" => c06::main(&args),
        "c07" => c07::main(&args),
        "c08p" => c08p::main(&args),
        "c10p" => c10p::main(&args),
        "c17" => c17::main(&args),
        other => {
            eprintln!("unknown subcommand {other:?}");
            std::process::exit(3);
        }
    }
}
