//! C03 awake-flag protocol replica (Miri, weak memory) — not built yet.

use vcommon::Args;

pub fn main(_args: &Args) {
    eprintln!("c03f: not implemented");
    std::process::exit(3);
}
