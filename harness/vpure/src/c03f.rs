//! C03 (secondary leg) — protocol replica of the driver's wake flag.
//!
//! MODEL-ASSISTED evidence. The flag is the REAL `AwakeFlag` of compio-driver
//! (re-exported as `compio_driver::VerifAwakeFlag`); everything around it is a
//! ~30-line replica of how the drivers use it:
//!
//! * driver side = `iour::Driver::poll` / `poll::Driver::poll`
//!   (`need_wait = !reset(); wait; set_awake(); poll_entries(); set_awake()`)
//!   and, in mode `flush`, `Driver::flush` (`reset()`, "already notified?")
//!   followed by an external wait on the descriptor and `poll(Some(0))`;
//! * waker side = `Notify::wake_by_ref` (`if !awake.wake() { write(eventfd) }`);
//! * the eventfd / `polling` notifier is a counter plus a condvar;
//! * the thing to be woken for is a *mailbox*: wakers do `posted += 1` before
//!   waking, the driver thread moves `posted` into `seen` whenever it is awake
//!   (this is what `block_on` re-polling the main future / `Executor::tick`
//!   → `drain_sync` does). The mailbox's own orderings are a parameter:
//!   `sc` (SeqCst, the strongest mailbox: isolates the flag) and `ra`
//!   (`fetch_add(Release)` / `load(Acquire)` — what compio-executor's
//!   `Shared::pending` uses in `Remote::schedule` / `drain_sync`).
//!
//! Oracle = mailbox conservation at logical quiescence: once every waker
//! thread has finished, the driver must not be about to block for ever in the
//! (modelled) kernel wait with `posted > seen`. That state *is* the lost
//! wake-up; it is detected logically (all wakers done, eventfd counter zero,
//! driver entering the blocking wait) and reported instead of hanging.
//!
//! Trusted base: the replica mirrors iour::Driver::poll/flush, poll::Driver::poll
//! and Notify::wake_by_ref as of this tree. It would not notice a change of the
//! loop itself (legs on the real runtime do); it does notice changes of the
//! flag's operations/orderings (`reset` losing NOTIFIED or keeping AWAKE, `set`
//! clearing NOTIFIED without acquiring what the waker published, ...).
//!
//! Runs under Miri (real threads, weak-memory emulation, many schedules per
//! process) and natively as a stress (persistent threads, many quiescence
//! rounds per program).
//!
//! `--flag model-*` swaps the real flag for a local copy with one deliberate
//! change (calibration of this monitor only; violation signatures then carry
//! `/CALIBRATION-...`; no leg uses it): `model-copy` (identical), `model-set-swap`
//! (`set()` as `swap(AWAKE, AcqRel)`), `model-reset-keeps-awake`,
//! `model-reset-forgets`.

use std::{
    sync::{
        Arc, Barrier, Condvar, Mutex,
        atomic::{AtomicU8, AtomicU64, AtomicUsize, Ordering},
    },
    thread,
};

use compio_driver::VerifAwakeFlag;
use vcommon::{Args, Report, Rng, json};

#[derive(Clone, Copy, PartialEq, Eq, Debug)]
enum Mode {
    /// `Driver::poll(None)` in a loop (the runtime's own loop).
    Poll,
    /// `Driver::flush()`, external wait on the descriptor, `poll(Some(0))`.
    Flush,
}

#[derive(Clone, Copy, PartialEq, Eq, Debug)]
enum Mailbox {
    Sc,
    Ra,
}

impl Mode {
    fn name(self) -> &'static str {
        match self {
            Mode::Poll => "poll",
            Mode::Flush => "flush",
        }
    }

    fn parse(s: &str) -> Option<Self> {
        match s {
            "poll" => Some(Mode::Poll),
            "flush" => Some(Mode::Flush),
            _ => None,
        }
    }
}

impl Mailbox {
    fn name(self) -> &'static str {
        match self {
            Mailbox::Sc => "sc",
            Mailbox::Ra => "ra",
        }
    }

    fn parse(s: &str) -> Option<Self> {
        match s {
            "sc" => Some(Mailbox::Sc),
            "ra" => Some(Mailbox::Ra),
            _ => None,
        }
    }
}

/// The flag under test. `Real` is compio's `AwakeFlag`; the `Model*` variants
/// are local copies used ONLY to calibrate this monitor (`--flag ...`, never
/// run by a leg, never evidence about compio): the same three operations with
/// one deliberate change each.
enum Flag {
    Real(VerifAwakeFlag),
    Model(AtomicU8, FlagKind),
}

#[derive(Clone, Copy, PartialEq, Eq, Debug)]
enum FlagKind {
    Real,
    /// copy of the real flag (IDLE=0, NOTIFIED=1, AWAKE=2; same orderings)
    Copy,
    /// `set()` is `swap(AWAKE, AcqRel)` instead of `store(AWAKE, Release)`
    SetSwap,
    /// seeded breakage: `reset()` clears NOTIFIED only and leaves AWAKE set
    ResetKeepsAwake,
    /// seeded breakage: `reset()` reports "not notified" unconditionally
    ResetForgets,
}

impl FlagKind {
    fn parse(s: &str) -> Option<Self> {
        Some(match s {
            "real" => FlagKind::Real,
            "model-copy" => FlagKind::Copy,
            "model-set-swap" => FlagKind::SetSwap,
            "model-reset-keeps-awake" => FlagKind::ResetKeepsAwake,
            "model-reset-forgets" => FlagKind::ResetForgets,
            _ => return None,
        })
    }

    fn name(self) -> &'static str {
        match self {
            FlagKind::Real => "real",
            FlagKind::Copy => "model-copy",
            FlagKind::SetSwap => "model-set-swap",
            FlagKind::ResetKeepsAwake => "model-reset-keeps-awake",
            FlagKind::ResetForgets => "model-reset-forgets",
        }
    }
}

impl Flag {
    fn new(kind: FlagKind) -> Self {
        match kind {
            FlagKind::Real => Flag::Real(VerifAwakeFlag::new()),
            k => Flag::Model(AtomicU8::new(0), k),
        }
    }

    fn set(&self) {
        match self {
            Flag::Real(f) => f.set(),
            Flag::Model(a, FlagKind::SetSwap) => {
                a.swap(2, Ordering::AcqRel);
            }
            Flag::Model(a, _) => a.store(2, Ordering::Release),
        }
    }

    fn reset(&self) -> bool {
        match self {
            Flag::Real(f) => f.reset(),
            Flag::Model(a, FlagKind::ResetForgets) => {
                a.swap(0, Ordering::AcqRel);
                false
            }
            Flag::Model(a, FlagKind::ResetKeepsAwake) => a.fetch_and(!1, Ordering::AcqRel) & 1 != 0,
            Flag::Model(a, _) => a.swap(0, Ordering::AcqRel) & 1 != 0,
        }
    }

    fn wake(&self) -> bool {
        match self {
            Flag::Real(f) => f.wake(),
            Flag::Model(a, _) => a.fetch_or(1, Ordering::AcqRel) != 0,
        }
    }
}

#[derive(Clone, Debug)]
struct Round {
    /// wakes issued by each waker thread in this round (>= 0)
    wakes: Vec<usize>,
    /// Per waker: m != 0 = yield before every wake whose index is a multiple
    /// of m (gives the scheduler a switch point; preemption does the rest).
    yields: Vec<usize>,
}

/// One program = one flag + one driver replica thread + `wakers` persistent
/// waker threads, run for several *rounds*. A round ends at logical
/// quiescence (every waker returned from its wakes, driver replica blocked in
/// the modelled kernel wait); the oracle is evaluated there and the driver
/// stays blocked *inside the same wait* when the next round starts, exactly
/// like a runtime that sleeps between bursts of cross-thread wakes.
#[derive(Clone, Debug)]
struct Program {
    mode: Mode,
    mailbox: Mailbox,
    wakers: usize,
    rounds: Vec<Round>,
    /// Driver yields between `set_awake` and the mailbox read?
    driver_yield: bool,
    /// `Real` everywhere except monitor calibration runs
    flag: FlagKind,
}

impl Program {
    fn to_json(&self, upto: usize) -> vcommon::Value {
        json!({
            "mode": self.mode.name(), "mailbox": self.mailbox.name(), "wakers": self.wakers,
            "rounds": self.rounds.iter().take(upto).map(|r| json!({"wakes": r.wakes, "yields": r.yields})).collect::<Vec<_>>(),
            "driver_yield": self.driver_yield, "flag": self.flag.name(),
        })
    }

    fn from_json(v: &vcommon::Value) -> Option<Self> {
        let us = |x: &vcommon::Value| -> Option<Vec<usize>> {
            Some(x.as_array()?.iter().map(|y| y.as_u64().unwrap_or(0) as usize).collect())
        };
        Some(Self {
            mode: Mode::parse(v["mode"].as_str()?)?,
            mailbox: Mailbox::parse(v["mailbox"].as_str()?)?,
            wakers: v["wakers"].as_u64()? as usize,
            rounds: v["rounds"]
                .as_array()?
                .iter()
                .map(|r| Some(Round { wakes: us(&r["wakes"])?, yields: us(&r["yields"])? }))
                .collect::<Option<Vec<_>>>()?,
            driver_yield: v["driver_yield"].as_bool().unwrap_or(false),
            flag: v["flag"].as_str().and_then(FlagKind::parse).unwrap_or(FlagKind::Real),
        })
    }
}

#[derive(Default)]
struct EvState {
    /// every waker has returned from all wakes of the current round
    wakers_done: bool,
    /// the driver reported quiescence for the current round: Some(seen)
    report: Option<u64>,
    exit: bool,
}

/// The modelled eventfd (iour) / `polling` notifier (poll driver).
struct EventFd {
    count: AtomicU64,
    m: Mutex<EvState>,
    cv: Condvar,
    writes: AtomicU64,
}

enum Wait {
    Readable,
    Exit,
}

impl EventFd {
    fn new() -> Self {
        Self {
            count: AtomicU64::new(0),
            m: Mutex::new(EvState::default()),
            cv: Condvar::new(),
            writes: AtomicU64::new(0),
        }
    }

    /// `rustix::io::write(&fd, 1)` / `Poller::notify()`.
    fn write(&self) {
        self.count.fetch_add(1, Ordering::Release);
        self.writes.fetch_add(1, Ordering::Relaxed);
        let _g = self.m.lock().unwrap();
        self.cv.notify_all();
    }

    /// The blocking kernel wait (`io_uring_enter` with `min_complete = 1`,
    /// `epoll_wait(-1)`): returns when the descriptor is readable. While
    /// blocked with nobody left to write (logical quiescence) it reports
    /// `seen` to the harness and keeps waiting.
    fn wait(&self, seen: u64) -> Wait {
        let mut g = self.m.lock().unwrap();
        loop {
            if self.count.load(Ordering::Acquire) > 0 {
                return Wait::Readable;
            }
            if g.exit {
                return Wait::Exit;
            }
            if g.wakers_done && g.report.is_none() {
                g.report = Some(seen);
                self.cv.notify_all();
            }
            g = self.cv.wait(g).unwrap();
        }
    }

    /// `poll_entries` → `Notifier::clear()` when the notifier CQE is there.
    fn clear_if_readable(&self) -> bool {
        if self.count.load(Ordering::Acquire) > 0 {
            self.count.swap(0, Ordering::AcqRel);
            true
        } else {
            false
        }
    }

    /// Harness: all wakers of this round are done; wait until the driver
    /// replica is blocked for good and return what it had seen by then.
    fn quiesce(&self) -> u64 {
        let mut g = self.m.lock().unwrap();
        g.wakers_done = true;
        self.cv.notify_all();
        loop {
            if let Some(seen) = g.report {
                return seen;
            }
            g = self.cv.wait(g).unwrap();
        }
    }

    fn next_round(&self, exit: bool) {
        let mut g = self.m.lock().unwrap();
        g.wakers_done = false;
        g.report = None;
        g.exit = exit;
        self.cv.notify_all();
    }
}

struct World {
    flag: Flag,
    ev: EventFd,
    posted: AtomicU64,
    /// Driver phase for the coverage signature only (Relaxed: adds no
    /// synchronisation). 0 awake/consuming, 1 after reset before the wait,
    /// 2 after the wait before set_awake.
    phase: AtomicUsize,
    /// bitmask of (phase, elided) pairs observed by wakers in this round
    seen_pairs: AtomicUsize,
    elided: AtomicU64,
    loops: AtomicU64,
    blocking: AtomicU64,
    round: AtomicUsize,
}

fn read_mailbox(w: &World, mb: Mailbox) -> u64 {
    match mb {
        Mailbox::Sc => w.posted.load(Ordering::SeqCst),
        Mailbox::Ra => w.posted.load(Ordering::Acquire),
    }
}

/// The replica of the driver thread.
fn driver_loop(w: &World, p: &Program) {
    let mut seen = 0u64;
    loop {
        w.loops.fetch_add(1, Ordering::Relaxed);
        // ---- Driver::flush (external-loop mode only)
        if p.mode == Mode::Flush {
            let notified = w.flag.reset();
            w.phase.store(1, Ordering::Relaxed);
            if !notified {
                // the external loop waits for the descriptor to become
                // readable; it does not consume the counter
                w.blocking.fetch_add(1, Ordering::Relaxed);
                if let Wait::Exit = w.ev.wait(seen) {
                    return;
                }
            }
        }
        // ---- Driver::poll
        let need_wait = !w.flag.reset();
        w.phase.store(1, Ordering::Relaxed);
        if need_wait && p.mode == Mode::Poll {
            w.blocking.fetch_add(1, Ordering::Relaxed);
            if let Wait::Exit = w.ev.wait(seen) {
                return;
            }
        }
        w.phase.store(2, Ordering::Relaxed);
        w.flag.set(); // notifier.set_awake()
        w.ev.clear_if_readable(); // poll_entries(): NOTIFY cqe → notifier.clear()
        w.flag.set(); // notifier.set_awake()
        w.phase.store(0, Ordering::Relaxed);
        if p.driver_yield {
            thread::yield_now();
        }
        // ---- back in the runtime: re-poll the main future / tick()
        seen = seen.max(read_mailbox(w, p.mailbox));
    }
}

fn waker_round(w: &World, p: &Program, idx: usize, r: &Round) {
    let m = r.yields.get(idx).copied().unwrap_or(0);
    for i in 0..r.wakes.get(idx).copied().unwrap_or(0) {
        if m != 0 && i % m == 0 {
            thread::yield_now();
        }
        match p.mailbox {
            Mailbox::Sc => w.posted.fetch_add(1, Ordering::SeqCst),
            Mailbox::Ra => w.posted.fetch_add(1, Ordering::Release),
        };
        let phase = w.phase.load(Ordering::Relaxed);
        // Notify::wake_by_ref
        let e = w.flag.wake();
        if !e {
            w.ev.write();
        } else {
            w.elided.fetch_add(1, Ordering::Relaxed);
        }
        w.seen_pairs.fetch_or(1 << (phase * 2 + e as usize), Ordering::Relaxed);
    }
}

/// Runs the program; returns true if a violation was reported.
fn evaluate(p: &Program, rep: &mut Report) -> bool {
    let w = Arc::new(World {
        flag: Flag::new(p.flag),
        ev: EventFd::new(),
        posted: AtomicU64::new(0),
        phase: AtomicUsize::new(0),
        seen_pairs: AtomicUsize::new(0),
        elided: AtomicU64::new(0),
        loops: AtomicU64::new(0),
        blocking: AtomicU64::new(0),
        round: AtomicUsize::new(0),
    });
    // The driver starts awake (the runtime is running user code).
    w.flag.set();
    let p = Arc::new(p.clone());
    let start = Arc::new(Barrier::new(p.wakers + 1));
    let end = Arc::new(Barrier::new(p.wakers + 1));
    let drv = {
        let (w, p) = (w.clone(), p.clone());
        thread::spawn(move || driver_loop(&w, &p))
    };
    let hs: Vec<_> = (0..p.wakers)
        .map(|i| {
            let (w, p, start, end) = (w.clone(), p.clone(), start.clone(), end.clone());
            thread::spawn(move || {
                loop {
                    start.wait();
                    let r = w.round.load(Ordering::SeqCst);
                    if r >= p.rounds.len() {
                        return;
                    }
                    waker_round(&w, &p, i, &p.rounds[r]);
                    end.wait();
                }
            })
        })
        .collect();
    let mut bad = false;
    let mut expected = 0u64;
    let mut r = 0;
    while r < p.rounds.len() {
        let round = &p.rounds[r];
        w.round.store(r, Ordering::SeqCst);
        w.seen_pairs.store(0, Ordering::SeqCst);
        let (e0, w0) = (w.elided.load(Ordering::SeqCst), w.ev.writes.load(Ordering::SeqCst));
        start.wait();
        end.wait();
        // every wake() of this round has returned
        let seen = w.ev.quiesce();
        let posted = w.posted.load(Ordering::SeqCst);
        let issued: usize = round.wakes.iter().take(p.wakers).sum();
        expected += issued as u64;
        let elided = w.elided.load(Ordering::SeqCst) - e0;
        let writes = w.ev.writes.load(Ordering::SeqCst) - w0;
        let pairs_mask = w.seen_pairs.load(Ordering::SeqCst);
        rep.count("wakes_issued", issued as i64);
        rep.count("wakes_elided", elided as i64);
        rep.count("eventfd_writes", writes as i64);
        rep.floor("saw-elided-wake", elided > 0);
        rep.floor("saw-eventfd-write", writes > 0);
        // coverage signature: (mode, mailbox, wakers, (phase, elided) pairs)
        let mut pairs = String::new();
        for ph in 0..3 {
            for e in 0..2 {
                if pairs_mask & (1 << (ph * 2 + e)) != 0 {
                    pairs.push_str(["a", "r", "w"][ph]);
                    pairs.push_str(["s", "e"][e]);
                }
            }
        }
        // non-trivial: at least one wake landed while the driver was not
        // running (after reset / around the kernel wait)
        let nontrivial = pairs_mask & 0b11_1100 != 0;
        rep.eval(nontrivial.then(|| {
            let wc = match issued {
                0..=4 => issued.to_string(),
                5..=16 => "le16".into(),
                17..=256 => "le256".into(),
                _ => "gt256".into(),
            };
            let ys = round.yields.iter().take(p.wakers).filter(|m| **m != 0).count();
            format!("replica:{}:{}:n{}:w{}:y{}{}:{}", p.mode.name(), p.mailbox.name(), p.wakers, wc, ys,
                    if p.driver_yield { "d" } else { "" }, pairs)
        }));
        if rep.want_sample() && nontrivial {
            rep.sample(json!({"mode": p.mode.name(), "mailbox": p.mailbox.name(), "wakers": p.wakers, "round": r,
                              "wakes": round.wakes, "posted": posted, "seen": seen, "elided": elided,
                              "eventfd_writes": writes, "phase_pairs": pairs}));
        }
        if posted != expected {
            rep.inconclusive("harness: posted counter does not match the program");
        }
        r += 1;
        if seen < posted {
            bad = true;
            rep.violation(
                &format!(
                    "C03/flag-replica/lost-wake/{}/mailbox-{}{}",
                    p.mode.name(),
                    p.mailbox.name(),
                    if p.flag == FlagKind::Real { String::new() } else { format!("/CALIBRATION-{}", p.flag.name()) }
                ),
                &format!(
                    "model-assisted (replica of Driver::poll/flush + Notify::wake_by_ref around the real AwakeFlag): all {} \
                     waker threads returned from wake(), the driver replica is blocked in the kernel wait with eventfd counter 0, \
                     but posted={} > seen={} (this round: {} wakes, {} elided, {} eventfd writes): a wake-up was dropped, not coalesced",
                    p.wakers, posted, seen, issued, elided, writes
                ),
                json!({"program": p.to_json(r), "reps": 2000}),
            );
            break;
        } else if seen > posted {
            rep.inconclusive("harness: seen > posted");
        }
        w.ev.next_round(false);
    }
    rep.count("driver_loops", w.loops.load(Ordering::SeqCst) as i64);
    rep.count("blocking_waits", w.blocking.load(Ordering::SeqCst) as i64);
    rep.floor("saw-blocking-wait", w.blocking.load(Ordering::SeqCst) > 1);
    // shut down: wakers leave at the next start barrier, the driver at exit
    w.round.store(usize::MAX, Ordering::SeqCst);
    start.wait();
    w.ev.next_round(true);
    for h in hs {
        h.join().expect("waker thread");
    }
    drv.join().expect("driver replica thread");
    bad
}

fn gen_program(rng: &mut Rng, modes: &[Mode], mailboxes: &[Mailbox], max_wakers: usize, max_wakes: usize, rounds: usize, flag: FlagKind) -> Program {
    let wakers = rng.range(1, max_wakers);
    Program {
        mode: *rng.pick(modes),
        mailbox: *rng.pick(mailboxes),
        wakers,
        rounds: (0..rng.range(1, rounds))
            .map(|_| Round {
                // at least one waker wakes; some sit a round out
                wakes: (0..wakers).map(|i| if i == 0 || rng.chance(3, 4) { rng.range(1, max_wakes) } else { 0 }).collect(),
                yields: (0..wakers).map(|_| if rng.chance(1, 3) { 0 } else { rng.range(1, 3) }).collect(),
            })
            .collect(),
        driver_yield: rng.chance(1, 3),
        flag,
    }
}

pub fn main(args: &Args) {
    let leg = args.str("leg", "native");
    let mut rep = Report::from_args("C03", &leg, args);
    rep.note(
        "c03f is MODEL-ASSISTED: the real AwakeFlag driven by a replica of iour::Driver::poll/flush, poll::Driver::poll and \
         Notify::wake_by_ref; eventfd = counter + condvar; mailbox orderings: sc = SeqCst, ra = Release/Acquire as \
         compio-executor's Shared::pending. A change to the real loop is not seen here (runtime legs do that).",
    );
    if let Some(path) = args.get("replay") {
        let text = std::fs::read_to_string(path).expect("replay file");
        let v: vcommon::Value = vcommon::serde_json::from_str(&text).expect("replay json");
        let Some(p) = Program::from_json(&v["program"]["program"]) else {
            rep.inconclusive("replay file has no c03f program (crash replays carry only stderr)");
            rep.finish();
            return;
        };
        let reps = args.usize("reps", v["program"]["reps"].as_u64().unwrap_or(2000) as usize);
        let reps = if cfg!(miri) { reps.min(300) } else { reps };
        for _ in 0..reps {
            if evaluate(&p, &mut rep) || rep.out_of_time() {
                break;
            }
        }
        rep.finish();
        return;
    }
    let modes: Vec<Mode> = match args.get("mode") {
        Some(m) => vec![Mode::parse(m).expect("--mode poll|flush")],
        None => vec![Mode::Poll, Mode::Flush],
    };
    let mailboxes: Vec<Mailbox> = match args.get("mailbox") {
        Some(m) => m.split(',').map(|m| Mailbox::parse(m).expect("--mailbox sc|ra")).collect(),
        None => vec![Mailbox::Sc, Mailbox::Ra],
    };
    let flag = FlagKind::parse(&args.str("flag", "real")).expect("--flag real|model-copy|model-set-swap|model-reset-keeps-awake|model-reset-forgets");
    if flag != FlagKind::Real {
        rep.note(format!("CALIBRATION RUN with --flag {}: not the real AwakeFlag, not evidence about compio", flag.name()));
    }
    let max_wakers = args.usize("max-wakers", if cfg!(miri) { 3 } else { 6 });
    let max_wakes = args.usize("max-wakes", 4);
    let rounds = args.usize("rounds", if cfg!(miri) { 4 } else { 200 });
    let iters = args.iters(if cfg!(miri) { 40 } else { 400 }, if cfg!(miri) { 800 } else { 8_000 });
    let base = Rng::new(args.seed()).fork(args.shard() + 1);
    // Shift Miri's own schedule stream per shard (its seed is per process).
    for _ in 0..(args.shard() * 7 + args.seed() % 5) {
        thread::yield_now();
    }
    for i in 0..iters {
        if rep.out_of_time() {
            break;
        }
        let mut rng = base.fork(i as u64);
        let p = gen_program(&mut rng, &modes, &mailboxes, max_wakers, max_wakes, rounds, flag);
        evaluate(&p, &mut rep);
    }
    rep.finish();
}
