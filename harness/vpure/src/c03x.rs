//! C03 (executor legs) — "a wake-up from any thread is never lost", checked on
//! the REAL `compio-executor` with real threads as *mailbox conservation*.
//!
//! Waker threads do `posted[t] += 1; waker[t].wake()`. Task `t`, on every
//! poll, moves `posted[t]` into `seen[t]`. After every waking thread has
//! returned from `wake()` (signalled / joined), the executor's owner must poll
//! the task again within a bounded number of its own steps, so finally
//! `seen == posted`. Coalescing is allowed (polls <= wakes), dropping is not.
//!
//! Two owner models ("drive" modes), because the executor only promises to
//! call `ExecutorConfig::waker` "when a task is scheduled" and the real owner
//! (compio-runtime) sleeps in the kernel unless told otherwise:
//!
//! * `always` — the home thread ticks unconditionally. Quiescence bound:
//!   after all wakers returned, `ceil(tasks / max_interval) + 1` further
//!   `tick()`s (<= 3 for the Miri configurations) must make `seen == posted`.
//!   Derivation: the first `tick()` drains the whole sync queue (all pushes
//!   happened-before), which appends every woken task to the FIFO hot list;
//!   each tick runs `max_interval` tasks from the head.
//! * `notify` — the home thread ticks only when the owner waker has been
//!   invoked since the beginning of its previous tick, or the previous
//!   `tick()` returned `true` (hot tasks left); otherwise it is "asleep".
//!   At quiescence (all wakers returned, owner asleep, no notification
//!   outstanding) `seen < posted` is a wake-up that a sleeping owner would
//!   never see: the id sits in the sync queue but nobody was told.
//!
//! Also checked:
//! * `polls(t) - 1 <= owner notifications attributed to wakes of t` (+ local
//!   ones): every id that was pushed (and therefore caused a poll) was
//!   followed/preceded by exactly one owner notification on the pushing
//!   thread — "invoked at least once per non-coalesced wake";
//! * queue size 1/2 forces the "queue full → the waking thread waits, does
//!   not discard" branch; a waking thread that has not returned although the
//!   executor ticked (drained) `STUCK_TICKS` times with a yield after each is
//!   reported (Miri: violation, its scheduler gives every runnable thread a
//!   turn per yield; native: inconclusive — cannot be told from starvation
//!   of the OS thread without a clock);
//! * Miri: data races / UB / leaks on the executor's queue, state word and
//!   `Shared` under weak-memory emulation.
//!
//! Harness-side state is atomics with `Relaxed`/`SeqCst` *counters only*; the
//! hand-over of wakers to the threads uses thread spawn (a natural
//! happens-before), the end-of-epoch signal is a SeqCst counter (= "the
//! thread returned from wake()").

use std::{
    cell::{Cell, RefCell},
    future::Future,
    pin::Pin,
    rc::Rc,
    sync::{
        Arc,
        atomic::{AtomicBool, AtomicU64, AtomicUsize, Ordering::*},
    },
    task::{Context, Poll, Wake, Waker},
    thread,
};

use compio_executor::{Executor, ExecutorConfig};
use vcommon::{Args, Report, Rng, Value, json, panics};

// ---------------------------------------------------------------------------
// Program
// ---------------------------------------------------------------------------

#[derive(Clone, Debug)]
struct Program {
    /// sync queue size
    q: usize,
    tasks: usize,
    wakers: usize,
    /// wakes per waker thread per epoch
    wakes: usize,
    max_interval: u32,
    /// "always" | "notify"
    notify: bool,
    /// owner waker configured at all
    owner: bool,
    /// yields inside the owner callback (a slow notify syscall)
    slow: u32,
    epochs: usize,
    /// seed of the per-thread yield/target choices
    salt: u64,
    /// percentage of wakes preceded by yields
    yield_pct: usize,
}

impl Program {
    fn to_json(&self) -> Value {
        json!({"q": self.q, "tasks": self.tasks, "wakers": self.wakers, "wakes": self.wakes, "m": self.max_interval,
               "notify": self.notify, "owner": self.owner, "slow": self.slow, "epochs": self.epochs,
               "salt": self.salt, "yield_pct": self.yield_pct})
    }

    fn from_json(v: &Value) -> Option<Self> {
        Some(Self {
            q: v["q"].as_u64()? as usize,
            tasks: v["tasks"].as_u64()? as usize,
            wakers: v["wakers"].as_u64()? as usize,
            wakes: v["wakes"].as_u64()? as usize,
            max_interval: v["m"].as_u64()? as u32,
            notify: v["notify"].as_bool()?,
            owner: v["owner"].as_bool()?,
            slow: v["slow"].as_u64()? as u32,
            epochs: v["epochs"].as_u64()? as usize,
            salt: v["salt"].as_u64()?,
            yield_pct: v["yield_pct"].as_u64()? as usize,
        })
    }

    /// Queue class for violation signatures. (Several ids of one task can be
    /// in flight: `Task::run` clears SCHEDULED while an earlier waker is still
    /// between `start_scheduling` and its push, so even queue 1 / 1 task fills up.)
    fn qclass(&self) -> &'static str {
        if self.q <= 3 { "small-queue" } else { "large-queue" }
    }
}

// ---------------------------------------------------------------------------
// Instrumentation
// ---------------------------------------------------------------------------

struct Mailbox {
    posted: AtomicU64,
    seen: AtomicU64,
    polls: AtomicU64,
    /// owner notifications observed on a waking thread during a wake of this task
    notified: AtomicU64,
    /// polls on a thread other than home (C04's business, but free to see here)
    foreign_polls: AtomicU64,
}

struct World {
    mb: Vec<Mailbox>,
    /// home thread: number of ticks started
    ticks: AtomicU64,
    /// 0 idle/asleep, 1 inside tick, 2 between ticks (awake)
    phase: AtomicUsize,
    /// owner notifications (all threads)
    owner_calls: AtomicU64,
    /// owner notifications from the home thread (local wakes)
    owner_calls_home: AtomicU64,
    slow: u32,
    home: thread::ThreadId,
    /// epoch release / completion
    go: AtomicU64,
    done: AtomicU64,
    /// wake() calls entered / returned
    entered: AtomicU64,
    returned: AtomicU64,
    abort: AtomicBool,
    /// diagnosis only: 1 wake entered, 2 owner callback entered, 3 owner callback left, 4 wake returned
    stage: AtomicUsize,
}

thread_local! {
    /// owner callbacks seen by this thread
    static TL_OWNER: Cell<u64> = const { Cell::new(0) };
    /// `ticks` at the time of the last owner callback on this thread
    static TL_OWNER_TICK: Cell<u64> = const { Cell::new(0) };
}

struct OwnerWaker(Arc<World>);

impl Wake for OwnerWaker {
    fn wake(self: Arc<Self>) {
        self.wake_by_ref()
    }

    fn wake_by_ref(self: &Arc<Self>) {
        let w = &self.0;
        w.stage.store(2, Relaxed);
        w.owner_calls.fetch_add(1, SeqCst);
        if thread::current().id() == w.home {
            w.owner_calls_home.fetch_add(1, Relaxed);
        }
        TL_OWNER.with(|c| c.set(c.get() + 1));
        TL_OWNER_TICK.with(|c| c.set(w.ticks.load(Relaxed)));
        for _ in 0..w.slow {
            thread::yield_now();
        }
        w.stage.store(3, Relaxed);
    }
}

struct MailFut {
    idx: usize,
    w: Arc<World>,
    slot: Rc<RefCell<Vec<Option<Waker>>>>,
    stop: Rc<Cell<bool>>,
}

impl Future for MailFut {
    type Output = usize;

    fn poll(self: Pin<&mut Self>, cx: &mut Context<'_>) -> Poll<usize> {
        let mb = &self.w.mb[self.idx];
        mb.polls.fetch_add(1, Relaxed);
        if thread::current().id() != self.w.home {
            mb.foreign_polls.fetch_add(1, Relaxed);
        }
        // the mailbox: everything posted so far is now seen
        let p = mb.posted.load(SeqCst);
        mb.seen.fetch_max(p, SeqCst);
        let mut s = self.slot.borrow_mut();
        if s[self.idx].as_ref().is_none_or(|w| !w.will_wake(cx.waker())) {
            s[self.idx] = Some(cx.waker().clone());
        }
        if self.stop.get() { Poll::Ready(self.idx) } else { Poll::Pending }
    }
}

#[derive(Default)]
struct ThreadStats {
    wakes: u64,
    coalesced: u64,
    notified: u64,
    waited: u64,
    phases: usize,
}

fn waker_thread(w: Arc<World>, p: Program, tid: usize, wakers: Vec<Waker>) -> ThreadStats {
    let mut st = ThreadStats::default();
    let mut rng = Rng::new(p.salt).fork(tid as u64 + 1);
    let mut wakers: Vec<Option<Waker>> = wakers.into_iter().map(Some).collect();
    'outer: for e in 0..p.epochs {
        // wait for the epoch to be released
        let mut spins = 0u64;
        while w.go.load(SeqCst) <= e as u64 {
            if w.abort.load(Relaxed) {
                break 'outer;
            }
            spins += 1;
            if cfg!(miri) || spins % 64 == 0 {
                thread::yield_now();
            } else {
                std::hint::spin_loop();
            }
        }
        for j in 0..p.wakes {
            if rng.below(100) < p.yield_pct {
                for _ in 0..rng.range(1, 3) {
                    thread::yield_now();
                }
            } else if !cfg!(miri) && rng.chance(1, 4) {
                for _ in 0..rng.below(200) {
                    std::hint::spin_loop();
                }
            }
            let t = rng.below(p.tasks);
            let mb = &w.mb[t];
            mb.posted.fetch_add(1, SeqCst);
            let before = TL_OWNER.with(|c| c.get());
            st.phases |= 1 << w.phase.load(Relaxed);
            w.entered.fetch_add(1, SeqCst);
            w.stage.store(1, Relaxed);
            let last = e + 1 == p.epochs && j + 1 == p.wakes;
            match rng.below(4) {
                // consuming wake of a fresh clone
                0 => wakers[t].as_ref().expect("waker").clone().wake(),
                // consuming wake of our only handle at the very end
                1 if last => wakers[t].take().expect("waker").wake(),
                _ => wakers[t].as_ref().expect("waker").wake_by_ref(),
            }
            w.stage.store(4, Relaxed);
            w.returned.fetch_add(1, SeqCst);
            let delta = TL_OWNER.with(|c| c.get()) - before;
            st.wakes += 1;
            if delta == 0 {
                st.coalesced += 1;
            } else {
                st.notified += delta;
                mb.notified.fetch_add(delta, Relaxed);
                // did the executor tick between our notification and our return?
                if w.ticks.load(Relaxed) != TL_OWNER_TICK.with(|c| c.get()) {
                    st.waited += 1;
                }
            }
        }
        w.done.fetch_add(1, SeqCst);
    }
    // remaining wakers are dropped here, on the foreign thread
    st
}

// ---------------------------------------------------------------------------
// One program
// ---------------------------------------------------------------------------

#[derive(Default)]
struct Outcome {
    violations: Vec<(String, String)>,
    inconclusive: Option<String>,
    stuck: bool,
    blocked: u64,
    wakes: u64,
    coalesced: u64,
    notified: u64,
    waited: u64,
    phases: usize,
    polls: u64,
    spurious: u64,
    max_final_ticks: u64,
    ticks: u64,
    detail: Value,
}

/// Ticks with yields a waking thread gets to return from `wake()` while the
/// executor keeps draining.
const STUCK_TICKS: u64 = if cfg!(miri) { 400_000 } else { 500_000 };
/// Native: after this many rounds every further round also sleeps 100 us, so the watchdog is >= 40 s of an otherwise
/// idle owner, not a few hundred milliseconds of spinning (a descheduled OS thread must not trip it).
const FAST_ROUNDS: u64 = 100_000;
/// Owner yields without any change before wakers count as blocked.
// (Miri: crossbeam's push backs off with up to 64 `spin_loop` hints — each a yield in Miri — per spuriously failed
// weak CAS, failure rate 0.8: a healthy wake() can need hundreds of scheduler turns.)
const BLOCKED_IDLE: u64 = if cfg!(miri) { 20_000 } else { 200_000 };

fn run_program(p: &Program) -> Outcome {
    let mut out = Outcome::default();
    let w = Arc::new(World {
        mb: (0..p.tasks)
            .map(|_| Mailbox {
                posted: AtomicU64::new(0),
                seen: AtomicU64::new(0),
                polls: AtomicU64::new(0),
                notified: AtomicU64::new(0),
                foreign_polls: AtomicU64::new(0),
            })
            .collect(),
        ticks: AtomicU64::new(0),
        phase: AtomicUsize::new(2),
        owner_calls: AtomicU64::new(0),
        owner_calls_home: AtomicU64::new(0),
        slow: p.slow,
        home: thread::current().id(),
        go: AtomicU64::new(0),
        done: AtomicU64::new(0),
        entered: AtomicU64::new(0),
        returned: AtomicU64::new(0),
        abort: AtomicBool::new(false),
        stage: AtomicUsize::new(0),
    });
    let exe = Executor::with_config(ExecutorConfig {
        sync_queue_size: p.q,
        local_queue_size: 4,
        max_interval: p.max_interval,
        waker: p.owner.then(|| Waker::from(Arc::new(OwnerWaker(w.clone())))),
    });
    let slot = Rc::new(RefCell::new(vec![None; p.tasks]));
    let stop = Rc::new(Cell::new(false));
    let mut handles = Vec::new();
    for idx in 0..p.tasks {
        handles.push(exe.spawn(MailFut {
            idx,
            w: w.clone(),
            slot: slot.clone(),
            stop: stop.clone(),
        }));
    }
    let tick = |exe: &Executor| -> bool {
        w.ticks.fetch_add(1, Relaxed);
        w.phase.store(1, Relaxed);
        let hot = exe.tick();
        w.phase.store(2, Relaxed);
        hot
    };
    // first polls: register wakers
    let mut guard = 0;
    while slot.borrow().iter().any(|s| s.is_none()) {
        tick(&exe);
        guard += 1;
        if guard > p.tasks as u64 + 4 {
            out.violations.push((
                "C03/executor/spawned-task-not-polled".into(),
                format!("a spawned task was not polled within {guard} ticks (max_interval {})", p.max_interval),
            ));
            return out;
        }
    }
    while tick(&exe) {}
    let threads: Vec<_> = (0..p.wakers)
        .map(|tid| {
            let w = w.clone();
            let p = p.clone();
            let wakers: Vec<Waker> = slot.borrow().iter().map(|s| s.clone().expect("waker")).collect();
            thread::spawn(move || waker_thread(w, p, tid, wakers))
        })
        .collect();
    // the home thread no longer needs its own waker clones
    if p.salt & 1 == 0 {
        slot.borrow_mut().iter_mut().for_each(|s| *s = None);
    }

    let bound = (p.tasks as u64).div_ceil(p.max_interval as u64) + 1;
    let conserved = |w: &World| w.mb.iter().all(|m| m.seen.load(SeqCst) >= m.posted.load(SeqCst));
    let mut last_notify = w.owner_calls.load(SeqCst);
    let mut hot = false;
    let mut hrng = Rng::new(p.salt).fork(0);
    let mut stable = ((0u64, 0u64, 0u64, 0u64), 0u64);
    'epochs: for e in 0..p.epochs {
        w.go.store(e as u64 + 1, SeqCst);
        let target = ((e + 1) * p.wakers) as u64;
        let mut iter = 0u64;
        // ---- concurrent phase: wakers are waking, the owner runs
        while w.done.load(SeqCst) < target {
            iter += 1;
            if !cfg!(miri) && iter > FAST_ROUNDS {
                thread::sleep(std::time::Duration::from_micros(100));
            }
            if iter > STUCK_TICKS {
                out.stuck = true;
                let msg = format!(
                    "{} of {} wake() calls have not returned after {} executor ticks (each drains the sync queue) with a yield \
                     after each; queue size {}",
                    w.entered.load(SeqCst) - w.returned.load(SeqCst),
                    w.entered.load(SeqCst),
                    STUCK_TICKS,
                    p.q
                );
                if cfg!(miri) {
                    out.violations.push((format!("C03/executor/waker-stuck-in-wake/{}", p.qclass()), msg));
                } else {
                    out.inconclusive = Some(format!("watchdog: {msg}"));
                }
                w.abort.store(true, SeqCst);
                break 'epochs;
            }
            if p.notify {
                let n = w.owner_calls.load(SeqCst);
                if n != last_notify || hot {
                    last_notify = n;
                    hot = tick(&exe);
                } else {
                    // asleep
                    w.phase.store(0, Relaxed);
                    thread::yield_now();
                    w.phase.store(2, Relaxed);
                    // Wakers blocked on a full queue while the owner sleeps: every
                    // wake() that is in progress has already notified (it does so
                    // before it waits for room), the owner consumed that
                    // notification and drained, somebody refilled the queue and
                    // finished; nothing changes any more.
                    let snap = (w.entered.load(SeqCst), w.returned.load(SeqCst), w.done.load(SeqCst), n);
                    if snap.0 > snap.1 && snap == stable.0 {
                        stable.1 += 1;
                    } else {
                        stable = (snap, 0);
                    }
                    if stable.1 >= BLOCKED_IDLE {
                        stable.1 = 0;
                        let stage = w.stage.load(Relaxed);
                        let oc = w.owner_calls.load(SeqCst);
                        // confirm: one unprompted drain lets them return
                        let before = w.returned.load(SeqCst);
                        hot = tick(&exe);
                        let mut k = 0;
                        while w.returned.load(SeqCst) == before && k < BLOCKED_IDLE {
                            thread::yield_now();
                            k += 1;
                        }
                        let freed = w.returned.load(SeqCst) - before;
                        let msg = format!(
                            "[last stage {stage}, owner_calls {} last_seen {last_notify}] {} wake() call(s) in progress, the owner asleep with no notification outstanding and no thread \
                             outside wake(): nothing changed for {BLOCKED_IDLE} owner yields; one unprompted tick (drain) let \
                             {freed} of them return. Queue size {}, {} tasks: Remote::schedule notifies before waiting for \
                             room, the owner drained, another waker took the slot, and nobody notifies again",
                            oc,
                            snap.0 - snap.1,
                            p.q,
                            p.tasks
                        );
                        out.blocked += 1;
                        if cfg!(miri) {
                            if freed > 0 && !out.violations.iter().any(|(s, _)| s.contains("wakers-blocked")) {
                                out.violations.push((
                                    format!("C03/executor/wakers-blocked-owner-asleep-un-notified/{}", p.qclass()),
                                    msg,
                                ));
                            }
                        } else if out.inconclusive.is_none() {
                            // an OS thread may simply not have been scheduled: not a verdict
                            out.inconclusive = Some(format!(
                                "native: wakers looked blocked on a full queue with the owner asleep (q={}, recovered by a forced drain: {})",
                                p.q,
                                freed > 0
                            ));
                        }
                    }
                }
            } else {
                hot = tick(&exe);
                if cfg!(miri) || hrng.chance(1, 8) {
                    thread::yield_now();
                }
            }
        }
        // ---- quiescence: every waker of this epoch has returned from wake()
        let mut final_ticks = 0u64;
        if p.notify {
            // run the owner to its fixpoint exactly as above
            loop {
                let n = w.owner_calls.load(SeqCst);
                if n == last_notify && !hot {
                    break;
                }
                last_notify = n;
                hot = tick(&exe);
                final_ticks += 1;
                if final_ticks > bound + 8 {
                    break;
                }
            }
            if !conserved(&w) {
                // a sleeping owner: nothing will ever wake it
                let stranded: Vec<_> = w
                    .mb
                    .iter()
                    .enumerate()
                    .filter(|(_, m)| m.seen.load(SeqCst) < m.posted.load(SeqCst))
                    .map(|(i, m)| json!({"task": i, "posted": m.posted.load(SeqCst), "seen": m.seen.load(SeqCst)}))
                    .collect();
                // evidence: is the id in the queue? one unconditional tick tells
                let mut extra = 0;
                while !conserved(&w) && extra < bound + 4 {
                    tick(&exe);
                    extra += 1;
                }
                let recovered = conserved(&w);
                out.violations.push((
                    if recovered {
                        format!("C03/executor/owner-not-notified-after-push/{}/id-queued-owner-asleep", p.qclass())
                    } else {
                        format!("C03/executor/wake-lost/notify/{}", p.qclass())
                    },
                    format!(
                        "all {} waker threads returned from wake(); the owner ticked after every notification it got \
                         ({} in total) and is now asleep with no notification outstanding, yet {:?} still has posted > seen. \
                         {} unconditional extra tick(s) {} the mailbox: the task id {} — Remote::schedule notifies the owner \
                         only *before* waiting for room in a full queue and not again after the push succeeded",
                        p.wakers,
                        w.owner_calls.load(SeqCst),
                        stranded,
                        extra,
                        if recovered { "drained" } else { "did NOT drain" },
                        if recovered { "was sitting in the sync queue" } else { "is gone" },
                    ),
                ));
                if !recovered {
                    break 'epochs;
                }
                last_notify = w.owner_calls.load(SeqCst);
                hot = false;
            } else if final_ticks > bound {
                out.violations.push((
                    format!("C03/executor/wake-late/notify/{}", p.qclass()),
                    format!("needed {final_ticks} notified ticks after all wakers returned; bound {bound}"),
                ));
            }
        } else {
            while !conserved(&w) && final_ticks < bound + 16 {
                tick(&exe);
                final_ticks += 1;
            }
            if !conserved(&w) {
                out.violations.push((
                    format!("C03/executor/wake-lost/always/{}", p.qclass()),
                    format!(
                        "all {} waker threads returned from wake(), {} further ticks did not poll the task: {:?}",
                        p.wakers,
                        final_ticks,
                        w.mb.iter().map(|m| (m.posted.load(SeqCst), m.seen.load(SeqCst))).collect::<Vec<_>>()
                    ),
                ));
                break 'epochs;
            } else if final_ticks > bound {
                out.violations.push((
                    format!("C03/executor/wake-late/always/{}", p.qclass()),
                    format!(
                        "needed {final_ticks} ticks after all wakers returned; bound ceil(tasks/max_interval)+1 = {bound}"
                    ),
                ));
            }
        }
        out.max_final_ticks = out.max_final_ticks.max(final_ticks);
    }
    // threads waiting for an epoch that will not be released any more
    w.abort.store(true, SeqCst);
    if out.stuck {
        // threads may still be inside wake(): nothing can be joined or freed.
        std::mem::forget(handles);
        std::mem::forget(exe);
        return out;
    }
    for t in threads {
        match t.join() {
            Ok(st) => {
                out.wakes += st.wakes;
                out.coalesced += st.coalesced;
                out.notified += st.notified;
                out.waited += st.waited;
                out.phases |= st.phases;
            }
            Err(_) => out.inconclusive = Some("harness: waker thread panicked".into()),
        }
    }
    // per-task accounting
    for (i, m) in w.mb.iter().enumerate() {
        let polls = m.polls.load(SeqCst);
        out.polls += polls;
        let posted = m.posted.load(SeqCst);
        if m.foreign_polls.load(SeqCst) != 0 {
            out.violations.push(("C03/executor/polled-off-home-thread".into(), format!("task {i} polled on a foreign thread")));
        }
        // every poll after the spawn poll stems from one pushed id
        if polls > posted + 1 {
            out.spurious += polls - posted - 1;
        }
        if p.owner && polls.saturating_sub(1) > m.notified.load(SeqCst) && out.violations.is_empty() {
            out.violations.push((
                format!("C03/executor/owner-notified-less-than-pushes/{}", p.qclass()),
                format!(
                    "task {i}: {} polls after the spawn poll (each needs one id pushed by a remote wake) but only {} owner \
                     notifications were made by the waking threads during wakes of this task",
                    polls - 1,
                    m.notified.load(SeqCst)
                ),
            ));
        }
    }
    out.ticks = w.ticks.load(SeqCst);
    out.detail = json!({
        "posted": w.mb.iter().map(|m| m.posted.load(SeqCst)).collect::<Vec<_>>(),
        "polls": w.mb.iter().map(|m| m.polls.load(SeqCst)).collect::<Vec<_>>(),
        "owner_calls": w.owner_calls.load(SeqCst), "ticks": out.ticks, "coalesced": out.coalesced,
        "waited_for_room": out.waited,
    });
    // orderly end: let the tasks finish, take their results, free everything
    // (Miri's leak check is on for this leg)
    stop.set(true);
    let home_wakers: Vec<Waker> = slot.borrow_mut().iter_mut().filter_map(|s| s.take()).collect();
    for hw in &home_wakers {
        hw.wake_by_ref();
    }
    drop(home_wakers);
    let mut t = 0;
    while handles.iter().any(|h| !h.is_finished()) && t < p.tasks + 8 {
        tick(&exe);
        t += 1;
    }
    for (i, h) in handles.into_iter().enumerate() {
        if h.is_finished() {
            let mut h = h;
            let w0 = Waker::noop();
            let mut cx = Context::from_waker(w0);
            match Pin::new(&mut h).poll(&mut cx) {
                Poll::Ready(Ok(v)) if v == i => {}
                Poll::Ready(Ok(v)) => out.violations.push(("C03/executor/wrong-join-value".into(), format!("task {i} joined {v}"))),
                Poll::Ready(Err(e)) => out.violations.push(("C03/executor/join-error".into(), format!("task {i}: {e}"))),
                Poll::Pending => out.violations.push(("C03/executor/finished-but-pending".into(), format!("task {i}"))),
            }
        } else {
            // only reachable when every waker was consumed by the threads
            // (no home copy left): fine, dropped with the executor
            drop(h);
        }
    }
    drop(exe);
    out
}

fn evaluate(p: &Program, rep: &mut Report, leg: &str) -> bool {
    let o = match panics::catch(|| run_program(p)) {
        Ok(o) => o,
        Err(info) => {
            match info.origin() {
                panics::Origin::Repo(l) => rep.violation(
                    &format!("C03/executor/{}", info.sig()),
                    &format!("panic inside compio at {l}: {}", info.message),
                    json!({"program": p.to_json(), "reps": if cfg!(miri) { 200 } else { 3000 }}),
                ),
                o => rep.inconclusive(&format!("harness panic {o:?}: {}", info.message)),
            }
            return true;
        }
    };
    rep.count("wakes_issued", o.wakes as i64);
    rep.count("wakes_coalesced", o.coalesced as i64);
    rep.count("owner_notifications_by_wakers", o.notified as i64);
    rep.count("wakes_that_waited_across_a_tick", o.waited as i64);
    rep.count("task_polls", o.polls as i64);
    rep.count("spurious_polls", o.spurious as i64);
    rep.count("executor_ticks", o.ticks as i64);
    rep.count("wakers_blocked_on_full_queue_owner_asleep", o.blocked as i64);
    rep.max("max_ticks_needed_at_quiescence", o.max_final_ticks as i64);
    rep.floor("saw-coalesced-wake", o.coalesced > 0);
    rep.floor("saw-wake-waiting-across-a-tick(small-queue)", o.waited > 0);
    rep.floor("saw-wake-while-owner-asleep-or-ticking", o.phases & 0b011 != 0);
    let mut ph = String::new();
    for (i, c) in ["s", "t", "a"].iter().enumerate() {
        if o.phases & (1 << i) != 0 {
            ph.push_str(c);
        }
    }
    let nontrivial = o.wakes > 0 && (o.notified > 0 || !p.owner);
    rep.eval(nontrivial.then(|| {
        format!(
            "x:{leg}:q{}:t{}:n{}:m{}:{}:ph-{}:co{}:wt{}:slow{}",
            p.q,
            p.tasks.min(3),
            p.wakers.min(4),
            p.max_interval,
            if p.notify { "notify" } else { "always" },
            ph,
            (o.coalesced > 0) as u8,
            (o.waited > 0) as u8,
            (p.slow > 0) as u8
        )
    }));
    if rep.want_sample() {
        rep.sample(json!({"program": p.to_json(), "observed": o.detail}));
    }
    if let Some(r) = &o.inconclusive {
        rep.inconclusive(r);
    }
    for (sig, what) in &o.violations {
        rep.violation(sig, what, json!({"program": p.to_json(), "reps": if cfg!(miri) { 200 } else { 3000 }}));
    }
    if o.stuck {
        // threads are still inside compio; the process cannot continue sanely
        rep.note("a waker thread was stuck inside wake(): process ended early");
        rep.finish();
        std::process::exit(0);
    }
    !o.violations.is_empty()
}

fn gen_program(rng: &mut Rng, args: &Args, stress: bool) -> Program {
    if stress {
        let threads = args.usize("threads", 16);
        let wakers = rng.range(2, threads.max(2));
        let total = args.usize("max-wakes", 1_000_000);
        let epochs = rng.range(1, 6);
        let wakes = (rng.range(total / 50, total) / wakers / epochs).max(1);
        Program {
            q: *rng.pick(&[1, 1, 2, 3, 8, 64]),
            tasks: *rng.pick(&[1, 2, 3, 5, 16, 32]),
            wakers,
            wakes,
            max_interval: *rng.pick(&[1, 2, 7, 61]),
            notify: rng.chance(1, 2),
            owner: true,
            slow: if rng.chance(1, 4) { 1 } else { 0 },
            epochs,
            salt: rng.next_u64(),
            yield_pct: *rng.pick(&[0, 2, 10, 40]),
        }
    } else {
        let notify = rng.chance(1, 2);
        Program {
            q: *rng.pick(&[1, 1, 2, 64]),
            tasks: rng.range(1, 2),
            wakers: rng.range(1, 3),
            wakes: rng.range(1, 4),
            max_interval: *rng.pick(&[1, 2, 61]),
            notify,
            owner: notify || rng.chance(5, 6),
            slow: if rng.chance(1, 3) { rng.range(1, 2) as u32 } else { 0 },
            epochs: rng.range(1, 2),
            salt: rng.next_u64(),
            yield_pct: *rng.pick(&[0, 30, 60]),
        }
    }
}

pub fn main(args: &Args) {
    let leg = args.str("leg", "native");
    let mut rep = Report::from_args("C03", &leg, args);
    rep.note(
        "c03x: real compio-executor, real threads; mailbox conservation at logical quiescence (all wakers returned), owner \
         models `always` (ticks unconditionally; bound ceil(tasks/max_interval)+1 ticks) and `notify` (ticks only after an \
         ExecutorConfig::waker notification or while tick() returns true)",
    );
    if let Some(path) = args.get("replay") {
        let text = std::fs::read_to_string(path).expect("replay file");
        let v: Value = vcommon::serde_json::from_str(&text).expect("replay json");
        let Some(p) = Program::from_json(&v["program"]["program"]) else {
            rep.inconclusive("replay file has no c03x program (crash replays carry only stderr; re-run the recorded argv)");
            rep.finish();
            return;
        };
        let reps = args.usize("reps", v["program"]["reps"].as_u64().unwrap_or(300) as usize);
        for i in 0..reps {
            let mut p = p.clone();
            // same shape, fresh yield pattern from the second repetition on
            p.salt = p.salt.wrapping_add(i as u64 * 0x9E37);
            if evaluate(&p, &mut rep, &leg) || rep.out_of_time() {
                break;
            }
        }
        rep.finish();
        return;
    }
    let stress = args.flag("stress");
    let iters = args.iters(if cfg!(miri) { 40 } else { 2_000 }, if cfg!(miri) { 600 } else { 40_000 });
    let base = Rng::new(args.seed()).fork(args.shard() + 1);
    // Shift Miri's own schedule stream per shard (its seed is per process).
    for _ in 0..(args.shard() * 7 + args.seed() % 5) {
        thread::yield_now();
    }
    for i in 0..iters {
        if rep.out_of_time() {
            break;
        }
        let mut rng = base.fork(i as u64);
        let p = gen_program(&mut rng, args, stress);
        evaluate(&p, &mut rep, &leg);
    }
    rep.finish();
}
