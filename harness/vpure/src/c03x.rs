//! C03 executor leg: cross-thread wake mailbox conservation (Miri + native) — not built yet.

use vcommon::Args;

pub fn main(_args: &Args) {
    eprintln!("c03x: not implemented");
    std::process::exit(3);
}
