//! C04 task and join-handle lifecycle (Miri + native) — not built yet.

use vcommon::Args;

pub fn main(_args: &Args) {
    eprintln!("c04: not implemented");
    std::process::exit(3);
}
