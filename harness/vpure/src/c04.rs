//! C04 — task and join-handle lifecycle, on the REAL `compio-executor`.
//!
//! Everything is observed at the public boundary (no hooks):
//!
//! * `ProbeFut` — the spawned future. Every poll records (thread, n-th poll,
//!   tick number, "already finished?", "already dropped?"), its `Drop` records
//!   thread and count. Scripted behaviour: finish at the k-th poll, panic at
//!   the k-th poll (payload carries the task id and a drop probe), self-wake,
//!   wake a peer, spawn a child, drop a (peer's or its own) `JoinHandle`.
//! * `Out<M>` — the output: task id + `DropProbe` (counted drops, thread).
//!   `M = LocalM` makes it `!Send` (a foreign-thread drop of it is recorded).
//! * join results are compared with what the task did.
//!
//! Oracles (see `finish_accounting` + the two drivers):
//!   poll only on the home thread, never after Ready/panic, after the cancel
//!   became visible, or after drop; future dropped exactly once, at home;
//!   output/payload observed by the handle XOR dropped exactly once;
//!   join result consistent; handle drop cancels; detach completes; a panic
//!   does not change the other tasks' traces (differential run); FIFO
//!   starvation bound; teardown with wakers elsewhere.
//!
//! All cross-thread bookkeeping is `Relaxed` atomics (adds no happens-before
//! that could hide a race of the executor from Miri/TSan); hand-overs use
//! thread spawn/join.
//!
//! `c04_st.rs` = seeded single-thread programs (exact model), `c04_xt.rs` =
//! cross-thread programs (1–3 foreign threads racing tick / executor drop).

#[path = "c04_st.rs"]
mod st;
#[path = "c04_xt.rs"]
mod xt;

use std::{
    cell::{Cell, RefCell},
    future::Future,
    marker::PhantomData,
    mem::ManuallyDrop,
    pin::Pin,
    rc::{Rc, Weak},
    sync::{
        Arc, Mutex,
        atomic::{AtomicU64, Ordering::*},
    },
    task::{Context, Poll, Wake, Waker},
};

use compio_executor::{Executor, JoinError, JoinHandle};
use vcommon::{Args, Report, Rng, Value, json};

// ---------------------------------------------------------------------------
// thread identity without std's ThreadId (cheap, Miri-friendly)
// ---------------------------------------------------------------------------

static NEXT_TID: AtomicU64 = AtomicU64::new(1);
thread_local! {
    static TID: Cell<u64> = const { Cell::new(0) };
}

pub(crate) fn tid() -> u64 {
    TID.with(|t| {
        if t.get() == 0 {
            t.set(NEXT_TID.fetch_add(1, Relaxed));
        }
        t.get()
    })
}

// ---------------------------------------------------------------------------
// records
// ---------------------------------------------------------------------------

/// Output or panic payload of one task.
#[derive(Default)]
pub(crate) struct ObjRec {
    pub created: AtomicU64,
    pub drops: AtomicU64,
    /// dropped on a thread other than home
    pub foreign_drops: AtomicU64,
    /// `!Send` object dropped on a foreign thread
    pub nonsend_foreign_drops: AtomicU64,
    /// handed to the harness through a JoinHandle
    pub taken: AtomicU64,
}

pub(crate) struct TaskRec {
    pub id: usize,
    pub home: u64,
    pub polls: AtomicU64,
    pub foreign_polls: AtomicU64,
    pub polls_after_finish: AtomicU64,
    pub polls_after_drop: AtomicU64,
    /// 0 running, 1 returned Ready, 2 panicked
    pub finished: AtomicU64,
    pub fut_drops: AtomicU64,
    pub fut_foreign_drops: AtomicU64,
    pub last_poll_tick: AtomicU64,
    pub drop_tick: AtomicU64,
    /// starvation monitor: tick by which the task has to be polled/dropped (0 = none)
    pub due_tick: AtomicU64,
    pub due_set_at: AtomicU64,
    pub due_l: AtomicU64,
    /// worst lateness (ticks beyond the bound), and best slack
    pub late_by: AtomicU64,
    /// `polls` when a remote cancel / handle drop returned (+1), 0 = none
    pub cancel_snapshot: AtomicU64,
    pub obj: ObjRec,
}

impl TaskRec {
    pub fn new(id: usize, home: u64) -> Arc<Self> {
        Arc::new(Self {
            id,
            home,
            polls: AtomicU64::new(0),
            foreign_polls: AtomicU64::new(0),
            polls_after_finish: AtomicU64::new(0),
            polls_after_drop: AtomicU64::new(0),
            finished: AtomicU64::new(0),
            fut_drops: AtomicU64::new(0),
            fut_foreign_drops: AtomicU64::new(0),
            last_poll_tick: AtomicU64::new(0),
            drop_tick: AtomicU64::new(0),
            due_tick: AtomicU64::new(0),
            due_set_at: AtomicU64::new(0),
            due_l: AtomicU64::new(0),
            late_by: AtomicU64::new(0),
            cancel_snapshot: AtomicU64::new(0),
            obj: ObjRec::default(),
        })
    }

    pub fn alive(&self) -> bool {
        self.finished.load(Relaxed) == 0 && self.fut_drops.load(Relaxed) == 0
    }
}

/// Shared by all threads of one program.
pub(crate) struct World {
    pub home: u64,
    /// number of ticks started by the home thread
    pub tick: AtomicU64,
    pub max_interval: u64,
    /// min over all resolved dues of (bound - actual) — 0 shows the bound is tight
    pub min_slack: AtomicU64,
    /// single-thread programs only: (tick, task, n-th poll) in order
    pub trace: Option<Mutex<Vec<(u64, usize, u64)>>>,
    pub home_done: AtomicU64,
    pub threads_done: AtomicU64,
    pub exec_dropped: AtomicU64,
    /// owner-waker callback: calls and yields inside
    pub owner_calls: AtomicU64,
    pub owner_slow: u32,
}

impl World {
    pub fn new(max_interval: u32, trace: bool, owner_slow: u32) -> Arc<Self> {
        Arc::new(Self {
            home: tid(),
            tick: AtomicU64::new(0),
            max_interval: max_interval as u64,
            min_slack: AtomicU64::new(u64::MAX),
            trace: trace.then(|| Mutex::new(Vec::new())),
            home_done: AtomicU64::new(0),
            threads_done: AtomicU64::new(0),
            exec_dropped: AtomicU64::new(0),
            owner_calls: AtomicU64::new(0),
            owner_slow,
        })
    }
}

pub(crate) struct OwnerWaker(pub Arc<World>);

impl Wake for OwnerWaker {
    fn wake(self: Arc<Self>) {
        self.wake_by_ref()
    }

    fn wake_by_ref(self: &Arc<Self>) {
        self.0.owner_calls.fetch_add(1, Relaxed);
        // a slow notification (eventfd write + descheduling) on foreign threads
        if tid() != self.0.home {
            for _ in 0..self.0.owner_slow {
                std::thread::yield_now();
            }
        }
    }
}

// ---------------------------------------------------------------------------
// output / payload
// ---------------------------------------------------------------------------

pub(crate) struct SendM;
pub(crate) struct LocalM(#[allow(dead_code)] *const ());

pub(crate) trait Marker: 'static {
    const SEND: bool;
}
impl Marker for SendM {
    const SEND: bool = true;
}
impl Marker for LocalM {
    const SEND: bool = false;
}

pub(crate) struct DropProbe {
    rec: Arc<TaskRec>,
    send: bool,
}

impl DropProbe {
    fn new(rec: &Arc<TaskRec>, send: bool) -> Self {
        rec.obj.created.fetch_add(1, Relaxed);
        Self { rec: rec.clone(), send }
    }
}

impl Drop for DropProbe {
    fn drop(&mut self) {
        let o = &self.rec.obj;
        o.drops.fetch_add(1, Relaxed);
        if tid() != self.rec.home {
            o.foreign_drops.fetch_add(1, Relaxed);
            if !self.send {
                o.nonsend_foreign_drops.fetch_add(1, Relaxed);
            }
        }
    }
}

pub(crate) struct Out<M: Marker> {
    pub id: usize,
    #[allow(dead_code)]
    probe: DropProbe,
    _m: PhantomData<M>,
}

// SAFETY: nothing in `Out` is thread-bound; `LocalM` deliberately keeps the
// auto trait off for that instantiation only.
unsafe impl Send for Out<SendM> {}

pub(crate) struct PanicPayload {
    pub id: usize,
    #[allow(dead_code)]
    probe: DropProbe,
}

// ---------------------------------------------------------------------------
// behaviour of a task
// ---------------------------------------------------------------------------

#[derive(Clone, Debug, Default)]
pub(crate) struct Beh {
    /// return Ready at this poll (1-based); 0 = never
    pub ready_at: u32,
    /// panic at this poll; 0 = never
    pub panic_at: u32,
    /// on Pending: 0 none, 1 wake_by_ref, 2 clone().wake()
    pub self_wake: u8,
    /// wake this task's stored waker on every Pending poll
    pub wake_peer: Option<usize>,
    /// (poll number, behaviour of the child is fixed: self-waking, ready at 2)
    pub spawn_child_at: u32,
    /// (poll number, task index) drop that task's JoinHandle from inside poll
    pub drop_handle_at: Option<(u32, usize)>,
    /// output type is Send (handle may travel)
    pub send: bool,
}

impl Beh {
    pub fn to_json(&self) -> Value {
        json!({"ready_at": self.ready_at, "panic_at": self.panic_at, "self_wake": self.self_wake,
               "wake_peer": self.wake_peer, "spawn_child_at": self.spawn_child_at,
               "drop_handle_at": self.drop_handle_at.map(|(a, b)| vec![a as u64, b as u64]), "send": self.send})
    }

    pub fn from_json(v: &Value) -> Option<Self> {
        Some(Self {
            ready_at: v["ready_at"].as_u64()? as u32,
            panic_at: v["panic_at"].as_u64()? as u32,
            self_wake: v["self_wake"].as_u64()? as u8,
            wake_peer: v["wake_peer"].as_u64().map(|x| x as usize),
            spawn_child_at: v["spawn_child_at"].as_u64().unwrap_or(0) as u32,
            drop_handle_at: v["drop_handle_at"]
                .as_array()
                .and_then(|a| Some((a.first()?.as_u64()? as u32, a.get(1)?.as_u64()? as usize))),
            send: v["send"].as_bool().unwrap_or(true),
        })
    }

    /// The same task without its panic (differential run).
    pub fn without_panic(&self) -> Self {
        let mut b = self.clone();
        if b.panic_at != 0 {
            b.ready_at = if b.ready_at != 0 { b.ready_at.min(b.panic_at) } else { b.panic_at };
            b.panic_at = 0;
        }
        b
    }

    pub fn kind(&self) -> &'static str {
        if self.panic_at != 0 && (self.ready_at == 0 || self.panic_at <= self.ready_at) {
            "panic"
        } else if self.ready_at != 0 {
            "ready"
        } else {
            "forever"
        }
    }
}

// ---------------------------------------------------------------------------
// home-thread environment of one program
// ---------------------------------------------------------------------------

pub(crate) enum H {
    S(JoinHandle<Out<SendM>>),
    L(JoinHandle<Out<LocalM>>),
}

/// What a join produced, already checked against the task's identity.
#[derive(Clone, Debug, PartialEq, Eq)]
pub(crate) enum Joined {
    Ok,
    Panicked,
    Cancelled,
    Pending,
}

impl Joined {
    pub fn name(&self) -> &'static str {
        match self {
            Joined::Ok => "ok",
            Joined::Panicked => "panicked",
            Joined::Cancelled => "cancelled",
            Joined::Pending => "pending",
        }
    }
}

/// Check a join result against the task it belongs to. Returns the class and
/// records identity problems in `bad`.
pub(crate) fn classify_join<M: Marker>(
    rec: &TaskRec,
    r: Result<Out<M>, JoinError>,
    bad: &mut Vec<(String, String)>,
    via: &str,
) -> Joined {
    match r {
        Ok(out) => {
            let taken = rec.obj.taken.fetch_add(1, Relaxed);
            if out.id != rec.id {
                bad.push((
                    format!("C04/join-result/foreign-output/{via}"),
                    format!("handle of task {} produced the output of task {}", rec.id, out.id),
                ));
            }
            if rec.finished.load(Relaxed) != 1 {
                bad.push((
                    format!("C04/join-result/ok-without-completion/{via}"),
                    format!("task {} joined Ok but never returned Ready", rec.id),
                ));
            }
            if taken != 0 {
                bad.push((format!("C04/output/observed-twice/{via}"), format!("task {}: output handed out twice", rec.id)));
            }
            drop(out);
            Joined::Ok
        }
        Err(JoinError::Panicked(p)) => {
            let taken = rec.obj.taken.fetch_add(1, Relaxed);
            match p.downcast::<PanicPayload>() {
                Ok(pp) => {
                    if pp.id != rec.id {
                        bad.push((
                            format!("C04/join-result/foreign-panic/{via}"),
                            format!("handle of task {} produced the panic of task {}", rec.id, pp.id),
                        ));
                    }
                }
                Err(other) => {
                    let msg = other
                        .downcast_ref::<&str>()
                        .map(|s| s.to_string())
                        .or_else(|| other.downcast_ref::<String>().cloned())
                        .unwrap_or_else(|| "<unknown payload>".into());
                    bad.push((
                        format!("C04/join-result/unexpected-panic-payload/{via}"),
                        format!("task {}: payload is not the task's own: {msg}", rec.id),
                    ));
                }
            }
            if rec.finished.load(Relaxed) != 2 {
                bad.push((
                    format!("C04/join-result/panicked-without-panic/{via}"),
                    format!("task {} joined Panicked but did not panic", rec.id),
                ));
            }
            if taken != 0 {
                bad.push((format!("C04/output/observed-twice/{via}"), format!("task {}: payload handed out twice", rec.id)));
            }
            Joined::Panicked
        }
        Err(JoinError::Cancelled) => Joined::Cancelled,
    }
}

impl H {
    pub fn poll(&mut self, rec: &TaskRec, w: &Waker, bad: &mut Vec<(String, String)>, via: &str) -> Joined {
        let mut cx = Context::from_waker(w);
        match self {
            H::S(h) => match Pin::new(h).poll(&mut cx) {
                Poll::Ready(r) => classify_join(rec, r, bad, via),
                Poll::Pending => Joined::Pending,
            },
            H::L(h) => match Pin::new(h).poll(&mut cx) {
                Poll::Ready(r) => classify_join(rec, r, bad, via),
                Poll::Pending => Joined::Pending,
            },
        }
    }

    pub fn is_finished(&self) -> bool {
        match self {
            H::S(h) => h.is_finished(),
            H::L(h) => h.is_finished(),
        }
    }

    pub fn detach(self) {
        match self {
            H::S(h) => h.detach(),
            H::L(h) => h.detach(),
        }
    }

    /// `handle.cancel().await` driven by `drive` between polls. `None` = the
    /// cancel future stayed Pending for `max` polls.
    pub fn cancel(
        self,
        rec: &TaskRec,
        bad: &mut Vec<(String, String)>,
        via: &str,
        max: usize,
        mut drive: impl FnMut(),
    ) -> Option<Joined> {
        fn run<M: Marker>(
            h: JoinHandle<Out<M>>,
            rec: &TaskRec,
            bad: &mut Vec<(String, String)>,
            via: &str,
            max: usize,
            drive: &mut dyn FnMut(),
        ) -> Option<Joined> {
            let mut f = Box::pin(h.cancel());
            let w = Waker::noop();
            let mut cx = Context::from_waker(w);
            for _ in 0..max {
                match f.as_mut().poll(&mut cx) {
                    Poll::Ready(Some(out)) => return Some(classify_join(rec, Ok(out), bad, via)),
                    Poll::Ready(None) => return Some(Joined::Cancelled),
                    Poll::Pending => drive(),
                }
            }
            None
        }
        match self {
            H::S(h) => run(h, rec, bad, via, max, &mut drive),
            H::L(h) => run(h, rec, bad, via, max, &mut drive),
        }
    }
}

pub(crate) struct Env {
    pub w: Arc<World>,
    pub exe: RefCell<Weak<Executor>>,
    pub recs: RefCell<Vec<Arc<TaskRec>>>,
    pub behs: RefCell<Vec<Beh>>,
    pub wakers: RefCell<Vec<Option<Waker>>>,
    pub handles: RefCell<Vec<Option<H>>>,
    /// futures spawned and not yet dropped
    pub alive: Cell<u64>,
    /// violations noticed from inside polls
    pub bad: RefCell<Vec<(String, String)>>,
    pub no_panics: bool,
}

impl Env {
    pub fn new(w: Arc<World>, no_panics: bool) -> Rc<Self> {
        Rc::new(Self {
            w,
            exe: RefCell::new(Weak::new()),
            recs: RefCell::new(Vec::new()),
            behs: RefCell::new(Vec::new()),
            wakers: RefCell::new(Vec::new()),
            handles: RefCell::new(Vec::new()),
            alive: Cell::new(0),
            bad: RefCell::new(Vec::new()),
            no_panics,
        })
    }

    /// Spawn a probe task; returns its index.
    pub fn spawn(self: &Rc<Self>, exe: &Executor, beh: Beh) -> usize {
        let beh = if self.no_panics { beh.without_panic() } else { beh };
        let id = self.recs.borrow().len();
        let rec = TaskRec::new(id, self.w.home);
        self.recs.borrow_mut().push(rec.clone());
        self.behs.borrow_mut().push(beh.clone());
        self.wakers.borrow_mut().push(None);
        self.handles.borrow_mut().push(None);
        self.alive.set(self.alive.get() + 1);
        // spawning makes the task hot: it is due like a woken one
        self.note_hot(&rec);
        let h = if beh.send {
            H::S(exe.spawn(ProbeFut::<SendM>::new(rec, self.clone(), beh)))
        } else {
            H::L(exe.spawn(ProbeFut::<LocalM>::new(rec, self.clone(), beh)))
        };
        self.handles.borrow_mut()[id] = Some(h);
        id
    }

    /// FIFO bound. A task made hot while `L` other tasks are alive has at most
    /// `L` tasks ahead of it in the hot list; every tick runs `max_interval`
    /// tasks from the head (or the whole list); so it is polled (or, if
    /// cancelled, dropped) in a tick numbered at most
    /// `ticks_started_at_wake + 1 + floor(L / max_interval)`.
    pub fn note_hot(&self, rec: &TaskRec) {
        if self.w.exec_dropped.load(Relaxed) != 0 || rec.fut_drops.load(Relaxed) != 0 {
            return;
        }
        if rec.due_tick.load(Relaxed) != 0 {
            return; // already hot: keeps its place
        }
        let l = self.alive.get().saturating_sub(1);
        let now = self.w.tick.load(Relaxed);
        rec.due_l.store(l, Relaxed);
        rec.due_set_at.store(now, Relaxed);
        rec.due_tick.store(now + 1 + l / self.w.max_interval, Relaxed);
    }

    /// The task was polled or dropped in tick `now`: settle its due.
    fn settle_due(&self, rec: &TaskRec) {
        let due = rec.due_tick.swap(0, Relaxed);
        if due == 0 {
            return;
        }
        let now = self.w.tick.load(Relaxed);
        if now > due {
            rec.late_by.fetch_max(now - due, Relaxed);
        } else {
            self.w.min_slack.fetch_min(due - now, Relaxed);
        }
    }

    pub fn wake_task(&self, idx: usize, consume: bool) -> bool {
        let w = self.wakers.borrow().get(idx).cloned().flatten();
        let Some(w) = w else { return false };
        let rec = self.recs.borrow()[idx].clone();
        if rec.alive() {
            self.note_hot(&rec);
        }
        if consume { w.wake() } else { w.wake_by_ref() }
        true
    }
}

// ---------------------------------------------------------------------------
// the probe future
// ---------------------------------------------------------------------------

pub(crate) struct ProbeFut<M: Marker> {
    rec: Arc<TaskRec>,
    env: ManuallyDrop<Rc<Env>>,
    beh: Beh,
    n: u32,
    _m: PhantomData<M>,
}

impl<M: Marker> ProbeFut<M> {
    fn new(rec: Arc<TaskRec>, env: Rc<Env>, beh: Beh) -> Self {
        Self {
            rec,
            env: ManuallyDrop::new(env),
            beh,
            n: 0,
            _m: PhantomData,
        }
    }
}

impl<M: Marker> Unpin for ProbeFut<M> {}

impl<M: Marker> Future for ProbeFut<M> {
    type Output = Out<M>;

    fn poll(mut self: Pin<&mut Self>, cx: &mut Context<'_>) -> Poll<Out<M>> {
        let rec = self.rec.clone();
        let n = rec.polls.fetch_add(1, Relaxed) + 1;
        if tid() != rec.home {
            // do not touch the Rc environment from a foreign thread
            rec.foreign_polls.fetch_add(1, Relaxed);
            return Poll::Pending;
        }
        if rec.finished.load(Relaxed) != 0 {
            rec.polls_after_finish.fetch_add(1, Relaxed);
            return Poll::Pending;
        }
        if rec.fut_drops.load(Relaxed) != 0 {
            rec.polls_after_drop.fetch_add(1, Relaxed);
            return Poll::Pending;
        }
        self.n += 1;
        let k = self.n;
        let env: Rc<Env> = (*self.env).clone();
        let now = env.w.tick.load(Relaxed);
        rec.last_poll_tick.store(now, Relaxed);
        env.settle_due(&rec);
        if let Some(t) = &env.w.trace {
            t.lock().unwrap().push((now, rec.id, n));
        }
        // always keep the latest waker where the driver (and peers) find it
        {
            let mut ws = env.wakers.borrow_mut();
            if ws[rec.id].as_ref().is_none_or(|w| !w.will_wake(cx.waker())) {
                ws[rec.id] = Some(cx.waker().clone());
            }
        }
        let beh = self.beh.clone();
        if beh.spawn_child_at == k
            && let Some(exe) = env.exe.borrow().upgrade()
        {
            env.spawn(
                &exe,
                Beh {
                    ready_at: 2,
                    self_wake: 1,
                    send: beh.send,
                    ..Beh::default()
                },
            );
        }
        if let Some((at, victim)) = beh.drop_handle_at
            && at == k
        {
            let h = env.handles.borrow_mut().get_mut(victim).and_then(|h| h.take());
            if let Some(h) = h {
                let vrec = env.recs.borrow()[victim].clone();
                if vrec.alive() {
                    // cancel = schedule + mark: the victim is hot now and must
                    // be dropped within the FIFO bound
                    env.note_hot(&vrec);
                    vrec.cancel_snapshot.store(vrec.polls.load(Relaxed) + 1, Relaxed);
                }
                drop(h);
            }
        }
        if beh.panic_at == k {
            rec.finished.store(2, Relaxed);
            let payload = PanicPayload {
                id: rec.id,
                probe: DropProbe::new(&rec, true),
            };
            drop(env);
            std::panic::panic_any(payload);
        }
        if beh.ready_at == k {
            rec.finished.store(1, Relaxed);
            return Poll::Ready(Out {
                id: rec.id,
                probe: DropProbe::new(&rec, M::SEND),
                _m: PhantomData,
            });
        }
        if let Some(p) = beh.wake_peer {
            env.wake_task(p, false);
        }
        match beh.self_wake {
            1 => {
                env.note_hot(&rec);
                cx.waker().wake_by_ref();
            }
            2 => {
                env.note_hot(&rec);
                cx.waker().clone().wake();
            }
            _ => {}
        }
        Poll::Pending
    }
}

impl<M: Marker> Drop for ProbeFut<M> {
    fn drop(&mut self) {
        let rec = &self.rec;
        rec.fut_drops.fetch_add(1, Relaxed);
        if tid() != rec.home {
            rec.fut_foreign_drops.fetch_add(1, Relaxed);
            // leave the Rc alone on a foreign thread
            return;
        }
        let env = unsafe { ManuallyDrop::take(&mut self.env) };
        rec.drop_tick.store(env.w.tick.load(Relaxed), Relaxed);
        env.alive.set(env.alive.get().saturating_sub(1));
        if rec.finished.load(Relaxed) == 0 {
            // dropped instead of polled (cancelled): that settles the due too
            env.settle_due(rec);
        } else {
            rec.due_tick.store(0, Relaxed);
        }
    }
}

// ---------------------------------------------------------------------------
// final accounting, common to both drivers
// ---------------------------------------------------------------------------

/// To be called when the executor is gone, every handle/waker the harness
/// held is dropped and all foreign threads are joined.
pub(crate) fn finish_accounting(env: &Env, shape: &str, bad: &mut Vec<(String, String)>) {
    bad.append(&mut env.bad.borrow_mut());
    for rec in env.recs.borrow().iter() {
        let id = rec.id;
        let g = |a: &AtomicU64| a.load(SeqCst);
        if g(&rec.foreign_polls) != 0 {
            bad.push((format!("C04/poll/off-home-thread/{shape}"), format!("task {id} polled on a foreign thread")));
        }
        if g(&rec.polls_after_finish) != 0 {
            bad.push((format!("C04/poll/after-finish/{shape}"), format!("task {id} polled after it returned Ready / panicked")));
        }
        if g(&rec.polls_after_drop) != 0 {
            bad.push((format!("C04/poll/after-drop/{shape}"), format!("task {id} polled after its future was dropped")));
        }
        match g(&rec.fut_drops) {
            1 => {}
            0 => bad.push((
                format!("C04/future-drop/never/{shape}"),
                format!("task {id}: future not dropped although the executor is gone"),
            )),
            n => bad.push((format!("C04/future-drop/multiple/{shape}"), format!("task {id}: future dropped {n} times"))),
        }
        if g(&rec.fut_foreign_drops) != 0 {
            bad.push((format!("C04/future-drop/off-home-thread/{shape}"), format!("task {id}: future dropped on a foreign thread")));
        }
        let created = g(&rec.obj.created);
        let drops = g(&rec.obj.drops);
        if created > 1 {
            bad.push((format!("C04/harness/object-created-twice/{shape}"), format!("task {id}")));
        }
        if created == 1 && drops != 1 {
            let what = if rec.finished.load(SeqCst) == 2 { "panic payload" } else { "output" };
            bad.push((
                format!("C04/output/{}/{shape}", if drops == 0 { "never-dropped" } else { "dropped-more-than-once" }),
                format!(
                    "task {id}: {what} dropped {drops} times in total (taken through the handle: {})",
                    g(&rec.obj.taken)
                ),
            ));
        }
        if g(&rec.obj.nonsend_foreign_drops) != 0 {
            bad.push((
                format!("C04/output/non-send-output-dropped-off-home-thread/{shape}"),
                format!(
                    "task {id}: its `!Send` output (the JoinHandle is therefore not Send either) was dropped on a foreign \
                     thread: the last task reference was a Waker released there and `Drop for Task` drops a result nobody \
                     took on whichever thread that is"
                ),
            ));
        }
        let late = g(&rec.late_by);
        if late != 0 {
            bad.push((
                format!("C04/starvation/fifo-bound-exceeded/{shape}"),
                format!(
                    "task {id} was hot for {late} tick(s) longer than 1 + floor(L/max_interval) (L = {} other live tasks \
                     when it became hot in tick {}, max_interval {})",
                    g(&rec.due_l),
                    g(&rec.due_set_at),
                    env.w.max_interval
                ),
            ));
        }
    }
}

pub(crate) fn end_state(rec: &TaskRec) -> &'static str {
    let taken = rec.obj.taken.load(SeqCst) != 0;
    match rec.finished.load(SeqCst) {
        1 if taken => "ready-taken",
        1 => "ready-dropped",
        2 if taken => "panic-taken",
        2 => "panic-dropped",
        _ => "cancelled",
    }
}

/// Counting waker for join handles.
#[derive(Default)]
pub(crate) struct FlagWaker {
    pub wakes: AtomicU64,
}

impl Wake for FlagWaker {
    fn wake(self: Arc<Self>) {
        self.wakes.fetch_add(1, SeqCst);
    }

    fn wake_by_ref(self: &Arc<Self>) {
        self.wakes.fetch_add(1, SeqCst);
    }
}

/// A join waker whose `clone()` is slow (yields): `JoinHandle::poll` clones
/// the waker inside its SETTING_WAKER critical section, so this stretches the
/// window in which a completion can race a remote join. A waker clone may
/// take arbitrarily long, so this is a legitimate environment.
pub(crate) struct SlowWaker {
    pub flag: Arc<FlagWaker>,
    pub yields: u32,
}

pub(crate) fn slow_waker(flag: Arc<FlagWaker>, yields: u32) -> Waker {
    use std::task::{RawWaker, RawWakerVTable};
    unsafe fn clone(p: *const ()) -> RawWaker {
        let a = unsafe { ManuallyDrop::new(Arc::from_raw(p as *const SlowWaker)) };
        for _ in 0..a.yields {
            std::thread::yield_now();
        }
        let b: Arc<SlowWaker> = (*a).clone();
        RawWaker::new(Arc::into_raw(b) as *const (), &VT)
    }
    unsafe fn wake(p: *const ()) {
        let a = unsafe { Arc::from_raw(p as *const SlowWaker) };
        a.flag.wakes.fetch_add(1, SeqCst);
    }
    unsafe fn wake_by_ref(p: *const ()) {
        let a = unsafe { ManuallyDrop::new(Arc::from_raw(p as *const SlowWaker)) };
        a.flag.wakes.fetch_add(1, SeqCst);
    }
    unsafe fn drop_w(p: *const ()) {
        drop(unsafe { Arc::from_raw(p as *const SlowWaker) });
    }
    static VT: RawWakerVTable = RawWakerVTable::new(clone, wake, wake_by_ref, drop_w);
    let a = Arc::new(SlowWaker { flag, yields });
    unsafe { Waker::from_raw(RawWaker::new(Arc::into_raw(a) as *const (), &VT)) }
}

// ---------------------------------------------------------------------------
// main
// ---------------------------------------------------------------------------

pub fn main(args: &Args) {
    let leg = args.str("leg", "native");
    let mut rep = Report::from_args("C04", &leg, args);
    if let Some(path) = args.get("replay") {
        let text = std::fs::read_to_string(path).expect("replay file");
        let v: Value = vcommon::serde_json::from_str(&text).expect("replay json");
        let p = &v["program"];
        let reps = args.usize("reps", p["reps"].as_u64().unwrap_or(1) as usize);
        match p["kind"].as_str() {
            Some("st") => match st::Prog::from_json(&p["prog"]) {
                Some(prog) => {
                    st::evaluate(&prog, &mut rep, &leg);
                }
                None => rep.inconclusive("replay: cannot parse single-thread program"),
            },
            Some("xt") => match xt::Prog::from_json(&p["prog"]) {
                Some(prog) => {
                    for i in 0..reps {
                        let mut q = prog.clone();
                        q.salt = q.salt.wrapping_add(i as u64 * 0x9E37);
                        if xt::evaluate(&q, &mut rep, &leg) || rep.out_of_time() {
                            break;
                        }
                    }
                }
                None => rep.inconclusive("replay: cannot parse cross-thread program"),
            },
            _ => rep.inconclusive("replay file has no c04 program (crash replays carry only stderr; re-run the recorded argv)"),
        }
        rep.finish();
        return;
    }
    let mode = args.str("mode", "both");
    let iters = args.iters(if cfg!(miri) { 60 } else { 3_000 }, if cfg!(miri) { 800 } else { 60_000 });
    let base = Rng::new(args.seed()).fork(args.shard() + 1);
    for _ in 0..(args.shard() * 7 + args.seed() % 5) {
        std::thread::yield_now();
    }
    // share of single-thread programs (they are cheap and exact)
    let st_pct = args.usize("st-pct", 40);
    for i in 0..iters {
        if rep.out_of_time() {
            break;
        }
        let mut rng = base.fork(i as u64);
        let single = match mode.as_str() {
            "st" => true,
            "xt" => false,
            _ => rng.below(100) < st_pct,
        };
        if single {
            let prog = st::gen_prog(&mut rng, args);
            st::evaluate(&prog, &mut rep, &leg);
        } else {
            let prog = xt::gen_prog(&mut rng, args);
            xt::evaluate(&prog, &mut rep, &leg);
        }
    }
    rep.finish();
}
