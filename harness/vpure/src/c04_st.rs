//! C04 single-thread programs: seeded sequences over {spawn, tick, wake,
//! self-wake, join, cancel().await, detach, handle drop, waker clone/drop,
//! panic, in-poll spawn / handle drop, executor drop}. Single-threaded
//! execution is deterministic, so the model is exact: every join result,
//! `is_finished`, "no poll after cancel", the join-waker notification, the
//! FIFO starvation bound and a differential run for panic isolation.

use std::{
    rc::Rc,
    sync::{Arc, atomic::Ordering::*},
    task::Waker,
};

use compio_executor::{Executor, ExecutorConfig};
use vcommon::{Args, Report, Rng, Value, json, panics};

use super::{Beh, Env, FlagWaker, Joined, OwnerWaker, World, end_state, finish_accounting};

#[derive(Clone, Debug)]
pub(crate) enum Op {
    Spawn(Beh),
    Tick(u32),
    /// 0 wake_by_ref, 1 clone().wake(), 2 clone and drop the clone
    Wake(usize, u8),
    /// poll the handle once; `fresh` = with a new waker (replaces the stored one)
    Join(usize, bool),
    Cancel(usize),
    Detach(usize),
    DropHandle(usize),
    DropWaker(usize),
    DropExecutor,
}

impl Op {
    fn to_json(&self) -> Value {
        match self {
            Op::Spawn(b) => json!({"op": "spawn", "beh": b.to_json()}),
            Op::Tick(n) => json!({"op": "tick", "n": n}),
            Op::Wake(i, m) => json!({"op": "wake", "i": i, "mode": m}),
            Op::Join(i, f) => json!({"op": "join", "i": i, "fresh": f}),
            Op::Cancel(i) => json!({"op": "cancel", "i": i}),
            Op::Detach(i) => json!({"op": "detach", "i": i}),
            Op::DropHandle(i) => json!({"op": "hdrop", "i": i}),
            Op::DropWaker(i) => json!({"op": "wdrop", "i": i}),
            Op::DropExecutor => json!({"op": "xdrop"}),
        }
    }

    fn from_json(v: &Value) -> Option<Self> {
        let i = || v["i"].as_u64().map(|x| x as usize);
        Some(match v["op"].as_str()? {
            "spawn" => Op::Spawn(Beh::from_json(&v["beh"])?),
            "tick" => Op::Tick(v["n"].as_u64()? as u32),
            "wake" => Op::Wake(i()?, v["mode"].as_u64()? as u8),
            "join" => Op::Join(i()?, v["fresh"].as_bool()?),
            "cancel" => Op::Cancel(i()?),
            "detach" => Op::Detach(i()?),
            "hdrop" => Op::DropHandle(i()?),
            "wdrop" => Op::DropWaker(i()?),
            "xdrop" => Op::DropExecutor,
            _ => return None,
        })
    }
}

#[derive(Clone, Debug)]
pub(crate) struct Prog {
    pub q: usize,
    pub m: u32,
    pub owner: bool,
    pub ops: Vec<Op>,
    pub shape: String,
}

impl Prog {
    pub fn to_json(&self) -> Value {
        json!({"q": self.q, "m": self.m, "owner": self.owner, "shape": self.shape,
               "ops": self.ops.iter().map(|o| o.to_json()).collect::<Vec<_>>()})
    }

    pub fn from_json(v: &Value) -> Option<Self> {
        Some(Self {
            q: v["q"].as_u64()? as usize,
            m: v["m"].as_u64()? as u32,
            owner: v["owner"].as_bool()?,
            shape: v["shape"].as_str().unwrap_or("st").to_string(),
            ops: v["ops"].as_array()?.iter().map(Op::from_json).collect::<Option<Vec<_>>>()?,
        })
    }
}

pub(crate) struct RunOut {
    pub bad: Vec<(String, String)>,
    pub trace: Vec<(u64, usize, u64)>,
    /// (op index, task, result class)
    pub joins: Vec<(usize, usize, String)>,
    pub kinds: Vec<&'static str>,
    pub ends: Vec<&'static str>,
    pub drop_ticks: Vec<u64>,
    /// which action kinds hit a live task
    pub raced: Vec<&'static str>,
    pub min_slack: u64,
    pub polls: u64,
    pub ticks: u64,
    pub tasks: usize,
}

struct JoinW {
    flag: Arc<FlagWaker>,
    waker: Waker,
    /// wakes at the time the handle returned Pending
    at_pending: u64,
    pending: bool,
}

fn run(prog: &Prog, no_panics: bool) -> RunOut {
    let w = World::new(prog.m, true, 0);
    let env = Env::new(w.clone(), no_panics);
    let exe = Rc::new(Executor::with_config(ExecutorConfig {
        sync_queue_size: prog.q,
        local_queue_size: 2,
        max_interval: prog.m,
        waker: prog.owner.then(|| Waker::from(Arc::new(OwnerWaker(w.clone())))),
    }));
    *env.exe.borrow_mut() = Rc::downgrade(&exe);
    let mut exe = Some(exe);
    let mut bad: Vec<(String, String)> = Vec::new();
    let mut joins = Vec::new();
    let mut raced: Vec<&'static str> = Vec::new();
    let mut jw: Vec<Option<JoinW>> = Vec::new();
    let mut detached: Vec<usize> = Vec::new();
    let race = |r: &mut Vec<&'static str>, k: &'static str| {
        if !r.contains(&k) {
            r.push(k)
        }
    };
    let ntasks = |env: &Env| env.recs.borrow().len();
    let sh = prog.shape.as_str();

    // one executor tick + the per-tick model checks
    let tick = |exe: &Executor, env: &Env, jw: &mut Vec<Option<JoinW>>, bad: &mut Vec<(String, String)>| {
        let before: Vec<u64> = env.recs.borrow().iter().map(|r| r.finished.load(Relaxed)).collect();
        let now = w.tick.fetch_add(1, Relaxed) + 1;
        exe.tick();
        let recs = env.recs.borrow().clone();
        for (i, rec) in recs.iter().enumerate() {
            // join waker notified on completion
            if let Some(Some(j)) = jw.get_mut(i)
                && j.pending
                && before.get(i).copied().unwrap_or(0) == 0
                && rec.finished.load(Relaxed) != 0
            {
                j.pending = false;
                if j.flag.wakes.load(SeqCst) == j.at_pending {
                    bad.push((
                        format!("C04/join-wake-missing/{sh}"),
                        format!("task {i} completed in tick {now}; its JoinHandle had returned Pending with a waker, which was not woken"),
                    ));
                }
            }
            // FIFO bound: a hot task whose due tick has passed without poll/drop
            let due = rec.due_tick.load(Relaxed);
            if due != 0 && now >= due {
                rec.due_tick.store(0, Relaxed);
                bad.push((
                    format!("C04/starvation/hot-task-not-run/{sh}"),
                    format!(
                        "task {i} became hot in tick {} with {} other live tasks (max_interval {}): FIFO bound says polled or \
                         dropped in a tick <= {due}; tick {now} is over and it was not",
                        rec.due_set_at.load(Relaxed),
                        rec.due_l.load(Relaxed),
                        w.max_interval
                    ),
                ));
            }
        }
    };

    for (opi, op) in prog.ops.iter().enumerate() {
        let n = ntasks(&env);
        jw.resize_with(n, || None);
        let pick = |i: usize| if n == 0 { None } else { Some(i % n) };
        match op {
            Op::Spawn(b) => {
                if let Some(exe) = &exe {
                    let mut b = b.clone();
                    // references to peers are resolved modulo the task count at spawn time
                    if let Some(p) = b.wake_peer {
                        b.wake_peer = Some(p % (n + 1));
                    }
                    if let Some((at, v)) = b.drop_handle_at {
                        b.drop_handle_at = Some((at, v % (n + 1)));
                    }
                    env.spawn(exe, b);
                }
            }
            Op::Tick(k) => {
                if let Some(exe) = &exe {
                    for _ in 0..*k {
                        tick(exe, &env, &mut jw, &mut bad);
                        jw.resize_with(ntasks(&env), || None);
                    }
                }
            }
            Op::Wake(i, mode) => {
                if let Some(i) = pick(*i) {
                    match mode {
                        0 => {
                            env.wake_task(i, false);
                        }
                        1 => {
                            env.wake_task(i, true);
                        }
                        _ => {
                            let c = env.wakers.borrow()[i].clone();
                            drop(c);
                        }
                    }
                }
            }
            Op::DropWaker(i) => {
                if let Some(i) = pick(*i) {
                    let wk = env.wakers.borrow_mut()[i].take();
                    drop(wk);
                }
            }
            Op::Join(i, fresh) => {
                let Some(i) = pick(*i) else { continue };
                let Some(mut h) = env.handles.borrow_mut()[i].take() else { continue };
                let rec = env.recs.borrow()[i].clone();
                let fin = rec.finished.load(Relaxed);
                let xd = w.exec_dropped.load(Relaxed) != 0;
                let expect_finished = fin != 0 || xd;
                if h.is_finished() != expect_finished {
                    bad.push((
                        format!("C04/is-finished/wrong/{sh}"),
                        format!("task {i}: is_finished() = {} but finished={fin}, executor dropped={xd}", h.is_finished()),
                    ));
                }
                if *fresh || jw[i].is_none() {
                    let flag = Arc::new(FlagWaker::default());
                    jw[i] = Some(JoinW {
                        waker: Waker::from(flag.clone()),
                        flag,
                        at_pending: 0,
                        pending: false,
                    });
                }
                let j = jw[i].as_mut().unwrap();
                let got = h.poll(&rec, &j.waker, &mut bad, sh);
                let expected = match fin {
                    1 => Joined::Ok,
                    2 => Joined::Panicked,
                    _ if xd => Joined::Cancelled,
                    _ => Joined::Pending,
                };
                if got != expected {
                    bad.push((
                        format!("C04/join-result/got-{}-expected-{}/{sh}", got.name(), expected.name()),
                        format!("task {i} (finished={fin}, executor dropped={xd}): JoinHandle::poll gave {}", got.name()),
                    ));
                }
                joins.push((opi, i, got.name().to_string()));
                if got == Joined::Pending {
                    j.at_pending = j.flag.wakes.load(SeqCst);
                    j.pending = true;
                    env.handles.borrow_mut()[i] = Some(h);
                } else {
                    j.pending = false;
                }
            }
            Op::Cancel(i) => {
                let Some(i) = pick(*i) else { continue };
                let Some(h) = env.handles.borrow_mut()[i].take() else { continue };
                let rec = env.recs.borrow()[i].clone();
                let fin = rec.finished.load(Relaxed);
                if rec.alive() && exe.is_some() {
                    race(&mut raced, "cancel");
                    env.note_hot(&rec);
                    rec.cancel_snapshot.store(rec.polls.load(Relaxed) + 1, Relaxed);
                }
                if let Some(Some(j)) = jw.get_mut(i) {
                    j.pending = false;
                }
                let exe2 = exe.clone();
                let mut inner_bad = Vec::new();
                let mut ticks_needed = 0;
                let got = h.cancel(&rec, &mut inner_bad, sh, 8, || {
                    ticks_needed += 1;
                    if let Some(e) = &exe2 {
                        w.tick.fetch_add(1, Relaxed);
                        e.tick();
                    }
                });
                bad.append(&mut inner_bad);
                let expected = if fin == 1 { Joined::Ok } else { Joined::Cancelled };
                match got {
                    None => bad.push((
                        format!("C04/cancel-await/stuck/{sh}"),
                        format!("task {i}: handle.cancel().await still Pending after 8 polls with a tick between each"),
                    )),
                    Some(g) => {
                        if g != expected {
                            bad.push((
                                format!("C04/cancel-await/got-{}-expected-{}/{sh}", g.name(), expected.name()),
                                format!("task {i} (finished={fin}): cancel().await gave {}", g.name()),
                            ));
                        }
                        joins.push((opi, i, format!("cancel-{}", g.name())));
                    }
                }
                let _ = ticks_needed;
            }
            Op::Detach(i) => {
                let Some(i) = pick(*i) else { continue };
                let Some(h) = env.handles.borrow_mut()[i].take() else { continue };
                if env.recs.borrow()[i].alive() && exe.is_some() {
                    race(&mut raced, "detach");
                    detached.push(i);
                }
                if let Some(Some(j)) = jw.get_mut(i) {
                    j.pending = false;
                }
                h.detach();
            }
            Op::DropHandle(i) => {
                let Some(i) = pick(*i) else { continue };
                let Some(h) = env.handles.borrow_mut()[i].take() else { continue };
                let rec = env.recs.borrow()[i].clone();
                if rec.alive() && exe.is_some() {
                    race(&mut raced, "hdrop");
                    env.note_hot(&rec);
                    rec.cancel_snapshot.store(rec.polls.load(Relaxed) + 1, Relaxed);
                }
                if let Some(Some(j)) = jw.get_mut(i) {
                    j.pending = false;
                }
                drop(h);
            }
            Op::DropExecutor => {
                if let Some(e) = exe.take() {
                    if env.recs.borrow().iter().any(|r| r.alive()) {
                        race(&mut raced, "xdrop");
                    }
                    match Rc::try_unwrap(e) {
                        Ok(e) => {
                            drop(e);
                            w.exec_dropped.store(1, Relaxed);
                        }
                        Err(_) => bad.push(("C04/harness/executor-still-shared".into(), String::new())),
                    }
                    for r in env.recs.borrow().iter() {
                        if r.fut_drops.load(Relaxed) != 1 {
                            bad.push((
                                format!("C04/teardown/future-not-dropped-by-executor-drop/{sh}"),
                                format!("task {}: fut_drops={} right after Executor::drop", r.id, r.fut_drops.load(Relaxed)),
                            ));
                        }
                    }
                }
            }
        }
    }
    // ---- epilogue
    if let Some(exe) = &exe {
        // detached, self-driving tasks run to completion
        let n = ntasks(&env) as u64;
        for &i in &detached {
            let rec = env.recs.borrow()[i].clone();
            let b = env.behs.borrow()[i].clone();
            if b.self_wake == 0 || (b.ready_at == 0 && b.panic_at == 0) || !rec.alive() {
                continue;
            }
            let polls_left = b.ready_at.max(b.panic_at) as u64;
            let cap = (polls_left + 1) * (2 + n / prog.m as u64);
            let mut t = 0;
            while rec.alive() && t < cap {
                tick(exe, &env, &mut jw, &mut bad);
                t += 1;
            }
            if rec.finished.load(Relaxed) == 0 {
                bad.push((
                    format!("C04/detach/not-run-to-completion/{sh}"),
                    format!(
                        "detached self-waking task {i} (ready_at {}, panic_at {}) not finished after {cap} more ticks; polls {}, \
                         future dropped {}",
                        b.ready_at,
                        b.panic_at,
                        rec.polls.load(Relaxed),
                        rec.fut_drops.load(Relaxed)
                    ),
                ));
            }
        }
        // let pending cancellations take effect within their bound
        let cap = 2 + n / prog.m as u64;
        for _ in 0..cap {
            if env.recs.borrow().iter().all(|r| r.due_tick.load(Relaxed) == 0) {
                break;
            }
            tick(exe, &env, &mut jw, &mut bad);
        }
    }
    // hot tasks (raced = panic)
    if env.behs.borrow().iter().zip(env.recs.borrow().iter()).any(|(b, r)| b.kind() == "panic" && r.finished.load(Relaxed) == 2) {
        race(&mut raced, "panic");
    }
    if let Some(e) = exe.take() {
        if env.recs.borrow().iter().any(|r| r.alive()) {
            race(&mut raced, "xdrop");
        }
        if let Ok(e) = Rc::try_unwrap(e) {
            drop(e);
        }
        w.exec_dropped.store(1, Relaxed);
    }
    // handles and wakers outlive the executor and are released now
    let hs: Vec<_> = env.handles.borrow_mut().drain(..).collect();
    drop(hs);
    let ws: Vec<_> = env.wakers.borrow_mut().drain(..).collect();
    for wk in ws.iter().flatten() {
        wk.wake_by_ref();
        drop(wk.clone());
    }
    drop(ws);
    drop(jw);
    finish_accounting(&env, sh, &mut bad);
    // no poll after the cancel became visible (single thread: immediately)
    for rec in env.recs.borrow().iter() {
        let snap = rec.cancel_snapshot.load(Relaxed);
        if snap != 0 && rec.polls.load(Relaxed) != snap - 1 {
            bad.push((
                format!("C04/poll/after-cancel/{sh}"),
                format!(
                    "task {} had {} polls when its handle was dropped/cancelled, {} at the end",
                    rec.id,
                    snap - 1,
                    rec.polls.load(Relaxed)
                ),
            ));
        }
    }
    let recs = env.recs.borrow();
    RunOut {
        trace: w.trace.as_ref().map(|t| t.lock().unwrap().clone()).unwrap_or_default(),
        joins,
        kinds: env.behs.borrow().iter().map(|b| b.kind()).collect(),
        ends: recs.iter().map(|r| end_state(r)).collect(),
        drop_ticks: recs.iter().map(|r| r.drop_tick.load(Relaxed)).collect(),
        raced,
        min_slack: w.min_slack.load(Relaxed),
        polls: recs.iter().map(|r| r.polls.load(Relaxed)).sum(),
        ticks: w.tick.load(Relaxed),
        tasks: recs.len(),
        bad,
    }
}

pub(crate) fn evaluate(prog: &Prog, rep: &mut Report, leg: &str) -> bool {
    let replay = || json!({"kind": "st", "prog": prog.to_json(), "reps": 1});
    let sh = prog.shape.as_str();
    let run_caught = |no_panics: bool, rep: &mut Report| -> Option<RunOut> {
        match panics::catch(|| run(prog, no_panics)) {
            Ok(o) => Some(o),
            Err(info) => {
                match info.origin() {
                    panics::Origin::Repo(l) => rep.violation(
                        &format!("C04/{}/{sh}", info.sig()),
                        &format!("panic inside compio at {l}: {}", info.message),
                        replay(),
                    ),
                    _ if info.file.ends_with("c04.rs") && info.message.contains("non-string") => rep.violation(
                        &format!("C04/panic-escaped-the-executor/{sh}"),
                        "a task's panic was not caught by the executor (it unwound out of tick())",
                        replay(),
                    ),
                    o => rep.inconclusive(&format!("harness panic {o:?}: {}", info.message)),
                }
                None
            }
        }
    };
    let Some(o) = run_caught(false, rep) else { return true };
    let mut bad = o.bad.clone();
    // ---- panic isolation: differential run with the panics replaced by Ready
    let has_panic = o.kinds.iter().any(|k| *k == "panic");
    if has_panic {
        let Some(o2) = run_caught(true, rep) else { return true };
        if !o2.bad.is_empty() && bad.is_empty() {
            bad.extend(o2.bad.iter().cloned());
        }
        let others = |o: &RunOut, kinds: &[&'static str]| {
            o.trace.iter().filter(|(_, t, _)| kinds.get(*t).copied() != Some("panic")).cloned().collect::<Vec<_>>()
        };
        let a = others(&o, &o.kinds);
        let b = others(&o2, &o.kinds);
        let ja: Vec<_> = o.joins.iter().filter(|(_, t, _)| o.kinds.get(*t).copied() != Some("panic")).collect();
        let jb: Vec<_> = o2.joins.iter().filter(|(_, t, _)| o.kinds.get(*t).copied() != Some("panic")).collect();
        let da: Vec<_> = o.drop_ticks.iter().zip(&o.kinds).filter(|(_, k)| **k != "panic").map(|(d, _)| *d).collect();
        let db: Vec<_> = o2.drop_ticks.iter().zip(&o.kinds).filter(|(_, k)| **k != "panic").map(|(d, _)| *d).collect();
        if a != b || ja != jb || da != db || o.tasks != o2.tasks {
            let first = a.iter().zip(b.iter()).position(|(x, y)| x != y);
            bad.push((
                format!("C04/panic-isolation/other-tasks-behave-differently/{sh}"),
                format!(
                    "same program with the panicking task(s) returning Ready instead: the other tasks' (tick, task, n-th poll) \
                     traces / join results / drop ticks differ (first trace difference at {first:?}: {:?} vs {:?}; joins {ja:?} \
                     vs {jb:?})",
                    first.and_then(|i| a.get(i)),
                    first.and_then(|i| b.get(i))
                ),
            ));
        }
        rep.count("st_panic_differential_runs", 1);
    }
    rep.count("st_programs", 1);
    rep.count("st_task_polls", o.polls as i64);
    rep.count("st_ticks", o.ticks as i64);
    rep.count("st_tasks", o.tasks as i64);
    rep.floor("st:starvation-bound-reached-exactly(slack 0)", o.min_slack == 0);
    rep.floor("st:panicking-task", has_panic);
    rep.floor("st:executor-dropped-over-live-tasks", o.raced.contains(&"xdrop"));
    let mut raced = o.raced.clone();
    raced.sort();
    let mut ends: Vec<&str> = o.ends.clone();
    ends.sort();
    ends.dedup();
    rep.eval((!raced.is_empty()).then(|| format!("{sh}:{leg}:m{}:{}:{}", prog.m.min(4), raced.join("+"), ends.join("+"))));
    if rep.want_sample() && !raced.is_empty() {
        rep.sample(json!({"program": prog.to_json(), "ends": o.ends, "joins": o.joins, "ticks": o.ticks}));
    }
    for (sig, what) in &bad {
        if sig.starts_with("C04/harness") {
            rep.inconclusive(&format!("{sig}: {what}"));
        } else {
            rep.violation(sig, what, replay());
        }
    }
    !bad.is_empty()
}

fn gen_beh(rng: &mut Rng, allow_panic: bool) -> Beh {
    let kind = rng.below(10);
    let mut b = Beh {
        send: rng.chance(1, 2),
        ..Beh::default()
    };
    match kind {
        0..=4 => b.ready_at = rng.range(1, 4) as u32,
        5 | 6 if allow_panic => b.panic_at = rng.range(1, 3) as u32,
        _ => {}
    }
    b.self_wake = *rng.pick(&[0, 0, 1, 1, 2]);
    if rng.chance(1, 5) {
        b.wake_peer = Some(rng.below(8));
    }
    if rng.chance(1, 8) {
        b.spawn_child_at = rng.range(1, 3) as u32;
    }
    if rng.chance(1, 6) {
        b.drop_handle_at = Some((rng.range(1, 3) as u32, rng.below(8)));
    }
    b
}

pub(crate) fn gen_prog(rng: &mut Rng, args: &Args) -> Prog {
    let max_ops = args.usize("st-ops", if cfg!(miri) { 18 } else { 40 });
    let m = *rng.pick(&[1, 1, 2, 3, 61]);
    let mut ops = Vec::new();
    if rng.chance(1, 5) {
        // starvation shape: H self-wakers that never finish + woken targets
        let h = rng.range(1, 6);
        for _ in 0..h {
            ops.push(Op::Spawn(Beh {
                self_wake: *rng.pick(&[1, 2]),
                send: true,
                ..Beh::default()
            }));
        }
        let targets = rng.range(1, 2);
        for _ in 0..targets {
            ops.push(Op::Spawn(Beh {
                ready_at: if rng.chance(1, 2) { 0 } else { 4 },
                send: true,
                ..Beh::default()
            }));
        }
        ops.push(Op::Tick((h + targets) as u32 + 1));
        for _ in 0..rng.range(2, 6) {
            ops.push(Op::Wake(h + rng.below(targets), rng.below(2) as u8));
            if rng.chance(1, 3) {
                ops.push(Op::DropHandle(rng.below(h)));
            }
            ops.push(Op::Tick(rng.range(1, 2 + h / m as usize) as u32));
        }
        return Prog {
            q: 2,
            m,
            owner: rng.chance(1, 2),
            ops,
            shape: "st-starve".into(),
        };
    }
    let n = rng.range(4, max_ops);
    let mut xdropped = false;
    ops.push(Op::Spawn(gen_beh(rng, true)));
    for _ in 0..n {
        let op = match rng.below(if xdropped { 16 } else { 17 }) {
            0..=2 => Op::Spawn(gen_beh(rng, true)),
            3..=6 => Op::Tick(rng.range(1, 3) as u32),
            7 | 8 => Op::Wake(rng.below(8), rng.below(3) as u8),
            9 | 10 => Op::Join(rng.below(8), rng.chance(1, 2)),
            11 => Op::Cancel(rng.below(8)),
            12 => Op::Detach(rng.below(8)),
            13 | 14 => Op::DropHandle(rng.below(8)),
            15 => Op::DropWaker(rng.below(8)),
            _ => {
                if rng.chance(1, 3) {
                    xdropped = true;
                    Op::DropExecutor
                } else {
                    Op::Tick(1)
                }
            }
        };
        ops.push(op);
    }
    Prog {
        q: *rng.pick(&[1, 2, 64]),
        m,
        owner: rng.chance(1, 2),
        ops,
        shape: "st".into(),
    }
}
