//! C04 cross-thread programs: JoinHandle poll / cancel().await / drop /
//! detach and Waker clone / wake / drop run on 1–3 foreign threads
//! concurrently with the home thread's tick()s and with `Executor` drop;
//! leftover wakers are used after the executor is gone (on the home thread,
//! on the thread that held them, or on a late thread).
//!
//! Verdicts are taken at logical quiescence only: the home thread finishes
//! its script, publishes `home_done`, joins the threads; everything judged
//! afterwards is ordered by those joins.

use std::{
    future::Future,
    pin::Pin,
    rc::Rc,
    sync::{Arc, atomic::Ordering::*},
    task::{Context, Poll, Waker},
    thread,
};

use compio_executor::{Executor, ExecutorConfig, JoinHandle};
use vcommon::{Args, Report, Rng, Value, json, panics};

use super::{
    Beh, Env, FlagWaker, H, Joined, Out, OwnerWaker, SendM, TaskRec, World, classify_join, end_state, finish_accounting,
    slow_waker,
};

#[derive(Clone, Debug, PartialEq)]
pub(crate) enum XOp {
    Yield(u8),
    /// 0 wake_by_ref, 1 clone().wake(), 2 clone + drop the clone, 3 wake() consuming the thread's own handle
    Wake(usize, u8),
    DropWaker(usize),
    /// poll until Ready, waiting for the waker in between
    JoinLoop(usize),
    /// poll once; if Pending drop the handle (remote cancel racing the executor)
    PollThenDrop(usize),
    Cancel(usize),
    DropHandle(usize),
    Detach(usize),
}

#[derive(Clone, Debug, PartialEq)]
pub(crate) enum HOp {
    Tick(u8),
    Yield(u8),
    Wake(usize),
    DropExecutor,
    JoinPoll(usize),
    DropHandle(usize),
    Detach(usize),
}

fn xop_json(o: &XOp) -> Value {
    match o {
        XOp::Yield(n) => json!(["yield", n]),
        XOp::Wake(t, m) => json!(["wake", t, m]),
        XOp::DropWaker(t) => json!(["wdrop", t]),
        XOp::JoinLoop(t) => json!(["join", t]),
        XOp::PollThenDrop(t) => json!(["poll-drop", t]),
        XOp::Cancel(t) => json!(["cancel", t]),
        XOp::DropHandle(t) => json!(["hdrop", t]),
        XOp::Detach(t) => json!(["detach", t]),
    }
}

fn xop_from(v: &Value) -> Option<XOp> {
    let a = v.as_array()?;
    let n = |i: usize| a.get(i).and_then(|x| x.as_u64());
    Some(match a.first()?.as_str()? {
        "yield" => XOp::Yield(n(1)? as u8),
        "wake" => XOp::Wake(n(1)? as usize, n(2)? as u8),
        "wdrop" => XOp::DropWaker(n(1)? as usize),
        "join" => XOp::JoinLoop(n(1)? as usize),
        "poll-drop" => XOp::PollThenDrop(n(1)? as usize),
        "cancel" => XOp::Cancel(n(1)? as usize),
        "hdrop" => XOp::DropHandle(n(1)? as usize),
        "detach" => XOp::Detach(n(1)? as usize),
        _ => return None,
    })
}

fn hop_json(o: &HOp) -> Value {
    match o {
        HOp::Tick(n) => json!(["tick", n]),
        HOp::Yield(n) => json!(["yield", n]),
        HOp::Wake(t) => json!(["wake", t]),
        HOp::DropExecutor => json!(["xdrop"]),
        HOp::JoinPoll(t) => json!(["join", t]),
        HOp::DropHandle(t) => json!(["hdrop", t]),
        HOp::Detach(t) => json!(["detach", t]),
    }
}

fn hop_from(v: &Value) -> Option<HOp> {
    let a = v.as_array()?;
    let n = |i: usize| a.get(i).and_then(|x| x.as_u64());
    Some(match a.first()?.as_str()? {
        "tick" => HOp::Tick(n(1)? as u8),
        "yield" => HOp::Yield(n(1)? as u8),
        "wake" => HOp::Wake(n(1)? as usize),
        "xdrop" => HOp::DropExecutor,
        "join" => HOp::JoinPoll(n(1)? as usize),
        "hdrop" => HOp::DropHandle(n(1)? as usize),
        "detach" => HOp::Detach(n(1)? as usize),
        _ => return None,
    })
}

#[derive(Clone, Debug)]
pub(crate) struct Prog {
    pub q: usize,
    pub m: u32,
    pub owner: bool,
    pub slow: u32,
    pub tasks: Vec<Beh>,
    /// per task: Some(k) = thread k owns the JoinHandle, None = home keeps it
    pub owner_of: Vec<Option<usize>>,
    pub pre_ticks: u32,
    pub threads: Vec<Vec<XOp>>,
    pub home: Vec<HOp>,
    /// leftover wakers: 0 dropped by the foreign thread when its script ends,
    /// 1 used on home after teardown, 2 used on a late thread after teardown
    pub leftovers: u8,
    pub salt: u64,
}

impl Prog {
    pub fn to_json(&self) -> Value {
        json!({"q": self.q, "m": self.m, "owner": self.owner, "slow": self.slow,
               "tasks": self.tasks.iter().map(|b| b.to_json()).collect::<Vec<_>>(),
               "owner_of": self.owner_of.iter().map(|o| o.map(|x| x as i64).unwrap_or(-1)).collect::<Vec<_>>(),
               "pre_ticks": self.pre_ticks,
               "threads": self.threads.iter().map(|t| t.iter().map(xop_json).collect::<Vec<_>>()).collect::<Vec<_>>(),
               "home": self.home.iter().map(hop_json).collect::<Vec<_>>(),
               "leftovers": self.leftovers, "salt": self.salt})
    }

    pub fn from_json(v: &Value) -> Option<Self> {
        Some(Self {
            q: v["q"].as_u64()? as usize,
            m: v["m"].as_u64()? as u32,
            owner: v["owner"].as_bool()?,
            slow: v["slow"].as_u64()? as u32,
            tasks: v["tasks"].as_array()?.iter().map(Beh::from_json).collect::<Option<Vec<_>>>()?,
            owner_of: v["owner_of"].as_array()?.iter().map(|x| x.as_i64().and_then(|x| (x >= 0).then_some(x as usize))).collect(),
            pre_ticks: v["pre_ticks"].as_u64()? as u32,
            threads: v["threads"]
                .as_array()?
                .iter()
                .map(|t| t.as_array()?.iter().map(xop_from).collect::<Option<Vec<_>>>())
                .collect::<Option<Vec<_>>>()?,
            home: v["home"].as_array()?.iter().map(hop_from).collect::<Option<Vec<_>>>()?,
            leftovers: v["leftovers"].as_u64()? as u8,
            salt: v["salt"].as_u64()?,
        })
    }
}

type SH = JoinHandle<Out<SendM>>;

struct ThreadIn {
    ops: Vec<XOp>,
    wakers: Vec<Option<Waker>>,
    handles: Vec<Option<SH>>,
    recs: Vec<Arc<TaskRec>>,
    w: Arc<World>,
    keep_leftovers: bool,
    /// yields inside `clone()` of the join waker (0 = plain Arc waker)
    slow_join_waker: u32,
}

#[derive(Default)]
struct ThreadOut {
    bad: Vec<(String, String)>,
    /// (task, what happened) for handle operations
    did: Vec<(usize, &'static str, String)>,
    waker_ops: Vec<&'static str>,
    leftovers: Vec<Option<Waker>>,
    /// (task, handle, its waker flag, Some(wakes at the last Pending poll) if the thread gave up un-woken)
    handles_back: Vec<(usize, SH, Arc<FlagWaker>, Option<u64>)>,
    join_polls: u64,
}

fn poll_sh(h: &mut SH, rec: &TaskRec, w: &Waker, bad: &mut Vec<(String, String)>) -> Joined {
    let mut cx = Context::from_waker(w);
    match Pin::new(h).poll(&mut cx) {
        Poll::Ready(r) => classify_join(rec, r, bad, "xt"),
        Poll::Pending => Joined::Pending,
    }
}

fn thread_main(mut i: ThreadIn) -> ThreadOut {
    let mut o = ThreadOut::default();
    let w = i.w.clone();
    let note = |v: &mut Vec<&'static str>, k: &'static str| {
        if !v.contains(&k) {
            v.push(k)
        }
    };
    for op in std::mem::take(&mut i.ops) {
        match op {
            XOp::Yield(n) => {
                for _ in 0..n {
                    thread::yield_now();
                }
            }
            XOp::Wake(t, mode) => {
                let Some(slot) = i.wakers.get_mut(t) else { continue };
                match (mode, slot.as_ref()) {
                    (_, None) => {}
                    (0, Some(wk)) => {
                        note(&mut o.waker_ops, "wake");
                        wk.wake_by_ref()
                    }
                    (1, Some(wk)) => {
                        note(&mut o.waker_ops, "wake");
                        wk.clone().wake()
                    }
                    (2, Some(wk)) => {
                        note(&mut o.waker_ops, "wclone");
                        drop(wk.clone())
                    }
                    _ => {
                        note(&mut o.waker_ops, "wake");
                        slot.take().unwrap().wake()
                    }
                }
            }
            XOp::DropWaker(t) => {
                if let Some(Some(wk)) = i.wakers.get_mut(t).map(|s| s.take()) {
                    note(&mut o.waker_ops, "wdrop");
                    drop(wk);
                }
            }
            XOp::JoinLoop(t) => {
                let Some(mut h) = i.handles.get_mut(t).and_then(|h| h.take()) else { continue };
                let rec = i.recs[t].clone();
                let flag = Arc::new(FlagWaker::default());
                let waker = if i.slow_join_waker > 0 {
                    slow_waker(flag.clone(), i.slow_join_waker)
                } else {
                    Waker::from(flag.clone())
                };
                let mut result = None;
                let mut unwoken_at = None;
                'join: loop {
                    let seen = flag.wakes.load(SeqCst);
                    o.join_polls += 1;
                    let r = poll_sh(&mut h, &rec, &waker, &mut o.bad);
                    if r != Joined::Pending {
                        result = Some(r);
                        break;
                    }
                    // wait for the wake-up; give up only at logical quiescence
                    loop {
                        if flag.wakes.load(SeqCst) != seen {
                            break;
                        }
                        if w.home_done.load(SeqCst) != 0 {
                            if flag.wakes.load(SeqCst) != seen {
                                break;
                            }
                            // Give up at logical quiescence of the script. Whether the
                            // wake-up was lost is judged by the home thread once it has
                            // stopped ticking (a poll from here could race a completion
                            // and legitimately find the result without any wake-up).
                            unwoken_at = Some(seen);
                            break 'join;
                        }
                        thread::yield_now();
                    }
                }
                match result {
                    Some(r) => {
                        if r == Joined::Cancelled && w.exec_dropped.load(SeqCst) == 0 {
                            // nobody cancelled this task and the executor is alive
                            o.bad.push((
                                "C04/join-result/cancelled-without-cancel/xt".into(),
                                format!("task {t}: joined Cancelled although the handle was never cancelled and the executor is alive"),
                            ));
                        }
                        o.did.push((t, "join", r.name().into()));
                    }
                    None => {
                        o.did.push((t, "join", "pending".into()));
                        o.handles_back.push((t, h, flag.clone(), unwoken_at));
                    }
                }
            }
            XOp::PollThenDrop(t) => {
                let Some(mut h) = i.handles.get_mut(t).and_then(|h| h.take()) else { continue };
                let rec = i.recs[t].clone();
                let flag = Arc::new(FlagWaker::default());
                let waker = Waker::from(flag.clone());
                let r = poll_sh(&mut h, &rec, &waker, &mut o.bad);
                if r == Joined::Pending {
                    drop(h);
                    o.did.push((t, "poll+hdrop", "cancelled".into()));
                } else {
                    o.did.push((t, "poll", r.name().into()));
                }
            }
            XOp::Cancel(t) => {
                let Some(h) = i.handles.get_mut(t).and_then(|h| h.take()) else { continue };
                let rec = i.recs[t].clone();
                let flag = Arc::new(FlagWaker::default());
                let waker = Waker::from(flag.clone());
                let mut cx = Context::from_waker(&waker);
                let mut f = Box::pin(h.cancel());
                let mut res = None;
                loop {
                    let seen = flag.wakes.load(SeqCst);
                    match f.as_mut().poll(&mut cx) {
                        Poll::Ready(Some(out)) => {
                            res = Some(classify_join(&rec, Ok(out), &mut o.bad, "xt-cancel"));
                            break;
                        }
                        Poll::Ready(None) => {
                            res = Some(Joined::Cancelled);
                            break;
                        }
                        Poll::Pending => {}
                    }
                    while flag.wakes.load(SeqCst) == seen && w.home_done.load(SeqCst) == 0 {
                        thread::yield_now();
                    }
                    if flag.wakes.load(SeqCst) == seen {
                        break;
                    }
                }
                drop(f);
                o.did.push((t, "cancel", res.map(|r| r.name().to_string()).unwrap_or_else(|| "pending-at-end".into())));
            }
            XOp::DropHandle(t) => {
                if let Some(h) = i.handles.get_mut(t).and_then(|h| h.take()) {
                    drop(h);
                    o.did.push((t, "hdrop", "cancelled".into()));
                }
            }
            XOp::Detach(t) => {
                if let Some(h) = i.handles.get_mut(t).and_then(|h| h.take()) {
                    h.detach();
                    o.did.push((t, "detach", String::new()));
                }
            }
        }
    }
    // handles the script did not use are dropped here (remote cancel)
    for (t, h) in i.handles.iter_mut().enumerate() {
        if let Some(h) = h.take() {
            drop(h);
            o.did.push((t, "hdrop", "cancelled".into()));
        }
    }
    if i.keep_leftovers {
        o.leftovers = std::mem::take(&mut i.wakers);
    } else if i.wakers.iter().any(|w| w.is_some()) {
        note(&mut o.waker_ops, "wdrop");
        i.wakers.clear();
    }
    drop(i);
    w.threads_done.fetch_add(1, SeqCst);
    o
}

fn use_late(wakers: Vec<Option<Waker>>) {
    for wk in wakers.into_iter().flatten() {
        wk.wake_by_ref();
        let c = wk.clone();
        c.wake();
        drop(wk);
    }
}

struct RunOut {
    bad: Vec<(String, String)>,
    raced: Vec<String>,
    ends: Vec<&'static str>,
    not_woken_at_teardown: u64,
    polls: u64,
    join_polls: u64,
    overlapped: bool,
    tasks: usize,
    owner_calls: u64,
    late_cancel_drops: u64,
    stuck: bool,
}

/// Ticks with a yield after each that foreign threads get to return.
const STUCK_TICKS: u64 = if cfg!(miri) { 400_000 } else { 500_000 };

fn run(p: &Prog) -> RunOut {
    let w = World::new(p.m, false, p.slow);
    let env = Env::new(w.clone(), false);
    let exe = Rc::new(Executor::with_config(ExecutorConfig {
        sync_queue_size: p.q,
        local_queue_size: 2,
        max_interval: p.m,
        waker: p.owner.then(|| Waker::from(Arc::new(OwnerWaker(w.clone())))),
    }));
    *env.exe.borrow_mut() = Rc::downgrade(&exe);
    let mut exe = Some(exe);
    let mut bad: Vec<(String, String)> = Vec::new();
    let mut raced: Vec<String> = Vec::new();
    let note = |v: &mut Vec<String>, k: &str| {
        if !v.iter().any(|x| x == k) {
            v.push(k.to_string())
        }
    };
    let n0 = p.tasks.len();
    for (t, b) in p.tasks.iter().enumerate() {
        let mut b = b.clone();
        if p.owner_of.get(t).copied().flatten().is_some() {
            b.send = true; // the handle travels
        }
        env.spawn(exe.as_ref().unwrap(), b);
    }
    let tick = |e: &Executor| {
        w.tick.fetch_add(1, Relaxed);
        e.tick()
    };
    for _ in 0..p.pre_ticks {
        tick(exe.as_ref().unwrap());
    }
    // ---- hand-over
    let recs: Vec<Arc<TaskRec>> = env.recs.borrow().iter().take(n0).cloned().collect();
    let mut joins = Vec::new();
    for (k, ops) in p.threads.iter().enumerate() {
        let handles: Vec<Option<SH>> = (0..n0)
            .map(|t| {
                if p.owner_of.get(t).copied().flatten() == Some(k) {
                    match env.handles.borrow_mut()[t].take() {
                        Some(H::S(h)) => Some(h),
                        Some(other) => {
                            env.handles.borrow_mut()[t] = Some(other);
                            None
                        }
                        None => None,
                    }
                } else {
                    None
                }
            })
            .collect();
        let input = ThreadIn {
            ops: ops.clone(),
            wakers: env.wakers.borrow().iter().take(n0).cloned().collect(),
            handles,
            recs: recs.clone(),
            w: w.clone(),
            keep_leftovers: p.leftovers != 0,
            slow_join_waker: if p.salt & 2 != 0 { 1 + (p.salt >> 2 & 1) as u32 } else { 0 },
        };
        joins.push(thread::spawn(move || thread_main(input)));
    }
    // ---- the home script, concurrent with the threads
    let mut home_cancelled: Vec<usize> = Vec::new();
    let mut detached: Vec<usize> = Vec::new();
    let jflag = Arc::new(FlagWaker::default());
    let jwaker = Waker::from(jflag.clone());
    for op in &p.home {
        match op {
            HOp::Tick(n) => {
                if let Some(e) = &exe {
                    for _ in 0..*n {
                        tick(e);
                    }
                }
            }
            HOp::Yield(n) => {
                for _ in 0..*n {
                    thread::yield_now();
                }
            }
            HOp::Wake(t) => {
                env.wake_task(*t, false);
            }
            HOp::DropExecutor => {
                if let Some(e) = exe.take() {
                    note(&mut raced, "xdrop-concurrent");
                    w.exec_dropped.store(1, SeqCst);
                    match Rc::try_unwrap(e) {
                        Ok(e) => drop(e),
                        Err(_) => bad.push(("C04/harness/executor-still-shared".into(), String::new())),
                    }
                }
            }
            HOp::JoinPoll(t) => {
                let h = env.handles.borrow_mut().get_mut(*t).and_then(|h| h.take());
                if let Some(mut h) = h {
                    let rec = env.recs.borrow()[*t].clone();
                    let r = h.poll(&rec, &jwaker, &mut bad, "xt-home");
                    if r == Joined::Pending {
                        env.handles.borrow_mut()[*t] = Some(h);
                    } else if r == Joined::Cancelled && exe.is_some() {
                        bad.push((
                            "C04/join-result/cancelled-without-cancel/xt-home".into(),
                            format!("task {t}: joined Cancelled on the home thread although nobody cancelled it"),
                        ));
                    }
                }
            }
            HOp::DropHandle(t) => {
                let h = env.handles.borrow_mut().get_mut(*t).and_then(|h| h.take());
                if let Some(h) = h {
                    let rec = env.recs.borrow()[*t].clone();
                    if rec.alive() {
                        env.note_hot(&rec);
                        home_cancelled.push(*t);
                    }
                    drop(h);
                }
            }
            HOp::Detach(t) => {
                let h = env.handles.borrow_mut().get_mut(*t).and_then(|h| h.take());
                if let Some(h) = h {
                    detached.push(*t);
                    h.detach();
                }
            }
        }
    }
    w.home_done.store(1, SeqCst);
    // ---- keep draining while foreign threads are still inside their scripts:
    // a remote wake / cancel on a full sync queue waits for the executor
    let mut service = 0u64;
    while w.threads_done.load(SeqCst) < p.threads.len() as u64 {
        if let Some(e) = &exe {
            tick(e);
        }
        thread::yield_now();
        service += 1;
        if !cfg!(miri) && service > 100_000 {
            // slow rounds: the watchdog is >= 40 s, not a burst of spinning
            thread::sleep(std::time::Duration::from_micros(100));
        }
        if service > STUCK_TICKS {
            let msg = format!(
                "{} of {} foreign threads have not finished their scripts after {STUCK_TICKS} further ticks (each drains the sync queue) with a yield after each: a JoinHandle/Waker call does not return",
                p.threads.len() as u64 - w.threads_done.load(SeqCst),
                p.threads.len()
            );
            if cfg!(miri) {
                bad.push(("C04/remote-call-never-returns/xt".into(), msg));
            } else {
                bad.push(("C04/harness/watchdog".into(), msg));
            }
            std::mem::forget(joins);
            std::mem::forget(exe);
            return RunOut {
                bad,
                raced: vec![],
                ends: vec![],
                not_woken_at_teardown: 0,
                polls: 0,
                join_polls: 0,
                overlapped: false,
                tasks: 0,
                owner_calls: 0,
                late_cancel_drops: 0,
                stuck: true,
            };
        }
    }
    // ---- quiescence: join the threads
    let mut outs = Vec::new();
    for j in joins {
        match j.join() {
            Ok(o) => outs.push(o),
            Err(_) => bad.push(("C04/harness/thread-panicked".into(), "a foreign thread of the harness panicked".into())),
        }
    }
    let mut remote_cancelled: Vec<(usize, &'static str)> = Vec::new();
    let mut not_woken = 0;
    let mut late_cancel_drops = 0u64;
    let mut join_polls = 0;
    let mut leftovers: Vec<Vec<Option<Waker>>> = Vec::new();
    let mut handles_back = Vec::new();
    for o in &mut outs {
        bad.append(&mut o.bad);
        for (t, what, res) in &o.did {
            note(&mut raced, what);
            match *what {
                "hdrop" | "poll+hdrop" => remote_cancelled.push((*t, what)),
                "cancel" if res == "cancelled" => remote_cancelled.push((*t, what)),
                "detach" => detached.push(*t),
                _ => {}
            }
        }
        for k in &o.waker_ops {
            note(&mut raced, k);
        }
        join_polls += o.join_polls;
        leftovers.push(std::mem::take(&mut o.leftovers));
        handles_back.append(&mut o.handles_back);
    }
    // ---- post-join checks with a live executor
    if let Some(e) = &exe {
        let n = env.recs.borrow().len() as u64;
        let cap = 2 + n / p.m as u64;
        let snapshot: Vec<(usize, &'static str, u64)> = remote_cancelled
            .iter()
            .map(|(t, what)| {
                let what = match *what {
                    "cancel" => "remote-cancel",
                    "hdrop" => "remote-hdrop",
                    _ => "remote-poll+hdrop",
                };
                (*t, what, recs[*t].polls.load(SeqCst))
            })
            .chain(home_cancelled.iter().map(|t| (*t, "home-hdrop", recs[*t].polls.load(SeqCst))))
            .collect();
        for _ in 0..cap {
            tick(e);
        }
        for (t, what, polls) in &snapshot {
            let rec = &recs[*t];
            if rec.polls.load(SeqCst) != *polls {
                bad.push((
                    format!("C04/poll/after-cancel/xt/{what}"),
                    format!(
                        "task {t}: {what} had returned (thread joined) with {polls} polls; {} polls after {cap} more ticks",
                        rec.polls.load(SeqCst)
                    ),
                ));
            }
            if rec.fut_drops.load(SeqCst) == 0 {
                // "Dropping the handle cancels the task": the call has returned
                // (its thread is joined), so the cancellation is visible and
                // the task must have been made runnable by it. The first tick
                // drains the sync queue and appends the task to the FIFO hot
                // list behind at most n - 1 others, every tick runs
                // `max_interval` of them: it is run (= dropped, being
                // cancelled) in tick 1 + floor((n - 1) / max_interval) <= cap.
                late_cancel_drops += 1;
                bad.push((
                    format!("C04/future-drop/late/{what}"),
                    format!(
                        "task {t}: its JoinHandle was released by `{what}` (the call returned; foreign threads are joined); the owner \
                         then ticked {cap} times (FIFO bound 2 + floor({n} tasks / max_interval {})) and the future is still not \
                         dropped ({} polls): the cancellation did not lead to a run of the task after the cancelled mark became \
                         visible, so it stays parked, holding its resources, until an unrelated wake-up or the end of the executor",
                        p.m,
                        rec.polls.load(SeqCst)
                    ),
                ));
            }
        }
        for &t in &detached {
            let (rec, b) = (recs[t].clone(), env.behs.borrow()[t].clone());
            if b.self_wake == 0 || (b.ready_at == 0 && b.panic_at == 0) || !rec.alive() {
                continue;
            }
            let capd = (b.ready_at.max(b.panic_at) as u64 + 1) * cap;
            let mut k = 0;
            while rec.alive() && k < capd {
                tick(e);
                k += 1;
            }
            if rec.finished.load(SeqCst) == 0 {
                bad.push((
                    "C04/detach/not-run-to-completion/xt".into(),
                    format!("detached self-waking task {t} not finished after {capd} more ticks"),
                ));
            }
        }
    }
    // Handles whose remote join was still pending come home. The home thread
    // is not ticking here, so this poll races nothing: if the waker the foreign
    // thread registered with its last (Pending) poll was never woken and the
    // result is there now, that wake-up was lost.
    for (t, mut h, flag, unwoken_at) in handles_back {
        let r = poll_sh(&mut h, &recs[t], &jwaker, &mut bad);
        if let Some(seen) = unwoken_at
            && flag.wakes.load(SeqCst) == seen
        {
            match r {
                Joined::Ok | Joined::Panicked => bad.push((
                    "C04/join-wake-lost/remote-join-pending-then-completion".into(),
                    format!(
                        "task {t}: a foreign thread's JoinHandle::poll returned Pending (waker registered); the task then completed ({}) but that waker was never woken — the result was found only by polling the handle again, unprompted, after the executor thread had stopped ticking (Remote::poll was inside the SETTING_WAKER section when Task::run finished, which then skips the wake; nobody re-checks)",
                        r.name()
                    ),
                )),
                Joined::Cancelled => not_woken += 1,
                Joined::Pending => {}
            }
        }
        drop(h);
    }
    // ---- teardown (unless the script already did it) and late waker use
    if let Some(e) = exe.take() {
        if env.recs.borrow().iter().any(|r| r.alive()) {
            note(&mut raced, "xdrop-over-live");
        }
        if let Ok(e) = Rc::try_unwrap(e) {
            drop(e);
        }
        w.exec_dropped.store(1, SeqCst);
    }
    if p.salt & 1 == 1 {
        // the home thread lets go of its waker copies first: the foreign
        // holders then own the last references
        let ws: Vec<_> = env.wakers.borrow_mut().drain(..).collect();
        drop(ws);
    }
    match p.leftovers {
        1 => {
            for l in leftovers {
                if l.iter().any(|x| x.is_some()) {
                    note(&mut raced, "late-waker-home");
                }
                use_late(l);
            }
        }
        2 => {
            if leftovers.iter().flatten().any(|x| x.is_some()) {
                note(&mut raced, "late-waker-foreign");
            }
            let h = thread::spawn(move || {
                for l in leftovers {
                    use_late(l);
                }
            });
            let _ = h.join();
        }
        _ => {}
    }
    let hs: Vec<_> = env.handles.borrow_mut().drain(..).collect();
    drop(hs);
    let ws: Vec<_> = env.wakers.borrow_mut().drain(..).collect();
    for wk in ws.iter().flatten() {
        wk.wake_by_ref();
    }
    drop(ws);
    finish_accounting(&env, "xt", &mut bad);
    let recs_all = env.recs.borrow();
    RunOut {
        bad,
        overlapped: !raced.is_empty(),
        raced,
        ends: recs_all.iter().map(|r| end_state(r)).collect(),
        not_woken_at_teardown: not_woken,
        polls: recs_all.iter().map(|r| r.polls.load(SeqCst)).sum(),
        join_polls,
        tasks: recs_all.len(),
        owner_calls: w.owner_calls.load(SeqCst),
        late_cancel_drops,
        stuck: false,
    }
}

pub(crate) fn evaluate(p: &Prog, rep: &mut Report, leg: &str) -> bool {
    let replay = || json!({"kind": "xt", "prog": p.to_json(), "reps": if cfg!(miri) { 200 } else { 3000 }});
    if cfg!(miri) || std::env::var_os("C04_TRACE").is_some() {
        // Miri/sanitizer reports end the process: leave the program behind
        eprintln!("[c04-xt] {}", p.to_json());
    }
    let o = match panics::catch(|| run(p)) {
        Ok(o) => o,
        Err(info) => {
            match info.origin() {
                panics::Origin::Repo(l) => rep.violation(
                    &format!("C04/{}/xt", info.sig()),
                    &format!("panic inside compio at {l}: {}", info.message),
                    replay(),
                ),
                _ if info.file.ends_with("c04.rs") && info.message.contains("non-string") => rep.violation(
                    "C04/panic-escaped-the-executor/xt",
                    "a task's panic was not caught by the executor (it unwound out of tick())",
                    replay(),
                ),
                o => rep.inconclusive(&format!("harness panic {o:?}: {}", info.message)),
            }
            return true;
        }
    };
    if o.stuck {
        for (sig, what) in &o.bad {
            if sig.starts_with("C04/harness") {
                rep.inconclusive(&format!("{sig}: {what}"));
            } else {
                rep.violation(sig, what, replay());
            }
        }
        rep.note("a foreign thread was stuck inside a compio call: process ended early");
        rep.finish();
        std::process::exit(0);
    }
    rep.count("xt_programs", 1);
    rep.count("xt_task_polls", o.polls as i64);
    rep.count("xt_remote_join_polls", o.join_polls as i64);
    rep.count("xt_tasks", o.tasks as i64);
    rep.count("xt_owner_notifications", o.owner_calls as i64);
    rep.count("xt_cancelled_future_still_alive_after_fifo_bound", o.late_cancel_drops as i64);
    rep.count("xt_remote_joiner_not_woken_when_executor_dropped(observation)", o.not_woken_at_teardown as i64);
    let mut raced = o.raced.clone();
    raced.sort();
    for k in ["join", "cancel", "hdrop", "poll+hdrop", "detach", "wake", "wdrop", "xdrop-concurrent", "late-waker-foreign"] {
        rep.floor(&format!("xt:raced-{k}"), raced.iter().any(|r| r == k));
    }
    let mut ends: Vec<&str> = o.ends.clone();
    ends.sort();
    ends.dedup();
    rep.eval(o.overlapped.then(|| format!("xt:{leg}:th{}:{}:{}", p.threads.len(), raced.join("+"), ends.join("+"))));
    if rep.want_sample() && o.overlapped {
        rep.sample(json!({"program": p.to_json(), "raced": raced, "ends": o.ends}));
    }
    for (sig, what) in &o.bad {
        if sig.starts_with("C04/harness") {
            rep.inconclusive(&format!("{sig}: {what}"));
        } else {
            rep.violation(sig, what, replay());
        }
    }
    !o.bad.is_empty()
}

pub(crate) fn gen_prog(rng: &mut Rng, args: &Args) -> Prog {
    let big = !cfg!(miri) && args.flag("long");
    let ntasks = rng.range(1, if big { 8 } else { 4 });
    let nthreads = rng.range(1, args.usize("max-threads", 3));
    let mut tasks = Vec::new();
    let mut owner_of = Vec::new();
    for _ in 0..ntasks {
        let mut b = Beh {
            send: rng.chance(3, 4),
            ..Beh::default()
        };
        match rng.below(10) {
            0..=5 => b.ready_at = rng.range(1, 4) as u32,
            6 => b.panic_at = rng.range(1, 3) as u32,
            _ => {}
        }
        b.self_wake = *rng.pick(&[0, 0, 0, 1, 2]);
        if rng.chance(1, 8) {
            b.wake_peer = Some(rng.below(ntasks));
        }
        if rng.chance(1, 12) {
            b.spawn_child_at = rng.range(1, 2) as u32;
        }
        if rng.chance(1, 12) {
            b.drop_handle_at = Some((rng.range(1, 2) as u32, rng.below(ntasks)));
        }
        let own = if b.send && rng.chance(3, 4) { Some(rng.below(nthreads)) } else { None };
        tasks.push(b);
        owner_of.push(own);
    }
    let mut threads = Vec::new();
    for k in 0..nthreads {
        let mut ops = Vec::new();
        let mut mine: Vec<usize> = (0..ntasks).filter(|t| owner_of[*t] == Some(k)).collect();
        rng.shuffle(&mut mine);
        let nops = rng.range(1, if big { 24 } else { 7 });
        for _ in 0..nops {
            let op = match rng.below(10) {
                0 | 1 => XOp::Yield(rng.range(1, 3) as u8),
                2..=4 => XOp::Wake(rng.below(ntasks), *rng.pick(&[0, 0, 1, 2, 3])),
                5 => XOp::DropWaker(rng.below(ntasks)),
                _ => match mine.pop() {
                    Some(t) => match rng.below(9) {
                        0..=2 => XOp::JoinLoop(t),
                        3 | 4 => XOp::PollThenDrop(t),
                        5 => XOp::Cancel(t),
                        6 | 7 => XOp::DropHandle(t),
                        _ => XOp::Detach(t),
                    },
                    None => XOp::Wake(rng.below(ntasks), 0),
                },
            };
            ops.push(op);
        }
        threads.push(ops);
    }
    let mut home = Vec::new();
    let nh = rng.range(2, if big { 30 } else { 8 });
    // `--xdrop 0`: the executor is only dropped after the foreign threads are
    // joined; `1`: always while they run; default: 2 in 5 programs
    let xdrop = match args.get("xdrop") {
        Some("0") => false,
        Some("1") => true,
        _ => rng.chance(2, 5),
    };
    let xdrop_at = if xdrop { Some(rng.below(nh)) } else { None };
    for i in 0..nh {
        if Some(i) == xdrop_at {
            home.push(HOp::DropExecutor);
            continue;
        }
        home.push(match rng.below(12) {
            0..=5 => HOp::Tick(rng.range(1, 3) as u8),
            6 | 7 => HOp::Yield(rng.range(1, 3) as u8),
            8 => HOp::Wake(rng.below(ntasks)),
            9 => HOp::JoinPoll(rng.below(ntasks)),
            10 => HOp::DropHandle(rng.below(ntasks)),
            _ => HOp::Detach(rng.below(ntasks)),
        });
    }
    Prog {
        q: *rng.pick(&[1, 1, 2, 64]),
        m: *rng.pick(&[1, 2, 61]),
        owner: rng.chance(3, 4),
        slow: if rng.chance(1, 3) { rng.range(1, 3) as u32 } else { 0 },
        tasks,
        owner_of,
        pre_ticks: rng.below(3) as u32,
        threads,
        home,
        leftovers: rng.below(3) as u8,
        salt: rng.next_u64(),
    }
}
