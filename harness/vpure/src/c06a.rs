//! C06 SharedFd take/drop protocol (Miri, sync feature) — not built yet.

use vcommon::Args;

pub fn main(_args: &Args) {
    eprintln!("c06a: not implemented");
    std::process::exit(3);
}
