//! C06 monitor 1 — `compio_driver::SharedFd<T>` take/drop protocol.
//!
//! `T = ProbeFd`: a fake descriptor (no syscalls; `AsFd` hands out a borrowed
//! fd 0 that is never used) whose `Drop` records "closed" with the thread it
//! happened on. Two kinds of programs over the REAL `SharedFd` (this build has
//! compio-driver's feature `sync`: `Arc` + `AtomicWaker`; the `unsync` flavour
//! — `Rc` + `RefCell` slot — cannot be built into the same binary because the
//! feature is additive and selects the flavour crate-wide, so it is NOT covered
//! here):
//!
//! * `seq`  — single thread, every order of {release of one of the k <= 4 other
//!   handles (plain drop / clone+drop / a second `take()` / a `take()` future
//!   dropped unpolled), poll of the taker, taker gives up} enumerated with the
//!   odometer;
//! * `thr`  — the k other handles are released on 1–3 other threads while the
//!   main thread drives `take()` the way an executor does: poll, then sleep
//!   until the registered waker fires. Under Miri every run is a different
//!   interleaving (plus data-race / use-after-free / leak detection), natively
//!   it is a stress.
//!
//! Oracle (both):
//! * `take()` is `Pending` while any other handle lives (a `Ready` before every
//!   other release has at least *started* is a violation);
//! * liveness, executor-faithful: once every other release has *returned*,
//!   either a wake is outstanding (the waker fired after the taker's last poll
//!   began) and then the next poll is `Ready(Some)`, or the taker already got
//!   its fd. "All handles gone, taker `Pending`, no wake outstanding" is a
//!   `take()` that never completes under any executor = violation (decided
//!   logically, no clock involved);
//! * the first taker never gets `None`; a second concurrent `take()` gets `None`;
//! * the fd is closed exactly once, never while a handle is alive, by the taker
//!   if it got `Some` (the caller then owns it), by whoever releases last if the
//!   taker gave up; never leaked.

use std::{
    future::Future,
    os::fd::{AsFd, BorrowedFd},
    pin::Pin,
    sync::{
        Arc, Condvar, Mutex,
        atomic::{AtomicUsize, Ordering},
    },
    task::{Context, Poll, Wake, Waker},
    thread::{self, ThreadId},
};

use compio_driver::SharedFd;
use vcommon::{Args, Report, Rng, json, panics};

use crate::choose::{Chooser, ReplayChooser};

// ---------------------------------------------------------------------------
// probe descriptor
// ---------------------------------------------------------------------------

#[derive(Debug, Default)]
struct ProbeLog {
    closed: AtomicUsize,
    closer: Mutex<Option<ThreadId>>,
}

#[derive(Debug)]
struct ProbeFd {
    log: Arc<ProbeLog>,
    magic: u32,
}

const MAGIC: u32 = 0xC06A_F00D;

impl AsFd for ProbeFd {
    fn as_fd(&self) -> BorrowedFd<'_> {
        // never used for a syscall
        unsafe { BorrowedFd::borrow_raw(0) }
    }
}

impl Drop for ProbeFd {
    fn drop(&mut self) {
        self.log.closed.fetch_add(1, Ordering::SeqCst);
        *self.log.closer.lock().unwrap() = Some(thread::current().id());
    }
}

// ---------------------------------------------------------------------------
// waker + "something happened" signal
// ---------------------------------------------------------------------------

/// Counting waker plus a condvar the executor loop sleeps on. The counters
/// are atomics (cheap to read under Miri); the mutex only closes the
/// check-then-sleep window.
#[derive(Default)]
struct Sig {
    wakes: AtomicUsize,
    /// releases that have returned
    done: AtomicUsize,
    m: Mutex<()>,
    cv: Condvar,
}

impl Wake for Sig {
    fn wake(self: Arc<Self>) {
        self.wake_by_ref()
    }

    fn wake_by_ref(self: &Arc<Self>) {
        self.wakes.fetch_add(1, Ordering::SeqCst);
        let _g = self.m.lock().unwrap();
        self.cv.notify_all();
    }
}

impl Sig {
    fn wakes(&self) -> usize {
        self.wakes.load(Ordering::SeqCst)
    }

    fn release_done(&self) {
        self.done.fetch_add(1, Ordering::SeqCst);
        let _g = self.m.lock().unwrap();
        self.cv.notify_all();
    }

    /// Sleep until a wake newer than `snap` arrived or `k` releases have
    /// returned. Returns (woken, all_done).
    fn sleep(&self, snap: usize, k: usize) -> (bool, bool) {
        let mut g = self.m.lock().unwrap();
        loop {
            // read `done` first: a release that has returned cannot wake any more
            let done = self.done.load(Ordering::SeqCst) >= k;
            let woken = self.wakes.load(Ordering::SeqCst) > snap;
            if woken || done {
                return (woken, done);
            }
            g = self.cv.wait(g).unwrap();
        }
    }
}

// ---------------------------------------------------------------------------
// release kinds
// ---------------------------------------------------------------------------

#[derive(Clone, Copy, PartialEq, Eq, Debug)]
enum Rel {
    /// `drop(handle)`
    Drop,
    /// `let c = handle.clone(); drop(handle); drop(c)`
    CloneDrop,
    /// `handle.take()` polled once (a second, concurrent close): must be `None`
    Take2,
    /// `handle.take()` whose future is dropped without being polled
    TakeUnpolled,
}

const RELS: [Rel; 4] = [Rel::Drop, Rel::CloneDrop, Rel::Take2, Rel::TakeUnpolled];

impl Rel {
    fn code(self) -> &'static str {
        match self {
            Rel::Drop => "d",
            Rel::CloneDrop => "c",
            Rel::Take2 => "t",
            Rel::TakeUnpolled => "u",
        }
    }

    fn trace_code(self) -> &'static str {
        match self {
            Rel::Drop => "Rd",
            Rel::CloneDrop => "Rc",
            Rel::Take2 => "Rt",
            Rel::TakeUnpolled => "Ru",
        }
    }

    fn idx(self) -> usize {
        RELS.iter().position(|r| *r == self).unwrap()
    }
}

type TakeFut = Pin<Box<dyn Future<Output = Option<ProbeFd>> + Send>>;

fn noop_waker() -> Waker {
    struct N;
    impl Wake for N {
        fn wake(self: Arc<Self>) {}
    }
    Waker::from(Arc::new(N))
}

/// Performs one release. `Err(class)` if the second take misbehaved.
fn release(h: SharedFd<ProbeFd>, kind: Rel) -> Result<(), &'static str> {
    match kind {
        Rel::Drop => drop(h),
        Rel::CloneDrop => {
            let c = h.clone();
            drop(h);
            drop(c);
        }
        Rel::Take2 => {
            let mut f: TakeFut = Box::pin(h.take());
            let w = noop_waker();
            let mut cx = Context::from_waker(&w);
            match f.as_mut().poll(&mut cx) {
                Poll::Ready(None) => {}
                Poll::Ready(Some(fd)) => {
                    // keep the probe's own bookkeeping right, then complain
                    drop(fd);
                    return Err("second-take-got-some");
                }
                Poll::Pending => {
                    drop(f);
                    return Err("second-take-pending");
                }
            }
        }
        Rel::TakeUnpolled => drop(h.take()),
    }
    Ok(())
}

// ---------------------------------------------------------------------------
// verdict plumbing
// ---------------------------------------------------------------------------

#[derive(Default)]
struct Findings {
    v: Vec<(String, String)>,
}

impl Findings {
    fn add(&mut self, class: &str, what: impl Into<String>) {
        self.v.push((format!("C06/sharedfd-take/{class}"), what.into()));
    }
}

struct Taker {
    fut: Option<TakeFut>,
    sig: Arc<Sig>,
    waker: Waker,
    polls: usize,
    pending_polls: usize,
    /// wake count when the last poll began
    snap: usize,
    got: Option<ProbeFd>,
    gave_up: bool,
}

impl Taker {
    fn new(h: SharedFd<ProbeFd>) -> Self {
        let sig = Arc::new(Sig::default());
        Self {
            fut: Some(Box::pin(h.take())),
            waker: Waker::from(sig.clone()),
            sig,
            polls: 0,
            pending_polls: 0,
            snap: 0,
            got: None,
            gave_up: false,
        }
    }

    fn active(&self) -> bool {
        self.fut.is_some()
    }

    /// true = an executor would poll now (first poll, or woken since the last
    /// poll began)
    fn runnable(&self) -> bool {
        self.active() && (self.polls == 0 || self.sig.wakes() > self.snap)
    }

    /// Polls once. `Err(())` = first taker got `None`.
    fn poll(&mut self) -> Result<bool, ()> {
        let f = self.fut.as_mut().expect("poll on finished taker");
        self.snap = self.sig.wakes();
        self.polls += 1;
        let mut cx = Context::from_waker(&self.waker);
        match f.as_mut().poll(&mut cx) {
            Poll::Ready(Some(fd)) => {
                self.got = Some(fd);
                self.fut = None;
                Ok(true)
            }
            Poll::Ready(None) => {
                self.fut = None;
                Err(())
            }
            Poll::Pending => {
                self.pending_polls += 1;
                Ok(false)
            }
        }
    }

    fn give_up(&mut self) {
        self.fut = None;
        self.gave_up = true;
    }
}

/// End-of-program accounting shared by both program kinds. All other handles
/// have been released (and the releasing threads joined).
fn finish(t: &mut Taker, log: &Arc<ProbeLog>, main_tid: ThreadId, f: &mut Findings) -> &'static str {
    let outcome;
    if let Some(fd) = t.got.take() {
        if fd.magic != MAGIC {
            f.add("wrong-fd", "take() returned a different object");
        }
        if log.closed.load(Ordering::SeqCst) != 0 {
            f.add("closed-before-owner-dropped", "the fd was closed although take() handed it to the caller");
        }
        drop(fd);
        if *log.closer.lock().unwrap() != Some(main_tid) {
            f.add("closed-by-wrong-thread", "taker owned the fd but another thread ran its Drop");
        }
        outcome = "taken";
    } else if t.gave_up {
        outcome = "gaveup";
    } else {
        outcome = "none";
    }
    t.fut = None;
    match log.closed.load(Ordering::SeqCst) {
        1 => {}
        0 => f.add("leak", "every handle is gone but the descriptor was never closed"),
        n => f.add("double-close", format!("descriptor closed {n} times")),
    }
    outcome
}

// ---------------------------------------------------------------------------
// single-threaded enumeration
// ---------------------------------------------------------------------------

/// `choose::Odometer` plus subtree pruning, so that shards can split the
/// enumeration by choice prefix (a foreign prefix costs one run, not its
/// whole subtree).
#[derive(Default)]
struct Odo {
    digits: Vec<(usize, usize)>,
    pos: usize,
    started: bool,
}

impl Odo {
    fn advance(&mut self) -> bool {
        if !self.started {
            self.started = true;
            self.pos = 0;
            return true;
        }
        self.digits.truncate(self.pos);
        while let Some((v, n)) = self.digits.pop() {
            if v + 1 < n {
                self.digits.push((v + 1, n));
                self.pos = 0;
                return true;
            }
        }
        false
    }

    /// Skip every remaining program that shares the first `depth` choices
    /// with the last run.
    fn prune(&mut self, depth: usize) {
        self.pos = self.pos.min(depth);
    }
}

impl Chooser for Odo {
    fn choose(&mut self, n: usize) -> usize {
        let n = n.max(1);
        if self.pos == self.digits.len() {
            self.digits.push((0, n));
        }
        let (v, _) = self.digits[self.pos];
        self.pos += 1;
        v
    }

    fn trace(&self) -> Vec<usize> {
        self.digits[..self.pos].iter().map(|d| d.0).collect()
    }
}

struct SeqResult {
    sig: String,
    trace: Vec<&'static str>,
}

/// `format!` is what dominates a small program under Miri: signatures are
/// assembled from static pieces and single digits instead.
fn push_kv(s: &mut String, key: &str, v: usize) {
    s.push_str(key);
    s.push((b'0' + v.min(9) as u8) as char);
}

fn kinds_string(s: &mut String, used: &[usize; 4]) {
    for r in RELS {
        push_kv(s, r.code(), used[r.idx()]);
    }
}

/// One single-threaded program, driven by the chooser.
fn run_seq(ch: &mut dyn Chooser, kmax: usize, kinds_mask: usize, f: &mut Findings) -> SeqResult {
    let log = Arc::new(ProbeLog::default());
    let main_tid = thread::current().id();
    let root = SharedFd::new(ProbeFd { log: log.clone(), magic: MAGIC });
    let k = 1 + ch.choose(kmax);
    let mut others: Vec<SharedFd<ProbeFd>> = (0..k).map(|_| root.clone()).collect();
    let mut t = Taker::new(root);
    let kinds: Vec<Rel> = RELS.iter().copied().filter(|r| kinds_mask & (1 << r.idx()) != 0).collect();
    let mut trace = Vec::new();
    let mut used = [0usize; 4];
    let mut last_rel = None;
    let mut spurious_ok = true; // at most one un-woken poll between two releases
    let mut waiting_at_last_release = false;
    let mut stuck: Option<&'static str> = None;
    loop {
        // ---- options
        #[derive(Clone, Copy)]
        enum Act {
            Rel(Rel),
            Poll,
            GiveUp,
        }
        let mut acts = Vec::new();
        if !others.is_empty() {
            for r in &kinds {
                // a second take before the taker's first poll would make *it*
                // the first taker: not this program's shape
                if *r == Rel::Take2 && t.polls == 0 {
                    continue;
                }
                acts.push(Act::Rel(*r));
            }
        }
        if t.active() {
            if t.runnable() || spurious_ok {
                acts.push(Act::Poll);
            }
            if t.pending_polls > 0 && !others.is_empty() {
                acts.push(Act::GiveUp);
            }
        }
        if others.is_empty() {
            // everything released: only the executor-faithful continuation
            if t.active() {
                if t.runnable() {
                    trace.push("P!");
                    match t.poll() {
                        Ok(true) => {}
                        Ok(false) => f.add(
                            "pending-with-unique-owner",
                            "every other handle has been released and the waker fired, yet take() is still Pending",
                        ),
                        Err(()) => f.add("none-for-first-taker", "the only take() in progress resolved to None"),
                    }
                } else {
                    // Pending, nobody left to wake it
                    let class = if last_rel == Some(Rel::Take2) {
                        "stuck/last-handle-released-by-second-take"
                    } else if last_rel == Some(Rel::TakeUnpolled) {
                        "stuck/last-handle-released-by-unpolled-take"
                    } else if t.sig.wakes() == 0 {
                        "stuck/never-woken"
                    } else {
                        "stuck/woken-before-release"
                    };
                    stuck = Some(class);
                    f.add(
                        class,
                        format!(
                            "single thread: every other handle is gone, take() is Pending and its waker will never fire again \
                             (wakes so far {}, polls {}); last release kind {:?}",
                            t.sig.wakes(),
                            t.polls,
                            last_rel
                        ),
                    );
                }
            }
            break;
        }
        if acts.is_empty() {
            break;
        }
        match acts[ch.choose(acts.len())] {
            Act::Rel(r) => {
                trace.push(r.trace_code());
                if log.closed.load(Ordering::SeqCst) != 0 {
                    f.add("closed-while-held", "descriptor closed while a handle is alive");
                }
                let h = others.pop().unwrap();
                assert_eq!(h.magic, MAGIC);
                waiting_at_last_release = t.active() && t.pending_polls > 0;
                if let Err(c) = release(h, r) {
                    f.add(c, "a second take() while the first is pending must resolve to None at once");
                }
                used[r.idx()] += 1;
                last_rel = Some(r);
                spurious_ok = true;
            }
            Act::Poll => {
                let woken = t.runnable();
                trace.push(if woken { "P" } else { "Ps" });
                if !woken {
                    spurious_ok = false;
                }
                let alive = others.len();
                match t.poll() {
                    Ok(true) => {
                        if alive > 0 {
                            f.add("ready-while-shared", format!("take() resolved while {alive} other handle(s) are alive"));
                        }
                    }
                    Ok(false) => {}
                    Err(()) => f.add("none-for-first-taker", "the only take() in progress resolved to None"),
                }
            }
            Act::GiveUp => {
                trace.push("G");
                t.give_up();
            }
        }
    }
    let prepolled = trace.iter().position(|s| s.starts_with('P')).is_some_and(|p| trace[..p].iter().all(|s| !s.starts_with('R')));
    let outcome = stuck.unwrap_or("");
    let fin = finish(&mut t, &log, main_tid, f);
    let t_polls = t.polls;
    let mut sig = String::with_capacity(96);
    push_kv(&mut sig, "seq:k", k);
    sig.push(':');
    kinds_string(&mut sig, &used);
    sig.push_str(":last");
    sig.push_str(last_rel.map_or("-", |r| r.code()));
    push_kv(&mut sig, ":pre", prepolled as usize);
    push_kv(&mut sig, ":wait", waiting_at_last_release as usize);
    push_kv(&mut sig, ":polls", t_polls.min(4));
    sig.push(':');
    sig.push_str(fin);
    if !outcome.is_empty() {
        sig.push(':');
        sig.push_str(outcome);
    }
    SeqResult { sig, trace }
}

// ---------------------------------------------------------------------------
// threaded programs
// ---------------------------------------------------------------------------

#[derive(Clone, Debug)]
struct ThrProgram {
    k: usize,
    threads: usize,
    /// handle i is released by thread assign[i]
    assign: Vec<usize>,
    kinds: Vec<Rel>,
    /// yield before releasing handle i
    yields: Vec<bool>,
    /// the taker polls once before the other threads start
    prepoll: bool,
    /// taker drops its future after this many Pending polls
    giveup: Option<usize>,
}

impl ThrProgram {
    fn gen_random(rng: &mut Rng, allow_silent: bool) -> Self {
        let k = rng.range(1, 4);
        let threads = rng.range(1, 3.min(k.max(1)));
        let silent = allow_silent && rng.chance(1, 4);
        let kinds: Vec<Rel> = (0..k)
            .map(|_| {
                if silent && rng.chance(1, 2) {
                    *rng.pick(&[Rel::Take2, Rel::TakeUnpolled])
                } else if rng.chance(1, 5) {
                    Rel::CloneDrop
                } else {
                    Rel::Drop
                }
            })
            .collect();
        let has_take2 = kinds.contains(&Rel::Take2);
        Self {
            k,
            threads,
            // every thread gets at least one handle when k >= threads
            assign: {
                let mut a: Vec<usize> = (0..k).map(|i| if i < threads { i } else { rng.below(threads) }).collect();
                rng.shuffle(&mut a);
                a
            },
            kinds,
            yields: (0..k).map(|_| rng.chance(1, 3)).collect(),
            prepoll: has_take2 || rng.chance(2, 3),
            giveup: rng.chance(1, 6).then(|| rng.range(1, 2)),
        }
    }

    fn to_json(&self) -> vcommon::Value {
        json!({"kind": "thr", "k": self.k, "threads": self.threads, "assign": self.assign,
               "kinds": self.kinds.iter().map(|r| r.code()).collect::<Vec<_>>(), "yields": self.yields,
               "prepoll": self.prepoll, "giveup": self.giveup})
    }

    fn from_json(v: &vcommon::Value) -> Option<Self> {
        Some(Self {
            k: v["k"].as_u64()? as usize,
            threads: v["threads"].as_u64()? as usize,
            assign: v["assign"].as_array()?.iter().map(|x| x.as_u64().unwrap_or(0) as usize).collect(),
            kinds: v["kinds"]
                .as_array()?
                .iter()
                .map(|x| RELS.iter().copied().find(|r| Some(r.code()) == x.as_str()))
                .collect::<Option<Vec<_>>>()?,
            yields: v["yields"].as_array()?.iter().map(|x| x.as_bool().unwrap_or(false)).collect(),
            prepoll: v["prepoll"].as_bool()?,
            giveup: v["giveup"].as_u64().map(|x| x as usize),
        })
    }
}

fn run_thr(p: &ThrProgram, f: &mut Findings) -> String {
    let log = Arc::new(ProbeLog::default());
    let main_tid = thread::current().id();
    let root = SharedFd::new(ProbeFd { log: log.clone(), magic: MAGIC });
    let mut per_thread: Vec<Vec<(SharedFd<ProbeFd>, Rel, bool)>> = (0..p.threads).map(|_| Vec::new()).collect();
    for i in 0..p.k {
        per_thread[p.assign[i] % p.threads].push((root.clone(), p.kinds[i], p.yields[i]));
    }
    let mut t = Taker::new(root);
    let started = Arc::new(AtomicUsize::new(0));
    let thread_findings = Arc::new(Mutex::new(Vec::<(&'static str, &'static str)>::new()));
    let mut ready_early = false;
    if p.prepoll {
        match t.poll() {
            Ok(false) => {}
            Ok(true) => {
                ready_early = true;
                f.add("ready-while-shared", format!("take() resolved while {} other handle(s) are alive", p.k));
            }
            Err(()) => f.add("none-for-first-taker", "the only take() in progress resolved to None"),
        }
    }
    let hs: Vec<_> = per_thread
        .into_iter()
        .map(|work| {
            let (sig, started, log, tf) = (t.sig.clone(), started.clone(), log.clone(), thread_findings.clone());
            thread::spawn(move || {
                for (h, kind, y) in work {
                    if y {
                        thread::yield_now();
                    }
                    // the handle is alive: the descriptor must be usable
                    if h.magic != MAGIC || log.closed.load(Ordering::SeqCst) != 0 {
                        tf.lock().unwrap().push(("closed-while-held", "descriptor closed while a handle is alive"));
                    }
                    started.fetch_add(1, Ordering::SeqCst);
                    if let Err(c) = release(h, kind) {
                        tf.lock().unwrap().push((c, "a second take() while the first is pending must resolve to None at once"));
                    }
                    sig.release_done();
                }
            })
        })
        .collect();

    // ---- the executor: poll, then sleep until woken (or until nothing can
    // wake us any more)
    let mut stuck: Option<&'static str> = None;
    let mut polls_after_all_done = 0;
    let mut woken_polls = 0;
    while t.active() {
        if t.polls > 0 {
            // sleep until woken or until every release has returned
            let (woken, all_done) = t.sig.sleep(t.snap, p.k);
            if !woken {
                debug_assert!(all_done);
                // Every other handle is gone (its release call has returned),
                // the last poll began after the last wake and said Pending.
                // Classified by what was observed only. (Releases through a
                // second / unpolled take() go through `SharedFd::drop` like any
                // other; a release that bypasses it is caught deterministically
                // by the single-threaded enumeration as
                // `stuck/last-handle-released-by-*`.)
                let class = if t.sig.wakes() == 0 {
                    "stuck/never-woken"
                } else {
                    "stuck/woken-before-release"
                };
                stuck = Some(class);
                // diagnostic only: would a spurious poll have resolved it?
                let probe = t.poll();
                f.add(
                    class,
                    format!(
                        "every other handle has been released (all {} release calls returned) but take() is Pending and its \
                         waker did not fire after the taker's last poll began: it never completes under an executor \
                         (wakes in total {}, polls {}, a spurious extra poll gives {})",
                        p.k,
                        t.sig.wakes(),
                        t.polls - 1,
                        match probe {
                            Ok(true) => "Ready(Some)",
                            Ok(false) => "Pending",
                            Err(()) => "Ready(None)",
                        }
                    ),
                );
                break;
            }
            woken_polls += 1;
            if all_done {
                polls_after_all_done += 1;
            }
            if let Some(n) = p.giveup {
                if t.pending_polls >= n {
                    t.give_up();
                    break;
                }
            }
            let all_done_before = all_done;
            match t.poll() {
                Ok(true) => {}
                Ok(false) => {
                    if all_done_before {
                        f.add(
                            "pending-with-unique-owner",
                            "every other release had returned before this poll began and the waker had fired, yet take() is Pending",
                        );
                        break;
                    }
                }
                Err(()) => f.add("none-for-first-taker", "the only take() in progress resolved to None"),
            }
        } else {
            // first poll, racing with the releases
            match t.poll() {
                Ok(_) => {}
                Err(()) => f.add("none-for-first-taker", "the only take() in progress resolved to None"),
            }
        }
        if t.got.is_some() && !ready_early && started.load(Ordering::SeqCst) < p.k {
            f.add(
                "ready-while-shared",
                format!("take() resolved although only {} of {} other handles had begun to be released", started.load(Ordering::SeqCst), p.k),
            );
        }
    }
    for h in hs {
        h.join().expect("releasing thread");
    }
    for (c, w) in thread_findings.lock().unwrap().drain(..) {
        f.add(c, w);
    }
    let wakes = t.sig.wakes();
    let polls = t.polls;
    let fin = finish(&mut t, &log, main_tid, f);
    let mut used = [0usize; 4];
    for r in &p.kinds {
        used[r.idx()] += 1;
    }
    let mut sig = String::with_capacity(128);
    push_kv(&mut sig, "thr:k", p.k);
    push_kv(&mut sig, ":t", p.threads);
    sig.push(':');
    kinds_string(&mut sig, &used);
    push_kv(&mut sig, ":pre", p.prepoll as usize);
    push_kv(&mut sig, ":give", p.giveup.unwrap_or(0));
    push_kv(&mut sig, ":polls", polls.min(4));
    push_kv(&mut sig, ":wakes", wakes.min(3));
    push_kv(&mut sig, ":wp", woken_polls.min(3));
    push_kv(&mut sig, ":late", polls_after_all_done.min(2));
    sig.push(':');
    sig.push_str(fin);
    if let Some(c) = stuck {
        sig.push(':');
        sig.push_str(c);
    }
    sig
}

// ---------------------------------------------------------------------------
// driver
// ---------------------------------------------------------------------------

fn report_findings(rep: &mut Report, f: Findings, replay: vcommon::Value, leg_kind: &str) -> bool {
    let bad = !f.v.is_empty();
    for (sig, what) in f.v {
        rep.violation(&sig, &format!("[{leg_kind}] {what}"), replay.clone());
    }
    bad
}

/// Returns false if the program belongs to another shard (nothing recorded).
fn eval_seq(ch: &mut dyn Chooser, kmax: usize, kinds_mask: usize, rep: &mut Report, own: &dyn Fn(&[usize]) -> bool) -> bool {
    // The program *is* its execution here, so ownership is decided afterwards
    // (by choice prefix); findings of foreign programs are discarded.
    let mut f = Findings::default();
    let r = panics::catch(|| run_seq(ch, kmax, kinds_mask, &mut f));
    let trace = ch.trace();
    if !own(&trace) {
        return false;
    }
    match r {
        Ok(res) => {
            rep.eval(Some(res.sig.clone()));
            if rep.want_sample() {
                rep.sample(json!({"kind": "seq", "choices": trace, "trace": res.trace, "signature": res.sig}));
            }
            report_findings(rep, f, json!({"kind": "seq", "choices": trace, "kmax": kmax, "kinds_mask": kinds_mask, "trace": res.trace}), "seq");
        }
        Err(info) => match info.origin() {
            panics::Origin::Repo(_) => rep.violation(
                &format!("C06/sharedfd-take/{}", info.sig()),
                &format!("panic inside compio: {}", info.message),
                json!({"kind": "seq", "choices": trace, "kmax": kmax, "kinds_mask": kinds_mask}),
            ),
            _ => rep.inconclusive(&format!("harness panic: {} at {}:{}", info.message, info.file, info.line)),
        },
    }
    true
}

fn eval_thr(p: &ThrProgram, rep: &mut Report) -> bool {
    let mut f = Findings::default();
    match panics::catch(|| run_thr(p, &mut f)) {
        Ok(sig) => {
            rep.floor("thr-saw-pending-then-woken", sig.contains(":wp1") || sig.contains(":wp2") || sig.contains(":wp3"));
            rep.floor("thr-saw-taken", sig.ends_with(":taken"));
            rep.eval(Some(sig.clone()));
            if rep.want_sample() {
                rep.sample(json!({"program": p.to_json(), "signature": sig}));
            }
            report_findings(rep, f, json!({"program": p.to_json(), "reps": 3000}), "thr")
        }
        Err(info) => {
            match info.origin() {
                panics::Origin::Repo(_) => rep.violation(
                    &format!("C06/sharedfd-take/{}", info.sig()),
                    &format!("panic inside compio: {}", info.message),
                    json!({"program": p.to_json(), "reps": 3000}),
                ),
                _ => rep.inconclusive(&format!("harness panic: {} at {}:{}", info.message, info.file, info.line)),
            }
            true
        }
    }
}

pub fn main(args: &Args) {
    let leg = args.str("leg", "native");
    let mut rep = Report::from_args("C06", &leg, args);
    let shard = args.shard();
    let nshards = args.nshards();
    rep.note(
        "c06a: SharedFd<ProbeFd> of compio-driver built with feature `sync` (Arc + AtomicWaker); the `unsync` flavour cannot \
         be linked into the same binary (crate-wide feature) and is not covered by this leg",
    );
    if let Some(path) = args.get("replay") {
        let text = std::fs::read_to_string(path).expect("replay file");
        let v: vcommon::Value = vcommon::serde_json::from_str(&text).expect("replay json");
        let pr = &v["program"];
        if pr["kind"] == "seq" {
            let choices: Vec<usize> = pr["choices"].as_array().map(|a| a.iter().map(|x| x.as_u64().unwrap_or(0) as usize).collect()).unwrap_or_default();
            let mut ch = ReplayChooser::new(choices);
            eval_seq(&mut ch, pr["kmax"].as_u64().unwrap_or(4) as usize, pr["kinds_mask"].as_u64().unwrap_or(15) as usize, &mut rep, &|_| true);
        } else if let Some(p) = ThrProgram::from_json(&pr["program"]) {
            // schedule dependent: repeat
            let reps = args.usize("reps", pr["reps"].as_u64().unwrap_or(3000) as usize);
            let reps = if cfg!(miri) { reps.min(400) } else { reps };
            for _ in 0..reps {
                if eval_thr(&p, &mut rep) || rep.out_of_time() {
                    break;
                }
            }
        } else {
            rep.inconclusive("replay file has no c06a program (crash replays carry only stderr)");
        }
        rep.finish();
        return;
    }

    // ---- single-threaded enumeration of all orders
    let kmax = args.usize("seq-k", 4).min(4);
    let kinds_mask = args.usize("kinds", 0xf) & 0xf;
    if kmax > 0 {
        let mut od = Odo::default();
        let mut total: u64 = 0;
        let mut complete = true;
        const PREFIX: usize = 3;
        let own = |t: &[usize]| {
            let h = t.iter().take(PREFIX).fold(0xcbf29ce484222325u64, |h, x| (h ^ *x as u64).wrapping_mul(0x100000001b3));
            (h >> 7) % nshards == shard
        };
        while od.advance() {
            if !eval_seq(&mut od, kmax, kinds_mask, &mut rep, &own) {
                od.prune(PREFIX);
                continue;
            }
            total += 1;
            if rep.out_of_time() {
                complete = false;
                break;
            }
        }
        rep.set_exhaustive(complete);
        rep.count("seq_programs", total as i64);
        rep.note(format!(
            "seq: all orders of release(kind)/poll/give-up for k<={kmax} other handles, kinds mask {kinds_mask:#x}, single thread, complete={complete}"
        ));
    }

    // ---- threaded programs
    let iters = args.iters(if cfg!(miri) { 120 } else { 3000 }, if cfg!(miri) { 2500 } else { 60_000 });
    let allow_silent = args.usize("silent", 1) != 0;
    let base = Rng::new(args.seed()).fork(shard + 1);
    // Shift Miri's own schedule stream per shard (its seed is per process).
    for _ in 0..(shard * 5 + args.seed() % 7) {
        thread::yield_now();
    }
    for i in 0..iters {
        if rep.out_of_time() {
            break;
        }
        let mut rng = base.fork(i as u64);
        let p = ThrProgram::gen_random(&mut rng, allow_silent);
        eval_thr(&p, &mut rep);
    }
    rep.finish();
}
