//! C10 — all buffer views obey one contract.
//!
//! A shadow model per root buffer (allocation range, initialised length, byte
//! copy) is compared with what every view reports, for dynamically nested
//! `slice(range)` / `uninit()` / `flatten()` views over all root kinds, and
//! for vectored roots through `slice(begin)` / `slice_mut(begin)` /
//! `owned_iter()`. Fills write uniquely tagged bytes through the view and
//! record them with `advance` / `advance_to` / `set_len`; afterwards the root
//! (ground truth through the root type's own API) must show exactly those
//! bytes where they were written.

use std::mem::MaybeUninit;

use compio_buf::{
    IntoInner, IoBuf, IoBufExt, IoBufMut, IoBufMutExt, IoVectoredBuf, IoVectoredBufMut, SetLen,
    SetLenExt, Slice, Uninit, VectoredBufIter, VectoredSlice,
    arrayvec::ArrayVec,
    bytes::BytesMut,
    smallvec::SmallVec,
};
use vcommon::{Args, Report, Rng, json, panics};

use crate::choose::{Chooser, Odometer, RandomChooser, ReplayChooser};

// ---------------------------------------------------------------------------
// Ground truth of root buffers
// ---------------------------------------------------------------------------

#[derive(Clone, Copy, Debug)]
struct Truth {
    base: usize,
    cap: usize,
    len: usize,
}

trait RootOps: 'static {
    fn ib(&self) -> &dyn IoBuf;
    fn ibm(&mut self) -> &mut dyn IoBufMut;
    fn truth(&self) -> Truth;
    /// Initialised content, through the root type's own API.
    fn content(&self) -> Vec<u8>;
    fn kind(&self) -> &'static str;
}

macro_rules! root_impl {
    ($ty:ty, $kind:expr, |$s:ident| $base:expr, $cap:expr, $len:expr, $content:expr) => {
        impl RootOps for $ty {
            fn ib(&self) -> &dyn IoBuf {
                self
            }

            fn ibm(&mut self) -> &mut dyn IoBufMut {
                self
            }

            fn truth(&self) -> Truth {
                let $s = self;
                Truth {
                    base: $base as usize,
                    cap: $cap,
                    len: $len,
                }
            }

            fn content(&self) -> Vec<u8> {
                let $s = self;
                $content
            }

            fn kind(&self) -> &'static str {
                $kind
            }
        }
    };
}

root_impl!(Vec<u8>, "Vec", |s| s.as_ptr(), s.capacity(), s.len(), s.to_vec());
root_impl!(Box<[u8]>, "BoxSlice", |s| s.as_ptr(), s.len(), s.len(), s.to_vec());
root_impl!([u8; 1], "Array1", |s| s.as_ptr(), 1, 1, s.to_vec());
root_impl!([u8; 3], "Array3", |s| s.as_ptr(), 3, 3, s.to_vec());
root_impl!([u8; 6], "Array6", |s| s.as_ptr(), 6, 6, s.to_vec());
root_impl!(ArrayVec<u8, 6>, "ArrayVec6", |s| s.as_ptr(), 6, s.len(), s.to_vec());
root_impl!(SmallVec<[u8; 4]>, "SmallVec4", |s| s.as_ptr(), s.capacity(), s.len(), s.to_vec());
root_impl!(BytesMut, "BytesMut", |s| s.as_ptr(), s.capacity(), s.len(), s.to_vec());
root_impl!(&'static mut [u8], "StaticMutSlice", |s| s.as_ptr(), s.len(), s.len(), s.to_vec());

const SCALAR_KINDS: usize = 9;

fn pre(i: usize) -> u8 {
    0xA0u8.wrapping_add(i as u8)
}

/// Build a root of the given kind. `len`/`cap` are clamped to what the kind
/// supports. The first `len` bytes are `pre(i)`.
fn make_root(kind: usize, len: usize, cap: usize) -> Box<dyn RootOps> {
    let len = len.min(cap);
    let content: Vec<u8> = (0..len).map(pre).collect();
    match kind {
        0 => {
            let mut v = Vec::with_capacity(cap);
            v.extend_from_slice(&content);
            Box::new(v)
        }
        1 => Box::new((0..cap).map(pre).collect::<Vec<u8>>().into_boxed_slice()),
        2 => Box::new([pre(0); 1]),
        3 => Box::new([pre(0), pre(1), pre(2)]),
        4 => Box::new([pre(0), pre(1), pre(2), pre(3), pre(4), pre(5)]),
        5 => {
            let mut v = ArrayVec::<u8, 6>::new();
            for b in content.iter().take(6) {
                v.push(*b);
            }
            Box::new(v)
        }
        6 => {
            let mut v = SmallVec::<[u8; 4]>::with_capacity(cap);
            v.extend_from_slice(&content);
            Box::new(v)
        }
        7 => {
            let mut v = BytesMut::with_capacity(cap);
            v.extend_from_slice(&content);
            Box::new(v)
        }
        _ => {
            let b: Box<[u8]> = (0..cap).map(pre).collect::<Vec<u8>>().into_boxed_slice();
            let s: &'static mut [u8] = Box::leak(b);
            Box::new(s)
        }
    }
}

// ---------------------------------------------------------------------------
// Dynamically nested scalar views over real compio types
// ---------------------------------------------------------------------------

enum Parent {
    Buf(DynBuf),
    Root(Box<dyn RootOps>),
    Vec(VecView),
}

trait Node: 'static {
    fn ib(&self) -> &dyn IoBuf;
    fn ibm(&mut self) -> &mut dyn IoBufMut;
    /// One real `into_inner()`.
    fn into_parent(self: Box<Self>) -> Parent;
    fn name(&self) -> &'static str;
    /// Ground truth of the scalar root below (None when the root is vectored).
    fn root(&self) -> Option<&dyn RootOps>;
    fn vec_root(&self) -> Option<&VecView>;
    fn into_slice(self: Box<Self>) -> Option<Slice<DynBuf>> {
        None
    }
    fn is_root(&self) -> bool {
        false
    }
    fn into_iter(self: Box<Self>) -> Option<VectoredBufIter<VecView>> {
        None
    }
}

pub struct DynBuf(Box<dyn Node>);

impl IoBuf for DynBuf {
    fn as_init(&self) -> &[u8] {
        self.0.ib().as_init()
    }
}

impl SetLen for DynBuf {
    unsafe fn set_len(&mut self, len: usize) {
        if let Some(r) = self.0.root()
            && self.0.is_root()
            && len > r.truth().cap
        {
            panic!("{GUARD}: set_len({len}) on a root with capacity {}", r.truth().cap);
        }
        unsafe { self.0.ibm().set_len(len) }
    }
}

impl IoBufMut for DynBuf {
    fn as_uninit(&mut self) -> &mut [MaybeUninit<u8>] {
        self.0.ibm().as_uninit()
    }

    fn reserve(&mut self, len: usize) -> Result<(), compio_buf::ReserveError> {
        self.0.ibm().reserve(len)
    }

    fn reserve_exact(&mut self, len: usize) -> Result<(), compio_buf::ReserveExactError> {
        self.0.ibm().reserve_exact(len)
    }
}

struct RootNode(Box<dyn RootOps>);

impl Node for RootNode {
    fn ib(&self) -> &dyn IoBuf {
        self.0.ib()
    }

    fn ibm(&mut self) -> &mut dyn IoBufMut {
        self.0.ibm()
    }

    fn into_parent(self: Box<Self>) -> Parent {
        Parent::Root(self.0)
    }

    fn name(&self) -> &'static str {
        self.0.kind()
    }

    fn is_root(&self) -> bool {
        true
    }

    fn root(&self) -> Option<&dyn RootOps> {
        Some(&*self.0)
    }

    fn vec_root(&self) -> Option<&VecView> {
        None
    }
}

struct SliceNode(Slice<DynBuf>, &'static str);

impl Node for SliceNode {
    fn ib(&self) -> &dyn IoBuf {
        &self.0
    }

    fn ibm(&mut self) -> &mut dyn IoBufMut {
        &mut self.0
    }

    fn into_parent(self: Box<Self>) -> Parent {
        Parent::Buf(self.0.into_inner())
    }

    fn name(&self) -> &'static str {
        self.1
    }

    fn into_slice(self: Box<Self>) -> Option<Slice<DynBuf>> {
        Some(self.0)
    }

    fn root(&self) -> Option<&dyn RootOps> {
        self.0.as_inner().0.root()
    }

    fn vec_root(&self) -> Option<&VecView> {
        self.0.as_inner().0.vec_root()
    }
}

struct UninitNode(Uninit<DynBuf>);

impl Node for UninitNode {
    fn ib(&self) -> &dyn IoBuf {
        &self.0
    }

    fn ibm(&mut self) -> &mut dyn IoBufMut {
        &mut self.0
    }

    fn into_parent(self: Box<Self>) -> Parent {
        Parent::Buf(self.0.into_inner())
    }

    fn name(&self) -> &'static str {
        "Uninit"
    }

    fn root(&self) -> Option<&dyn RootOps> {
        self.0.as_inner().0.root()
    }

    fn vec_root(&self) -> Option<&VecView> {
        self.0.as_inner().0.vec_root()
    }
}

struct IterNode(VectoredBufIter<VecView>);

impl Node for IterNode {
    fn ib(&self) -> &dyn IoBuf {
        &self.0
    }

    fn ibm(&mut self) -> &mut dyn IoBufMut {
        &mut self.0
    }

    fn into_parent(self: Box<Self>) -> Parent {
        Parent::Vec(self.0.into_inner())
    }

    fn name(&self) -> &'static str {
        "VecIter"
    }

    fn into_iter(self: Box<Self>) -> Option<VectoredBufIter<VecView>> {
        Some(self.0)
    }

    fn root(&self) -> Option<&dyn RootOps> {
        None
    }

    fn vec_root(&self) -> Option<&VecView> {
        // `VectoredBufIter` has no `as_inner`; the vectored model is checked
        // after `into_inner()` instead.
        None
    }
}

// ---------------------------------------------------------------------------
// Vectored roots and views
// ---------------------------------------------------------------------------

/// A `Vec<u8>` whose `set_len` refuses lengths beyond the capacity (which
/// would be undefined behaviour in `Vec::set_len` and aborts the process in
/// debug builds) by raising a recognisable panic instead.
pub struct GVec(Vec<u8>);

const GUARD: &str = "C10-GUARD";

impl IoBuf for GVec {
    fn as_init(&self) -> &[u8] {
        self.0.as_init()
    }
}

impl SetLen for GVec {
    unsafe fn set_len(&mut self, len: usize) {
        if len > self.0.capacity() {
            panic!("{GUARD}: set_len({len}) on a root with capacity {}", self.0.capacity());
        }
        unsafe { SetLen::set_len(&mut self.0, len) }
    }
}

impl IoBufMut for GVec {
    fn as_uninit(&mut self) -> &mut [MaybeUninit<u8>] {
        self.0.as_uninit()
    }

    fn reserve(&mut self, len: usize) -> Result<(), compio_buf::ReserveError> {
        IoBufMut::reserve(&mut self.0, len)
    }

    fn reserve_exact(&mut self, len: usize) -> Result<(), compio_buf::ReserveExactError> {
        IoBufMut::reserve_exact(&mut self.0, len)
    }
}

pub enum VRoot {
    VecOfVec(Vec<GVec>),
    Array2([GVec; 2]),
    Array3([GVec; 3]),
    Tuple2((GVec, (GVec, ()))),
    Tuple1((GVec,)),
    ArrayVec3(ArrayVec<GVec, 3>),
    SmallVec2(SmallVec<[GVec; 2]>),
    BoxArr(Vec<Box<[u8]>>),
}

const VECTOR_KINDS: usize = 8;

impl VRoot {
    fn kind(&self) -> &'static str {
        match self {
            VRoot::VecOfVec(_) => "Vec<Vec>",
            VRoot::Array2(_) => "[Vec;2]",
            VRoot::Array3(_) => "[Vec;3]",
            VRoot::Tuple2(_) => "(Vec,(Vec,()))",
            VRoot::Tuple1(_) => "(Vec,)",
            VRoot::ArrayVec3(_) => "ArrayVec<Vec,3>",
            VRoot::SmallVec2(_) => "SmallVec<[Vec;2]>",
            VRoot::BoxArr(_) => "Vec<Box<[u8]>>",
        }
    }

    /// Ground truth per member.
    fn members(&self) -> Vec<(Truth, Vec<u8>)> {
        fn t(v: &GVec) -> (Truth, Vec<u8>) {
            let v = &v.0;
            (
                Truth {
                    base: v.as_ptr() as usize,
                    cap: v.capacity(),
                    len: v.len(),
                },
                v.clone(),
            )
        }
        match self {
            VRoot::VecOfVec(v) => v.iter().map(t).collect(),
            VRoot::Array2(v) => v.iter().map(t).collect(),
            VRoot::Array3(v) => v.iter().map(t).collect(),
            VRoot::Tuple2(v) => vec![t(&v.0), t(&v.1.0)],
            VRoot::Tuple1(v) => vec![t(&v.0)],
            VRoot::ArrayVec3(v) => v.iter().map(t).collect(),
            VRoot::SmallVec2(v) => v.iter().map(t).collect(),
            VRoot::BoxArr(v) => v
                .iter()
                .map(|b| {
                    (
                        Truth {
                            base: b.as_ptr() as usize,
                            cap: b.len(),
                            len: b.len(),
                        },
                        b.to_vec(),
                    )
                })
                .collect(),
        }
    }
}

macro_rules! vroot_dispatch {
    ($self:expr, $v:ident => $e:expr) => {
        match $self {
            VRoot::VecOfVec($v) => $e,
            VRoot::Array2($v) => $e,
            VRoot::Array3($v) => $e,
            VRoot::Tuple2($v) => $e,
            VRoot::Tuple1($v) => $e,
            VRoot::ArrayVec3($v) => $e,
            VRoot::SmallVec2($v) => $e,
            VRoot::BoxArr($v) => $e,
        }
    };
}

pub enum VecView {
    Root(VRoot),
    Slice(Box<VectoredSlice<VecView>>, bool),
}

impl VecView {
    fn root(&self) -> &VRoot {
        match self {
            VecView::Root(r) => r,
            VecView::Slice(s, _) => s.as_inner().root(),
        }
    }

    fn name(&self) -> &'static str {
        match self {
            VecView::Root(r) => r.kind(),
            VecView::Slice(_, false) => "VSlice",
            VecView::Slice(_, true) => "VSliceMut",
        }
    }

    fn unwrap_all(self) -> VRoot {
        match self {
            VecView::Root(r) => r,
            VecView::Slice(s, _) => s.into_inner().unwrap_all(),
        }
    }
}

impl IoVectoredBuf for VecView {
    fn iter_slice(&self) -> impl Iterator<Item = &[u8]> {
        let b: Box<dyn Iterator<Item = &[u8]> + '_> = match self {
            VecView::Root(r) => vroot_dispatch!(r, v => Box::new(v.iter_slice())),
            VecView::Slice(s, _) => Box::new(s.iter_slice()),
        };
        b
    }
}

impl SetLen for VecView {
    unsafe fn set_len(&mut self, len: usize) {
        unsafe {
            match self {
                VecView::Root(r) => vroot_dispatch!(r, v => SetLen::set_len(v, len)),
                VecView::Slice(s, _) => s.set_len(len),
            }
        }
    }
}

impl IoVectoredBufMut for VecView {
    fn iter_uninit_slice(&mut self) -> impl Iterator<Item = &mut [MaybeUninit<u8>]> {
        let b: Box<dyn Iterator<Item = &mut [MaybeUninit<u8>]> + '_> = match self {
            VecView::Root(r) => vroot_dispatch!(r, v => Box::new(v.iter_uninit_slice())),
            VecView::Slice(s, _) => Box::new(s.iter_uninit_slice()),
        };
        b
    }
}

fn make_vroot(kind: usize, shapes: &[(usize, usize)]) -> VRoot {
    let mk = |i: usize| -> GVec {
        let (len, cap) = shapes.get(i).copied().unwrap_or((0, 0));
        let mut v = Vec::with_capacity(cap);
        v.extend((0..len.min(cap)).map(|j| pre(16 * i + j)));
        GVec(v)
    };
    match kind {
        0 => VRoot::VecOfVec((0..shapes.len()).map(mk).collect()),
        1 => VRoot::Array2([mk(0), mk(1)]),
        2 => VRoot::Array3([mk(0), mk(1), mk(2)]),
        3 => VRoot::Tuple2((mk(0), (mk(1), ()))),
        4 => VRoot::Tuple1((mk(0),)),
        5 => VRoot::ArrayVec3((0..shapes.len().min(3)).map(mk).collect()),
        6 => VRoot::SmallVec2((0..shapes.len()).map(mk).collect()),
        _ => VRoot::BoxArr(
            (0..shapes.len())
                .map(|i| mk(i).0.into_boxed_slice())
                .collect(),
        ),
    }
}

fn vroot_members(kind: usize, want: usize) -> usize {
    match kind {
        1 | 3 => 2,
        2 => 3,
        4 => 1,
        5 => want.clamp(0, 3),
        _ => want,
    }
}

// ---------------------------------------------------------------------------
// Shadow model
// ---------------------------------------------------------------------------

#[derive(Clone, Debug)]
struct Region {
    base: usize,
    bytes: Vec<Option<u8>>,
    len: usize,
}

impl Region {
    fn from_truth(t: Truth, content: &[u8]) -> Self {
        let mut bytes = vec![None; t.cap];
        for (i, b) in content.iter().enumerate() {
            bytes[i] = Some(*b);
        }
        Self {
            base: t.base,
            bytes,
            len: t.len,
        }
    }

    fn contains(&self, addr: usize, len: usize) -> bool {
        addr >= self.base && addr + len <= self.base + self.bytes.len()
    }
}

#[derive(Clone, Debug)]
struct Model {
    regions: Vec<Region>,
    tag: u8,
}

struct Fail {
    sig: String,
    what: String,
}

fn fail(rule: &str, top: &str, what: String) -> Fail {
    Fail {
        sig: format!("C10/{rule}/{top}"),
        what,
    }
}

impl Model {
    fn next_tag(&mut self) -> u8 {
        self.tag = if self.tag >= 0x9F { 1 } else { self.tag + 1 };
        self.tag
    }

    fn region_of(&self, addr: usize, len: usize) -> Option<usize> {
        // Zero-length slices may sit at the one-past-the-end address.
        self.regions.iter().position(|r| r.contains(addr, len))
    }

    /// Check one (init, uninit) pair reported by a view.
    fn check_pair(
        &self,
        top: &str,
        init: (usize, &[u8]),
        uninit: (usize, usize),
        prefix_required: bool,
    ) -> Result<(), Fail> {
        let (iaddr, ibytes) = init;
        let (uaddr, ulen) = uninit;
        let Some(ur) = self.region_of(uaddr, ulen) else {
            return Err(fail(
                "uninit-outside-allocation",
                top,
                format!("as_uninit() = [{uaddr:#x}; {ulen}] is not inside any root allocation {:?}",
                    self.regions.iter().map(|r| (r.base, r.bytes.len())).collect::<Vec<_>>()),
            ));
        };
        let Some(ir) = self.region_of(iaddr, ibytes.len()) else {
            return Err(fail(
                "init-outside-allocation",
                top,
                format!("as_init() = [{iaddr:#x}; {}] is not inside any root allocation", ibytes.len()),
            ));
        };
        let r = &self.regions[ir];
        let off = iaddr - r.base;
        if off + ibytes.len() > r.len && !ibytes.is_empty() {
            return Err(fail(
                "init-beyond-initialised",
                top,
                format!(
                    "as_init() covers offsets {off}..{} but only {} bytes of the root are initialised",
                    off + ibytes.len(),
                    r.len
                ),
            ));
        }
        for (i, b) in ibytes.iter().enumerate() {
            match r.bytes[off + i] {
                Some(m) if m == *b => {}
                Some(m) => {
                    return Err(fail(
                        "content",
                        top,
                        format!("as_init()[{i}] = {b:#x} but the model has {m:#x} at root offset {}", off + i),
                    ));
                }
                None => {
                    return Err(fail(
                        "exposes-unwritten",
                        top,
                        format!("as_init()[{i}] is root offset {} which was never written", off + i),
                    ));
                }
            }
        }
        if ibytes.len() > ulen {
            return Err(fail(
                "len-exceeds-capacity",
                top,
                format!("buf_len {} > buf_capacity {ulen}", ibytes.len()),
            ));
        }
        if prefix_required && (iaddr != uaddr || ir != ur) {
            return Err(fail(
                "init-not-prefix-of-uninit",
                top,
                format!(
                    "as_init() starts at root offset {} but as_uninit() starts at root offset {}",
                    iaddr - r.base,
                    uaddr.wrapping_sub(self.regions[ur].base)
                ),
            ));
        }
        Ok(())
    }

    /// After a fill: the roots (ground truth) must show the model.
    fn check_roots(
        &self,
        top: &str,
        truths: &[(Truth, Vec<u8>)],
        expect_len_at_least: &[usize],
        allow_shrink: bool,
    ) -> Result<(), Fail> {
        for (i, (t, content)) in truths.iter().enumerate() {
            let r = &self.regions[i];
            if t.base != r.base || t.cap != r.bytes.len() {
                return Err(fail(
                    "root-moved",
                    top,
                    format!("root {i} allocation changed from ({:#x},{}) to ({:#x},{})", r.base, r.bytes.len(), t.base, t.cap),
                ));
            }
            if t.len < expect_len_at_least[i] {
                return Err(fail(
                    "recorded-bytes-not-visible",
                    top,
                    format!(
                        "root {i} has length {} but bytes were written and recorded up to offset {}",
                        t.len, expect_len_at_least[i]
                    ),
                ));
            }
            // Shrinking hides bytes but does not modify them; the statement only
            // requires content outside the written range to be untouched, so
            // this rule is informational (never enabled).
            if t.len < r.len && !allow_shrink && false {
                return Err(fail(
                    "root-shrunk",
                    top,
                    format!("root {i} length went from {} to {} by recording a fill", r.len, t.len),
                ));
            }
            for (j, b) in content.iter().enumerate() {
                match r.bytes[j] {
                    Some(m) if m == *b => {}
                    Some(m) => {
                        return Err(fail(
                            "root-content",
                            top,
                            format!("root {i} byte {j} is {b:#x}, model has {m:#x}"),
                        ));
                    }
                    None => {
                        return Err(fail(
                            "root-exposes-unwritten",
                            top,
                            format!("root {i} now reports length {} but offset {j} was never written", t.len),
                        ));
                    }
                }
            }
        }
        Ok(())
    }

    fn sync_len(&mut self, truths: &[(Truth, Vec<u8>)]) {
        for (i, (t, _)) in truths.iter().enumerate() {
            self.regions[i].len = t.len;
        }
    }
}

// ---------------------------------------------------------------------------
// Scalar programs
// ---------------------------------------------------------------------------

struct Limits {
    max_cap: usize,
    max_steps: usize,
    /// Bit mask of allowed scalar root kinds.
    kinds: usize,
}

fn view_pair(v: &mut DynBuf) -> ((usize, Vec<u8>), (usize, usize)) {
    let init = (*v).as_init();
    let i = (init.as_ptr() as usize, init.to_vec());
    let un = (*v).as_uninit();
    let u = (un.as_ptr() as usize, un.len());
    (i, u)
}

fn scalar_truths(v: &DynBuf) -> Option<Vec<(Truth, Vec<u8>)>> {
    v.0.root().map(|r| vec![(r.truth(), r.content())])
}

/// Write `tags.len()` bytes at `as_uninit()[at..]`, updating the model.
fn write_through(v: &mut DynBuf, at: usize, n: usize, m: &mut Model, top: &str) -> Result<Vec<usize>, Fail> {
    let mut ends = vec![0usize; m.regions.len()];
    let tags: Vec<u8> = (0..n).map(|_| m.next_tag()).collect();
    let un = v.as_uninit();
    let addr = un.as_ptr() as usize + at;
    for (i, t) in tags.iter().enumerate() {
        un[at + i] = MaybeUninit::new(*t);
    }
    if n > 0 {
        let Some(ri) = m.region_of(addr, n) else {
            return Err(fail("write-outside-allocation", top, format!("wrote {n} bytes at {addr:#x}")));
        };
        let off = addr - m.regions[ri].base;
        for (i, t) in tags.iter().enumerate() {
            m.regions[ri].bytes[off + i] = Some(*t);
        }
        ends[ri] = off + n;
    }
    Ok(ends)
}

fn describe_step(s: &str, trace: &mut Vec<String>) {
    trace.push(s.to_string());
}

/// One scalar program driven by a chooser. Returns (signature, trivial?).
fn run_scalar(
    ch: &mut dyn Chooser,
    lim: &Limits,
    first_view: Option<DynBuf>,
    model_in: Option<Model>,
    trace: &mut Vec<String>,
    own: &dyn Fn(&[usize]) -> bool,
) -> Result<(String, bool), Fail> {
    VECTORED.with(|p| p.set(false));
    PARTIAL.with(|p| p.set(false));
    let (mut v, mut m) = match (first_view, model_in) {
        (Some(v), Some(m)) => (v, m),
        _ => {
            let allowed: Vec<usize> = (0..SCALAR_KINDS).filter(|k| lim.kinds >> k & 1 == 1).collect();
            let kind = allowed[ch.choose(allowed.len())];
            let cap = match kind {
                2 => 1,
                3 => 3,
                4 | 5 => 6,
                _ => ch.choose(lim.max_cap + 1),
            };
            let len = match kind {
                1 | 2 | 3 | 4 | 8 => cap,
                _ => ch.choose(cap + 1),
            };
            if !own(&ch.trace()) {
                return Err(Fail { sig: String::from("skip"), what: String::new() });
            }
            let root = make_root(kind, len, cap);
            let t = root.truth();
            describe_step(&format!("root {} len={} cap={}", root.kind(), t.len, t.cap), trace);
            let m = Model {
                regions: vec![Region::from_truth(t, &root.content())],
                tag: 0,
            };
            (DynBuf(Box::new(RootNode(root))), m)
        }
    };
    let mut sig = String::new();
    let mut depth = 0usize;
    let mut fills = 0usize;
    sig.push_str(v.0.name());

    for _ in 0..lim.max_steps {
        let top = v.0.name();
        // invariants of the current view
        let ((iaddr, ibytes), (uaddr, ulen)) = view_pair(&mut v);
        m.check_pair(top, (iaddr, &ibytes), (uaddr, ulen), true)?;
        let l = ibytes.len();
        let c = ulen;
        let can_flatten = top == "Slice" || top == "Flatten";
        let what = ch.choose(if can_flatten { 6 } else { 5 });
        match what {
            0 => break,
            1 | 5 => {
                // slice(b..e) / slice(b..) ; 5 = then flatten
                let b = ch.choose(l + 1);
                let e_choice = ch.choose(c.saturating_sub(b) + 3);
                let e = if e_choice == 0 { None } else { Some(b + e_choice - 1) };
                let flat = what == 5;
                describe_step(&format!("{}slice({b}..{})", if flat { "flatten " } else { "" },
                    e.map_or(String::new(), |e| e.to_string())), trace);
                if flat {
                    // top is a Slice<DynBuf>: slice it again and flatten (real code path)
                    let inner: Slice<DynBuf> = v.0.into_slice().expect("top is a slice");
                    let nested = match e {
                        Some(e) => inner.slice(b..e),
                        None => inner.slice(b..),
                    };
                    v = DynBuf(Box::new(SliceNode(nested.flatten(), "Flatten")));
                    sig.push_str(">Flatten");
                } else {
                    let s = match e {
                        Some(e) => v.slice(b..e),
                        None => v.slice(b..),
                    };
                    v = DynBuf(Box::new(SliceNode(s, "Slice")));
                    sig.push_str(">Slice");
                    depth += 1;
                }
            }
            2 => {
                describe_step("uninit()", trace);
                v = DynBuf(Box::new(UninitNode(v.uninit())));
                sig.push_str(">Uninit");
                depth += 1;
            }
            3 => {
                // append-style fill: write at as_uninit()[len..len+k]
                if l > c {
                    break;
                }
                let k = ch.choose(c - l + 1);
                let how = ch.choose(if k > 0 { 3 } else { 2 });
                describe_step(&format!("fill append k={k} via {}", ["advance", "advance_to", "set_len"][how]), trace);
                let ends = write_through(&mut v, l, k, &mut m, top)?;
                unsafe {
                    match how {
                        0 => v.advance(k),
                        1 => v.advance_to(l + k),
                        _ => v.set_len(l + k),
                    }
                }
                after_fill(&mut v, &mut m, top, &ends)?;
                sig.push_str([">Fa", ">Fat", ">Fs"][how]);
                fills += 1;
            }
            _ => {
                // I/O-style fill: the OS writes n bytes at as_uninit()[0..n]
                let n = ch.choose(c + 1);
                describe_step(&format!("fill io n={n} via advance_to"), trace);
                let ends = write_through(&mut v, 0, n, &mut m, top)?;
                unsafe { v.advance_to(n) };
                after_fill(&mut v, &mut m, top, &ends)?;
                sig.push_str(">Fio");
                fills += 1;
            }
        }
    }
    // final invariants, then unwrap every level with the real into_inner()
    let top = v.0.name();
    let ((iaddr, ibytes), (uaddr, ulen)) = view_pair(&mut v);
    m.check_pair(top, (iaddr, &ibytes), (uaddr, ulen), true)?;
    let mut cur = v;
    loop {
        match cur.0.into_parent() {
            Parent::Buf(p) => cur = p,
            Parent::Root(r) => {
                let zeros = vec![0usize; m.regions.len()];
                m.check_roots("into_inner", &[(r.truth(), r.content())], &zeros, false)?;
                if r.kind() == "StaticMutSlice" {
                    // give the leaked allocation back
                    drop(r);
                }
                break;
            }
            Parent::Vec(vv) => {
                let root = vv.unwrap_all();
                let zeros = vec![0usize; m.regions.len()];
                m.check_roots("into_inner", &root.members(), &zeros, false)?;
                break;
            }
        }
    }
    Ok((sig, depth < 2 && fills == 0))
}

fn after_fill(v: &mut DynBuf, m: &mut Model, top: &str, ends: &[usize]) -> Result<(), Fail> {
    if let Some(truths) = scalar_truths(v) {
        m.check_roots(top, &truths, ends, false)?;
        m.sync_len(&truths);
    }
    Ok(())
}

// ---------------------------------------------------------------------------
// Vectored programs
// ---------------------------------------------------------------------------

thread_local! {
    /// Set when the running vectored program reached the situation in which
    /// compio's vectored length accounting is known to be off: a vectored
    /// view or iterator skipped a member that is not initialised up to its
    /// capacity. Part of the violation signature, so that a failure in the
    /// aligned (intended-use) situation is a different, unknown signature.
    static PARTIAL: std::cell::Cell<bool> = const { std::cell::Cell::new(false) };
    static VECTORED: std::cell::Cell<bool> = const { std::cell::Cell::new(false) };
}

/// Did the view skip capacity that is not initialised?
fn skipped_partial(v: &mut VecView) -> bool {
    let truths = v.root().members();
    let first = v.iter_uninit_slice().next().map(|s| s.as_ptr() as usize);
    match first {
        None => truths.iter().any(|(t, _)| t.len != t.cap),
        Some(addr) => {
            let Some(ri) = truths
                .iter()
                .position(|(t, _)| addr >= t.base && addr <= t.base + t.cap && t.cap > 0)
            else {
                return true;
            };
            let off = addr - truths[ri].0.base;
            truths[..ri].iter().any(|(t, _)| t.len != t.cap) || truths[ri].0.len < off
        }
    }
}

fn skipped_partial_safe(v: &mut VecView) -> bool {
    // `iter_uninit_slice` itself may panic on a misaligned view; that is then
    // the partial situation by definition.
    panics::catch(|| skipped_partial(v)).unwrap_or(true)
}

fn vec_pairs(v: &mut VecView) -> (Vec<(usize, Vec<u8>)>, Vec<(usize, usize)>) {
    let inits: Vec<(usize, Vec<u8>)> = v
        .iter_slice()
        .map(|s| (s.as_ptr() as usize, s.to_vec()))
        .collect();
    let uninits: Vec<(usize, usize)> = v
        .iter_uninit_slice()
        .map(|s| (s.as_ptr() as usize, s.len()))
        .collect();
    (inits, uninits)
}

fn check_vec_view(v: &mut VecView, m: &Model) -> Result<(usize, usize), Fail> {
    let top = v.name();
    let (inits, uninits) = vec_pairs(v);
    if inits.len() != uninits.len() {
        return Err(fail(
            "vectored-count-mismatch",
            top,
            format!("iter_slice yields {} members, iter_uninit_slice {}", inits.len(), uninits.len()),
        ));
    }
    for (i, u) in inits.iter().zip(uninits.iter()) {
        m.check_pair(top, (i.0, &i.1), *u, true)?;
    }
    let tl: usize = inits.iter().map(|i| i.1.len()).sum();
    let tc: usize = uninits.iter().map(|u| u.1).sum();
    if v.total_len() != tl || v.total_capacity() != tc {
        return Err(fail("totals", top, format!("total_len/total_capacity disagree with the iterators")));
    }
    Ok((tl, tc))
}

fn run_vectored(
    ch: &mut dyn Chooser,
    lim: &Limits,
    trace: &mut Vec<String>,
    own: &dyn Fn(&[usize]) -> bool,
) -> Result<(String, bool), Fail> {
    PARTIAL.with(|p| p.set(false));
    VECTORED.with(|p| p.set(true));
    let kind = ch.choose(VECTOR_KINDS);
    let n = vroot_members(kind, ch.choose(4));
    if !own(&ch.trace()) {
        return Err(Fail { sig: String::from("skip"), what: String::new() });
    }
    let mut shapes = Vec::new();
    for _ in 0..n {
        let cap = ch.choose(lim.max_cap.min(4) + 1);
        let len = if kind == 7 { cap } else { ch.choose(cap + 1) };
        shapes.push((len, cap));
    }
    let root = make_vroot(kind, &shapes);
    describe_step(&format!("vroot {} members(len,cap)={:?}", root.kind(), shapes), trace);
    let members = root.members();
    let mut m = Model {
        regions: members.iter().map(|(t, c)| Region::from_truth(*t, c)).collect(),
        tag: 0,
    };
    let mut sig = String::from(root.kind());
    let mut v = VecView::Root(root);
    let mut nontrivial = false;

    for _ in 0..lim.max_steps {
        let (tl, tc) = check_vec_view(&mut v, &m)?;
        let top = v.name();
        match ch.choose(5) {
            0 => break,
            1 => {
                let b = ch.choose(tl + 1);
                describe_step(&format!("slice({b})"), trace);
                v = VecView::Slice(Box::new(v.slice(b)), false);
                if skipped_partial_safe(&mut v) {
                    PARTIAL.with(|p| p.set(true));
                }
                sig.push_str(">VSlice");
                nontrivial = true;
            }
            2 => {
                let b = ch.choose(tc + 1);
                describe_step(&format!("slice_mut({b})"), trace);
                v = VecView::Slice(Box::new(v.slice_mut(b)), true);
                if skipped_partial_safe(&mut v) {
                    PARTIAL.with(|p| p.set(true));
                }
                sig.push_str(">VSliceMut");
                nontrivial = true;
            }
            3 => {
                // vectored I/O fill: the OS fills iter_uninit_slice() in order
                let n = ch.choose(tc + 1);
                let how = ch.choose(2);
                describe_step(&format!("vfill n={n} via {}", ["set_len", "advance_vec_to"][how]), trace);
                if matches!(v, VecView::Slice(..)) && skipped_partial_safe(&mut v) {
                    PARTIAL.with(|p| p.set(true));
                }
                let mut ends = vec![0usize; m.regions.len()];
                let mut left = n;
                let mut writes = Vec::new();
                for s in v.iter_uninit_slice() {
                    if left == 0 {
                        break;
                    }
                    let k = s.len().min(left);
                    let addr = s.as_ptr() as usize;
                    let tags: Vec<u8> = (0..k).map(|_| m.next_tag()).collect();
                    for (i, t) in tags.iter().enumerate() {
                        s[i] = MaybeUninit::new(*t);
                    }
                    writes.push((addr, tags));
                    left -= k;
                }
                for (addr, tags) in writes {
                    if tags.is_empty() {
                        continue;
                    }
                    let Some(ri) = m.region_of(addr, tags.len()) else {
                        return Err(fail("write-outside-allocation", top, format!("wrote at {addr:#x}")));
                    };
                    let off = addr - m.regions[ri].base;
                    for (i, t) in tags.iter().enumerate() {
                        m.regions[ri].bytes[off + i] = Some(*t);
                    }
                    ends[ri] = ends[ri].max(off + tags.len());
                }
                unsafe {
                    if how == 0 {
                        if n > 0 {
                            v.set_len(n)
                        }
                    } else {
                        v.advance_vec_to(n)
                    }
                }
                // `advance_vec_to(n)` is a no-op when n <= total_len: then the
                // bytes overwrote initialised content only if they were in the
                // initialised prefix; anything beyond is legitimately unrecorded.
                let truths = v.root().members();
                if how == 1 && n <= tl {
                    for (i, (t, _)) in truths.iter().enumerate() {
                        ends[i] = ends[i].min(t.len);
                        // forget unrecorded bytes beyond the initialised part
                        for j in t.len..m.regions[i].bytes.len() {
                            if j >= m.regions[i].len {
                                m.regions[i].bytes[j] = None;
                            }
                        }
                    }
                }
                m.check_roots(top, &truths, &ends, how == 0)?;
                m.sync_len(&truths);
                sig.push_str([">VFs", ">VFa"][how]);
                nontrivial = true;
            }
            _ => {
                // owned_iter(): walk members as scalar views
                describe_step("owned_iter()", trace);
                sig.push_str(">Iter");
                if matches!(v, VecView::Slice(..)) && skipped_partial_safe(&mut v) {
                    PARTIAL.with(|p| p.set(true));
                }
                let mut it = match v.owned_iter() {
                    Ok(it) => it,
                    Err(back) => {
                        let root = back.unwrap_all();
                        let zeros = vec![0usize; m.regions.len()];
                        m.check_roots("owned_iter", &root.members(), &zeros, false)?;
                        return Ok((sig, !nontrivial));
                    }
                };
                let mut iter_ends = vec![0usize; m.regions.len()];
                loop {
                    let mut d = DynBuf(Box::new(IterNode(it)));
                    let ((iaddr, ibytes), (uaddr, ulen)) = view_pair(&mut d);
                    m.check_pair("VecIter", (iaddr, &ibytes), (uaddr, ulen), true)?;
                    let act = ch.choose(3);
                    // bytes recorded *through the iterator* for this member
                    let mut filled_to = 0usize;
                    let member_cap = ulen;
                    if act == 1 {
                        // I/O fill of the current member
                        let n = ch.choose(ulen + 1);
                        describe_step(&format!("iter fill io n={n}"), trace);
                        let l_before = ibytes.len();
                        // `advance_to` reaches the iterator's `set_len` only when it grows
                        if n > l_before {
                            filled_to = n;
                        }
                        let ends = write_through(&mut d, 0, n, &mut m, "VecIter")?;
                        unsafe { d.advance_to(n) };
                        // `advance_to(n)` records only when n exceeds the current length
                        if n > l_before {
                            for (e, w) in iter_ends.iter_mut().zip(ends.iter()) {
                                *e = (*e).max(*w);
                            }
                        }
                        sig.push_str(">Fio");
                        nontrivial = true;
                        let ((iaddr, ibytes), (uaddr, ulen)) = view_pair(&mut d);
                        m.check_pair("VecIter", (iaddr, &ibytes), (uaddr, ulen), true)?;
                    }
                    it = d.0.into_iter().expect("top is the iterator");
                    if act == 0 {
                        let root = it.into_inner().unwrap_all();
                        finish_vec(&mut m, root, &iter_ends)?;
                        return Ok((sig, !nontrivial));
                    }
                    describe_step("next()", trace);
                    if filled_to != member_cap {
                        // moving on from a member that is not full: the iterator's
                        // running total no longer matches the capacity-based set_len
                        PARTIAL.with(|p| p.set(true));
                    }
                    match it.next() {
                        Ok(n) => it = n,
                        Err(back) => {
                            let root = back.unwrap_all();
                            finish_vec(&mut m, root, &iter_ends)?;
                            return Ok((sig, !nontrivial));
                        }
                    }
                }
            }
        }
    }
    check_vec_view(&mut v, &m)?;
    let root = v.unwrap_all();
    let zeros = vec![0usize; m.regions.len()];
    m.check_roots("into_inner", &root.members(), &zeros, false)?;
    Ok((sig, !nontrivial))
}

/// After the owned iterator: every byte the roots expose must be one the
/// model knows (written and recorded, or pre-existing).
fn finish_vec(m: &mut Model, root: VRoot, ends: &[usize]) -> Result<(), Fail> {
    let truths = root.members();
    m.check_roots("VecIter", &truths, ends, true)
}

// ---------------------------------------------------------------------------
// Driver
// ---------------------------------------------------------------------------

/// Sharding of the exhaustive enumeration: the first four choices (family,
/// root kind, shape) select the owner; other shards abandon the program
/// right there, and the odometer then skips the whole subtree.
fn run_one(
    ch: &mut dyn Chooser,
    lim: &Limits,
    trace: &mut Vec<String>,
    own: &dyn Fn(&[usize]) -> bool,
) -> Result<(String, bool), Fail> {
    let r = if ch.choose(3) < 2 {
        run_scalar(ch, lim, None, None, trace, own)
    } else {
        run_vectored(ch, lim, trace, own)
    };
    r
}

fn vsuffix() -> &'static str {
    if !VECTORED.with(|v| v.get()) {
        ""
    } else if PARTIAL.with(|p| p.get()) {
        "/skipped-partial"
    } else {
        "/aligned"
    }
}

fn execute(
    ch: &mut dyn Chooser,
    lim: &Limits,
    rep: &mut Report,
    mode: &str,
    own: &dyn Fn(&[usize]) -> bool,
) {
    let mut trace = Vec::new();
    let r = panics::catch(|| run_one(ch, lim, &mut trace, own));
    let choices = ch.trace();
    let replay = |trace: &Vec<String>| json!({"mode": mode, "choices": choices, "max_cap": lim.max_cap, "max_steps": lim.max_steps, "kinds": lim.kinds, "steps": trace});
    match r {
        Ok(Ok((sig, trivial))) => {
            if rep.want_sample() && !trivial && trace.len() >= 3 {
                rep.sample(replay(&trace));
            }
            rep.eval(if trivial { None } else { Some(sig) });
        }
        Ok(Err(f)) if f.sig == "skip" => {}
        Ok(Err(f)) => {
            rep.eval(None);
            rep.violation(&format!("{}{}", f.sig, vsuffix()), &f.what, replay(&trace));
        }
        Err(p) => {
            rep.eval(None);
            if p.message.starts_with(GUARD) {
                let top = trace.iter().rev().find(|s| !s.starts_with("fill") && !s.starts_with("vfill") && !s.starts_with("iter fill") && !s.starts_with("next")).cloned().unwrap_or_default();
                let kind = top.split(['(', ' ']).next().unwrap_or("").to_string();
                rep.violation(&format!("C10/set_len-beyond-capacity/{kind}"), &p.message, replay(&trace));
                return;
            }
            match p.origin() {
                panics::Origin::Repo(_) => {
                    let top = trace.last().cloned().unwrap_or_default();
                    let kind = top.split(['(', ' ']).next().unwrap_or("").to_string();
                    rep.violation(
                        &format!("C10/{}/{kind}{}", p.sig(), vsuffix()),
                        &format!("panic in compio at {}:{}: {}", p.file, p.line, p.message),
                        replay(&trace),
                    )
                }
                o => {
                    rep.inconclusive(&format!("harness panic {o:?}: {}", p.message));
                }
            }
        }
    }
}

pub fn main(args: &Args) {
    let mut rep = Report::from_args("C10", &args.str("leg", "native"), args);
    let shard = args.shard();
    let nshards = args.nshards();
    let kinds = args.usize("kinds", 0x1ff) & 0x1ff;
    if let Some(path) = args.get("replay") {
        let text = std::fs::read_to_string(path).expect("replay file");
        let v: vcommon::Value = vcommon::serde_json::from_str(&text).expect("replay json");
        let p = &v["program"];
        let choices: Vec<usize> = p["choices"].as_array().map(|a| a.iter().map(|x| x.as_u64().unwrap_or(0) as usize).collect()).unwrap_or_default();
        let lim = Limits {
            max_cap: p["max_cap"].as_u64().unwrap_or(4) as usize,
            max_steps: p["max_steps"].as_u64().unwrap_or(3) as usize,
            kinds: p["kinds"].as_u64().unwrap_or(0x1ff) as usize,
        };
        let mut ch = ReplayChooser::new(choices);
        execute(&mut ch, &lim, &mut rep, "replay", &|_| true);
        rep.finish();
        return;
    }
    // --- exhaustive part (sharded by program index)
    let ex_cap = args.usize("ex-cap", if args.thorough() { 4 } else { 3 });
    let ex_steps = args.usize("ex-steps", if args.thorough() { 3 } else { 2 });
    if ex_steps > 0 {
        let lim = Limits {
            max_cap: ex_cap,
            max_steps: ex_steps,
            kinds,
        };
        let mut od = Odometer::new();
        let mut idx: u64 = 0;
        let mut complete = true;
        while od.advance() {
            // Cheap sharding: every program is *generated* by every shard (the
            // odometer needs the arities) but only executed by its owner. The
            // first choice (scalar/vectored) and root kind are the cheap part.
            let own = |t: &[usize]| {
                let h = t.iter().fold(0xcbf29ce484222325u64, |h, x| (h ^ *x as u64).wrapping_mul(0x100000001b3));
                (h >> 7) % nshards == shard
            };
            execute(&mut od, &lim, &mut rep, "exhaustive", &own);
            idx += 1;
            if rep.out_of_time() {
                complete = false;
                break;
            }
        }
        rep.set_exhaustive(complete);
        rep.count("exhaustive_programs_total", idx as i64);
        rep.note(format!("exhaustive bound: cap<={ex_cap}, steps<={ex_steps}, complete={complete}"));
    }
    // --- random part
    let iters = args.iters(20_000, 400_000);
    let lim = Limits {
        max_cap: args.usize("rnd-cap", 12),
        max_steps: args.usize("rnd-steps", 6),
        kinds,
    };
    let base = Rng::new(args.seed()).fork(shard + 1);
    for i in 0..iters {
        if rep.out_of_time() {
            break;
        }
        let mut ch = RandomChooser::new(base.fork(i as u64));
        execute(&mut ch, &lim, &mut rep, "random", &|_| true);
    }
    rep.finish();
}
