//! C11 — I/O helpers are invariant under chunking and transient errors.
//!
//! Scripted in-memory streams (`c11_streams.rs`) drive the real compio-io
//! helpers; every call of the stream follows a script step {transfer <= k
//! bytes, Interrupted, other error kind, Ok(0)} and is logged. The oracle is a
//! function of that log: destination content = bytes the stream delivered
//! (Vec reference), pre-existing content preserved, consumed = reported,
//! documented error kinds, no panic from compio, bounded number of calls
//! (the streams are always ready, so an endless loop never returns to the
//! executor: the bound sits in the stream and raises a recognisable panic).
//!
//! Files: `c11_read.rs` (read_exact, append, read_to_end/_string,
//! read_vectored_exact, BufReader, Take, split, `_at` variants),
//! `c11_write.rs` (write_all, write_vectored_all, `_at`, BufWriter, copy),
//! `c11_mem.rs` (compio-io's own `&[u8]`/`Vec`/`[u8]`/`Cursor` readers and
//! writers against the slice/Vec model, positions beyond the end).
//!
//! Enumeration: payload length n <= bound, every composition of n into chunk
//! sizes x every single position of an injected Interrupted / other error /
//! early Ok(0) x destination capacities / start positions / member layouts
//! (an odometer over all choice sequences, sharded by index). On top: seeded
//! samples of the same space (`--sample`, what the Miri leg runs) and seeded
//! large scripts (`--iters`, n <= 4096, several faults).
//!
//! Violation signature: `C11/<rule>/<helper>/<fault>[+tag..]`. A failing case
//! is first reduced (`minimise`): without pre-existing content if that is not
//! needed, and `<fault>` is the weakest fault class under which the rule still
//! fails (`any` = also without faults, else `intr` / `err` / `eof` / `multi`).
//! The reduced case is the replay program (`Case` as JSON).

#[path = "c11_streams.rs"]
mod streams;
#[path = "c11_read.rs"]
mod rd;
#[path = "c11_write.rs"]
mod wr;
#[path = "c11_mem.rs"]
mod mem;

use std::{
    future::Future,
    io::{self, ErrorKind},
};

use serde::{Deserialize, Serialize};
use streams::*;
use vcommon::{Args, Report, Rng, json, panics, task::block_on_bounded};

use crate::choose::{Chooser, Odometer, RandomChooser};

// ---------------------------------------------------------------------------
// Case
// ---------------------------------------------------------------------------

/// One fully explicit program (also the replay format).
#[derive(Clone, Debug, Default, Serialize, Deserialize)]
#[serde(default)]
pub struct Case {
    /// Helper name (see `helpers()`).
    pub h: String,
    /// Payload length.
    pub n: usize,
    /// Script of the primary scripted stream.
    pub script: Vec<Step>,
    /// Script of the second stream (copy: writer side; split: writer side).
    pub script2: Vec<Step>,
    /// Destination / buffer capacity (helper specific).
    pub cap: usize,
    /// Pre-existing content (length or mode, helper specific).
    pub pre: usize,
    /// Start position / offset.
    pub pos: u64,
    /// Helper specific extra choice.
    pub aux: usize,
    /// Member capacities (vectored read) / lengths (vectored write).
    pub members: Vec<usize>,
    /// Scripted stream implements vectored I/O natively.
    pub native: bool,
    /// Payload flavour: 0 distinct bytes, 1 ascii, 2 multi-byte utf-8, 3 invalid utf-8.
    pub text: u8,
}

pub fn payload(n: usize, text: u8) -> Vec<u8> {
    match text {
        0 => (0..n).map(|i| 1 + ((i * 37) % 199) as u8).collect(),
        1 => (0..n).map(|i| b'a' + (i % 26) as u8).collect(),
        _ => {
            let chars = ['a', 'é', '€', '😀', 'z', 'ß'];
            let mut s = String::new();
            let mut i = 0;
            while s.len() < n {
                let ch = chars[i % chars.len()];
                i += 1;
                if s.len() + ch.len_utf8() <= n {
                    s.push(ch);
                } else {
                    s.push('x');
                }
            }
            let mut v = s.into_bytes();
            if text == 3 && n > 0 {
                v[n / 2] = 0xFF;
            }
            v
        }
    }
}

/// Marker bytes for pre-existing content (disjoint from `payload(_, 0)`).
pub fn marks(n: usize) -> Vec<u8> {
    (0..n).map(|i| 200 + (i % 56) as u8).collect()
}

pub fn uniq(mut v: Vec<usize>) -> Vec<usize> {
    v.sort_unstable();
    v.dedup();
    v
}

pub fn caps(n: usize) -> Vec<usize> {
    uniq(vec![0, 1, n.saturating_sub(1), n, n + 1, 2 * n])
}

pub fn pick(ch: &mut dyn Chooser, xs: &[usize]) -> usize {
    xs[ch.choose(xs.len())]
}

/// Member layouts with total `c` (two members).
pub fn patterns2(c: usize) -> Vec<Vec<usize>> {
    let mut v = vec![vec![0, c], vec![c, 0]];
    if c >= 2 {
        v.push(vec![1, c - 1]);
        v.push(vec![c - 1, 1]);
        v.push(vec![c / 2, c - c / 2]);
    }
    v.sort();
    v.dedup();
    v
}

/// Member layouts with total `c`.
pub fn patterns(c: usize) -> Vec<Vec<usize>> {
    let mut v = patterns2(c);
    v.push(vec![c]);
    v.push(vec![]);
    if c >= 2 {
        v.push(vec![c / 2, 0, c - c / 2]);
        v.push(vec![0, 1, 0, c - 1, 0]);
    }
    if (3..=6).contains(&c) {
        v.push(vec![1; c]);
    }
    if c == 0 {
        v.push(vec![0, 0, 0]);
    }
    v.retain(|m| m.iter().sum::<usize>() == c);
    v.sort();
    v.dedup();
    v
}

pub fn pick_members(ch: &mut dyn Chooser, c: usize, two: bool) -> Vec<usize> {
    let p = if two { patterns2(c) } else { patterns(c) };
    p[ch.choose(p.len())].clone()
}

fn cap_class(cap: usize, n: usize) -> &'static str {
    if cap == 0 {
        "0"
    } else if cap == n {
        "n"
    } else if cap == 1 {
        "1"
    } else if cap + 1 == n {
        "n-1"
    } else if cap == n + 1 {
        "n+1"
    } else if cap == 2 * n {
        "2n"
    } else if cap < n {
        "<n"
    } else {
        ">n"
    }
}

fn comp_class(script: &[Step]) -> &'static str {
    let xs: Vec<usize> = script
        .iter()
        .filter_map(|s| if let Step::X(k) = s { Some(*k) } else { None })
        .collect();
    match xs.len() {
        0 => "none",
        1 => "one",
        _ if xs.iter().all(|k| *k == 1) => "ones",
        _ if xs[0] < xs[xs.len() - 1] => "short-head",
        _ => "mixed",
    }
}

fn fault_class(scripts: &[&[Step]], with_pos: bool) -> String {
    let mut found: Vec<(Step, &'static str)> = Vec::new();
    for s in scripts {
        for (i, st) in s.iter().enumerate() {
            if !matches!(st, Step::X(_)) {
                let p = if i == 0 {
                    "first"
                } else if i + 1 == s.len() {
                    "last"
                } else {
                    "mid"
                };
                found.push((*st, p));
            }
        }
    }
    match found.len() {
        0 => "clean".into(),
        1 => {
            let k = match found[0].0 {
                Step::I => "intr",
                Step::E(_) => "err",
                _ => "eof",
            };
            if with_pos { format!("{k}@{}", found[0].1) } else { k.into() }
        }
        _ => "multi".into(),
    }
}

// ---------------------------------------------------------------------------
// Checker context and oracles
// ---------------------------------------------------------------------------

pub struct Ck {
    pub tags: Vec<&'static str>,
    /// Variants of the same API use (coverage only, not part of a violation's condition).
    pub variants: Vec<&'static str>,
    pub fails: Vec<(String, String)>,
    /// Number of stream calls seen (0 = trivial case).
    pub calls: usize,
    pub saw: [bool; 4], // intr retried, error surfaced, eof error, short transfer
}

pub fn short(b: &[u8]) -> String {
    if b.len() <= 24 {
        format!("{b:?}")
    } else {
        format!("{:?}..(len {})", &b[..24], b.len())
    }
}

pub fn terminal(log: &[Ev]) -> Option<(usize, Ev)> {
    log.iter()
        .copied()
        .enumerate()
        .find(|(_, e)| matches!(e, Ev::Err(_) | Ev::Zero))
}

impl Ck {
    pub fn tag(&mut self, t: &'static str) {
        if !self.tags.contains(&t) {
            self.tags.push(t);
        }
    }

    pub fn variant(&mut self, t: &'static str) {
        if !self.variants.contains(&t) {
            self.variants.push(t);
        }
    }

    pub fn fail(&mut self, rule: &str, detail: String) {
        if !self.fails.iter().any(|f| f.0 == rule) {
            self.fails.push((rule.to_string(), detail));
        }
    }

    pub fn note_log(&mut self, log: &[Ev], calls: usize) {
        self.calls += calls;
        for e in log {
            match e {
                Ev::Intr => self.saw[0] = true,
                Ev::Err(_) => self.saw[1] = true,
                Ev::Zero => self.saw[2] = true,
                _ => {}
            }
        }
        if log.iter().filter(|e| matches!(e, Ev::Data(_))).count() > 1 {
            self.saw[3] = true;
        }
    }

    /// Expected error of a helper that stops at the first terminal event.
    fn check_kind<T>(&mut self, term: Option<(usize, Ev)>, log: &[Ev], zero: ErrorKind, res: &io::Result<T>) -> bool {
        match term {
            Some((i, ev)) => {
                if i + 1 != log.len() {
                    self.fail("call-after-failure", format!("stream called again after {ev:?}: log {log:?}"));
                }
                let want = match ev {
                    Ev::Err(k) => KINDS[k as usize],
                    _ => zero,
                };
                match res {
                    Ok(_) => self.fail("error-swallowed", format!("stream returned {ev:?} but the helper returned Ok; log {log:?}")),
                    Err(e) if e.kind() != want => self.fail(
                        "wrong-error-kind",
                        format!("stream returned {ev:?}: expected {want:?}, helper returned {:?}", e.kind()),
                    ),
                    Err(_) => {}
                }
                false
            }
            None => {
                if let Err(e) = res {
                    self.fail("spurious-error", format!("no failing stream call, helper returned {:?}; log {log:?}", e.kind()));
                    false
                } else {
                    true
                }
            }
        }
    }

    /// Fill-exactly helpers (`read_exact`, `read_vectored_exact`, `_at`).
    /// `expect`: the bytes of the source from the start position.
    pub fn exact(&mut self, log: &[Ev], calls: usize, delivered: usize, expect: &[u8], want: usize, res: &io::Result<()>, filled: &[u8]) {
        self.note_log(log, calls);
        if delivered > want {
            self.fail("over-read", format!("{delivered} bytes taken from the source for a buffer of {want}"));
        }
        if log.contains(&Ev::ZeroCap) && want > 0 {
            self.fail("zero-capacity-request", format!("helper offered a buffer without room; log {log:?}"));
            return;
        }
        let ok = self.check_kind(terminal(log), log, ErrorKind::UnexpectedEof, res);
        if ok {
            if delivered != want {
                self.fail("short-fill", format!("Ok(()) with {delivered} of {want} bytes transferred"));
            } else if filled != &expect[..want.min(expect.len())] {
                self.fail("content-mismatch", format!("destination {} != source {}", short(filled), short(&expect[..want])));
            }
        }
    }

    /// Read-until-EOF helpers. `limit`: `Take` limit if any.
    #[allow(clippy::too_many_arguments)]
    pub fn to_end(&mut self, log: &[Ev], calls: usize, delivered: &[u8], pre: &[u8], res: &io::Result<usize>, dest: &[u8], limit: Option<usize>, cap0: bool) {
        self.note_log(log, calls);
        if let Some(l) = limit
            && delivered.len() > l
        {
            self.fail("over-read", format!("{} bytes taken from the source with limit {l}", delivered.len()));
        }
        let term = terminal(log);
        let ok = match term {
            Some((_, Ev::Zero)) => {
                if let Some((i, _)) = term
                    && i + 1 != log.len()
                {
                    self.fail("call-after-failure", format!("stream called again after end-of-file: log {log:?}"));
                }
                match res {
                    Ok(_) => true,
                    Err(e) => {
                        self.fail("spurious-error", format!("end-of-file reached, helper returned {:?}", e.kind()));
                        false
                    }
                }
            }
            Some(_) => self.check_kind(term, log, ErrorKind::UnexpectedEof, res),
            None => {
                let limited = limit.is_some_and(|l| delivered.len() == l);
                let zero_ok = cap0 && log.last() == Some(&Ev::ZeroCap);
                match res {
                    Ok(_) if limited || zero_ok => true,
                    Ok(t) => {
                        self.fail("returned-before-eof", format!("Ok({t}) although the source never reported end-of-file; log {log:?}"));
                        false
                    }
                    Err(e) => {
                        self.fail("spurious-error", format!("no failing stream call, helper returned {:?}; log {log:?}", e.kind()));
                        false
                    }
                }
            }
        };
        if ok
            && let Ok(t) = res
            && *t != delivered.len()
        {
            self.fail("count-mismatch", format!("helper reported {t} bytes, source delivered {}", delivered.len()));
        }
        if !dest.starts_with(pre) {
            self.fail("preexisting-overwritten", format!("buffer started with {}, now {}", short(pre), short(dest)));
        } else if dest[pre.len()..] != *delivered {
            let rule = if res.is_ok() { "content-mismatch" } else { "partial-data-dropped-on-error" };
            self.fail(rule, format!("appended {} != delivered {}", short(&dest[pre.len()..]), short(delivered)));
        }
    }

    /// Write-everything helpers. `src`: the bytes handed to the helper.
    pub fn wexact(&mut self, log: &[Ev], calls: usize, accepted: &[u8], src: &[u8], res: &io::Result<()>) {
        self.note_log(log, calls);
        if !src.starts_with(accepted) {
            self.fail("content-mismatch", format!("writer accepted {} which is not a prefix of {}", short(accepted), short(src)));
            return;
        }
        if log.contains(&Ev::ZeroCap) && accepted.len() < src.len() {
            // an empty write while data is left, returned as Ok(0)
            self.fail("empty-write-request", format!("helper issued an empty write with data left; log {log:?}"));
            return;
        }
        let ok = self.check_kind(terminal(log), log, ErrorKind::WriteZero, res);
        if ok && accepted.len() != src.len() {
            self.fail("silent-truncation", format!("Ok(()) with {} of {} bytes written", accepted.len(), src.len()));
        }
    }

    /// Streams read piecewise by a user loop. `errs`: error kinds the user
    /// saw; the helper under test does not retry anything itself.
    pub fn collected(&mut self, log: &[Ev], calls: usize, delivered: &[u8], got: &[u8], errs: &[ErrorKind], ended_by_eof: bool, complete: bool) {
        self.note_log(log, calls);
        if !delivered.starts_with(got) {
            self.fail("content-mismatch", format!("collected {} is not a prefix of delivered {}", short(got), short(delivered)));
            return;
        }
        let faults: Vec<ErrorKind> = log
            .iter()
            .filter_map(|e| match e {
                Ev::Intr => Some(ErrorKind::Interrupted),
                Ev::Err(k) => Some(KINDS[*k as usize]),
                _ => None,
            })
            .collect();
        if faults != errs {
            self.fail("error-sequence-mismatch", format!("stream failed with {faults:?}, caller saw {errs:?}"));
        }
        if ended_by_eof && complete {
            if got.len() != delivered.len() {
                self.fail("lost-bytes", format!("{} bytes delivered by the source, {} reached the caller before EOF", delivered.len(), got.len()));
            }
            if !matches!(log.iter().rev().find(|e| **e != Ev::ZeroCap), Some(Ev::Zero) | None) || (log.is_empty() && !delivered.is_empty()) {
                self.fail("returned-before-eof", format!("caller saw EOF, the source did not report it; log {log:?}"));
            } else if log.iter().all(|e| *e == Ev::ZeroCap) && !log.is_empty() {
                self.fail("returned-before-eof", format!("caller saw EOF after zero-capacity requests only; log {log:?}"));
            }
        }
    }
}

/// Run an always-ready future; `None` (and a violation) if it stays pending.
pub fn exec<F: Future>(ck: &mut Ck, f: F) -> Option<F::Output> {
    match block_on_bounded(f, 16) {
        Ok(v) => Some(v),
        Err(n) => {
            ck.fail("pending-forever", format!("future still pending after {n} polls although every stream call is ready"));
            None
        }
    }
}

#[macro_export]
macro_rules! c11_go {
    ($ck:expr, $f:expr) => {
        match $crate::c11::exec($ck, $f) {
            Some(v) => v,
            None => return,
        }
    };
}

pub fn reader(c: &Case) -> RCore {
    RCore::new(payload(c.n, c.text), c.script.clone())
}

pub fn writer(c: &Case, second: bool) -> WCore {
    WCore::new(if second { c.script2.clone() } else { c.script.clone() }, c.n)
}

// ---------------------------------------------------------------------------
// Helper registry
// ---------------------------------------------------------------------------

pub struct Helper {
    pub name: &'static str,
    /// 0: no script, 1: one script, 3: two scripts (one of them enumerated).
    pub scripts: u8,
    pub params: fn(&mut dyn Chooser, &mut Case),
    pub run: fn(&Case, &mut Ck),
}

fn helpers() -> Vec<Helper> {
    let mut v = Vec::new();
    rd::register(&mut v);
    wr::register(&mut v);
    mem::register(&mut v);
    v
}

// ---------------------------------------------------------------------------
// Generation
// ---------------------------------------------------------------------------

fn composition(ch: &mut dyn Chooser, n: usize) -> Vec<Step> {
    let mut v = Vec::new();
    if n == 0 {
        return v;
    }
    let mut cur = 1;
    for _ in 1..n {
        if ch.choose(2) == 1 {
            v.push(Step::X(cur));
            cur = 1;
        } else {
            cur += 1;
        }
    }
    v.push(Step::X(cur));
    v
}

fn inject(ch: &mut dyn Chooser, s: &mut Vec<Step>) {
    let k = s.len();
    let opt = ch.choose(1 + 3 * (k + 1));
    if opt > 0 {
        let kind = [Step::I, Step::E(0), Step::Z][(opt - 1) % 3];
        s.insert((opt - 1) / 3, kind);
    }
}

/// A few fixed scripts for the non-enumerated side of two-stream helpers.
fn simple_script(ch: &mut dyn Chooser, n: usize) -> Vec<Step> {
    match ch.choose(3) {
        0 => vec![],
        1 => vec![Step::X(1); n],
        _ => vec![Step::X(2); n.div_ceil(2)],
    }
}

fn gen_case(ch: &mut dyn Chooser, hs: &[Helper], hmask: &[bool], max_n: usize) -> Case {
    let avail: Vec<usize> = (0..hs.len()).filter(|i| hmask[*i]).collect();
    let hi = avail[ch.choose(avail.len())];
    let h = &hs[hi];
    let mut c = Case {
        h: h.name.to_string(),
        n: ch.choose(max_n + 1),
        ..Default::default()
    };
    match h.scripts {
        1 => {
            c.script = composition(ch, c.n);
            inject(ch, &mut c.script);
        }
        3 => {
            if ch.choose(2) == 0 {
                c.script = composition(ch, c.n);
                inject(ch, &mut c.script);
                c.script2 = simple_script(ch, c.n);
            } else {
                c.script2 = composition(ch, c.n);
                inject(ch, &mut c.script2);
                c.script = simple_script(ch, c.n);
            }
        }
        _ => {}
    }
    (h.params)(ch, &mut c);
    c
}

fn random_script(rng: &mut Rng, n: usize) -> Vec<Step> {
    let scale = *rng.pick(&[1usize, 3, 16, 256, 4096]);
    let pf = *rng.pick(&[0usize, 1, 1, 3]); // faults per 16 steps
    let terminal = rng.chance(1, 4);
    let mut v = Vec::new();
    let mut left = n;
    while left > 0 {
        if rng.chance(pf, 16) {
            v.push(Step::I);
            continue;
        }
        if terminal && rng.chance(1, 24) {
            v.push(if rng.chance(1, 2) { Step::Z } else { Step::E(rng.below(KINDS.len()) as u8) });
        }
        let k = (1 + rng.below(scale)).min(left);
        v.push(Step::X(k));
        left -= k;
    }
    if rng.chance(pf, 8) {
        v.push(Step::I);
    }
    if terminal && rng.chance(1, 6) {
        v.push(Step::E(rng.below(KINDS.len()) as u8));
    }
    v
}

fn gen_big(rng: &mut Rng, hs: &[Helper], hmask: &[bool], max_n: usize) -> Case {
    let avail: Vec<usize> = (0..hs.len()).filter(|i| hmask[*i]).collect();
    let h = &hs[*rng.pick(&avail)];
    let n = match rng.below(4) {
        0 => rng.below(max_n.min(16) + 1),
        1 => rng.below(max_n.min(300) + 1),
        _ => rng.below(max_n + 1),
    };
    let mut c = Case {
        h: h.name.to_string(),
        n,
        ..Default::default()
    };
    if h.scripts >= 1 {
        c.script = random_script(rng, n);
    }
    if h.scripts == 3 {
        c.script2 = random_script(rng, n);
    }
    let mut ch = RandomChooser::new(rng.fork(7));
    (h.params)(&mut ch, &mut c);
    c
}

// ---------------------------------------------------------------------------
// Execution
// ---------------------------------------------------------------------------

struct Exec {
    /// (rule, detail)
    fails: Vec<(String, String)>,
    tags: String,
    variants: String,
    calls: usize,
    saw: [bool; 4],
    /// harness problem: (reason, note)
    incon: Option<(String, String)>,
}

fn execute(c: &Case, h: &Helper) -> Exec {
    let mut ck = Ck {
        tags: Vec::new(),
        variants: Vec::new(),
        fails: Vec::new(),
        calls: 0,
        saw: [false; 4],
    };
    let mut incon = None;
    let r = panics::catch(|| (h.run)(c, &mut ck));
    if let Err(info) = r {
        match attribute(&info) {
            _ if info.message.contains(LIMIT_MARK) => {
                ck.fail("endless-loop", format!("helper kept calling the stream: {}", info.message));
            }
            panics::Origin::Repo(loc) => {
                let file = loc.rsplit_once(':').map_or(loc.as_str(), |x| x.0);
                ck.fail(&format!("panic@{file}"), format!("panic in compio at {loc}: {}", info.message));
            }
            panics::Origin::Harness(loc) => {
                incon = Some((format!("harness-panic@{loc}"), format!("harness panic {loc}: {} in {}", info.message, json!(c))));
            }
            panics::Origin::Other(loc) => {
                // cannot be attributed to compio or the harness
                let file = loc.rsplit_once(':').map_or(loc.as_str(), |x| x.0).to_string();
                incon = Some((format!("unattributed-panic@{file}"), format!("unattributed panic {loc}: {} in {}", info.message, json!(c))));
            }
        }
    }
    Exec {
        fails: ck.fails,
        tags: ck.tags.iter().map(|t| format!("+{t}")).collect(),
        variants: ck.variants.iter().map(|t| format!("~{t}")).collect(),
        calls: ck.calls,
        saw: ck.saw,
        incon,
    }
}

/// Where a captured panic comes from. Panics located in compio or harness
/// files are attributed by their location; panics located in std/alloc
/// (e.g. `capacity overflow`, raised on behalf of a caller) by the innermost
/// compio or harness-module frame of the backtrace, skipping the frames of
/// the panic hook itself.
fn attribute(info: &panics::PanicInfo) -> panics::Origin {
    let loc = format!("{}:{}", info.file, info.line);
    let is_repo = |p: &str| p.starts_with("/repo/") || p.contains("/repo/compio");
    let is_mod = |p: &str| p.contains("vpure/src/") || p.contains("vcommon/src/task.rs");
    if is_repo(&info.file) {
        return panics::Origin::Repo(loc.trim_start_matches("/repo/").to_string());
    }
    if is_mod(&info.file) {
        return panics::Origin::Harness(loc);
    }
    if let Some(bt) = &info.backtrace {
        for l in bt.lines() {
            let Some(p) = l.trim().strip_prefix("at ") else { continue };
            if is_repo(p) {
                let p = p.trim_start_matches("/repo/");
                // strip ":line:col"
                let p = p.rsplit_once(':').map_or(p, |x| x.0);
                return panics::Origin::Repo(p.to_string());
            }
            if is_mod(p) {
                return panics::Origin::Harness(format!("{loc} via {p}"));
            }
        }
    }
    panics::Origin::Other(loc)
}

/// The case with only the fault steps of one kind kept (`None`: no faults).
fn strip(c: &Case, keep: Option<u8>) -> Case {
    let f = |s: &Vec<Step>| -> Vec<Step> {
        s.iter()
            .copied()
            .filter(|st| match st {
                Step::X(_) => true,
                Step::I => keep == Some(0),
                Step::E(_) => keep == Some(1),
                Step::Z => keep == Some(2),
            })
            .collect()
    };
    let mut d = c.clone();
    d.script = f(&c.script);
    d.script2 = f(&c.script2);
    d
}

/// Reduce a failing case to the weakest condition under which `rule` still
/// fails: without pre-existing content if that is not needed, and with the
/// weakest fault class ("any" if the fault-free variant fails the same way,
/// else the single fault kind that suffices, else "multi"). Returns the
/// reduced case, its tags and the fault class.
fn minimise(c: &Case, h: &Helper, rule: &str, tags: &str) -> (Case, String, String) {
    let fails = |d: &Case| -> Option<String> {
        let e = execute(d, h);
        e.fails.iter().any(|f| f.0 == rule).then_some(e.tags)
    };
    let mut cur = c.clone();
    let mut tags = tags.to_string();
    if cur.pre != 0 {
        let mut d = cur.clone();
        d.pre = 0;
        if let Some(t) = fails(&d) {
            cur = d;
            tags = t;
        }
    }
    let own = fault_class(&[&cur.script, &cur.script2], false);
    if own == "clean" {
        return (cur, tags, "any".into());
    }
    let d = strip(&cur, None);
    if let Some(t) = fails(&d) {
        return (d, t, "any".into());
    }
    if own != "multi" {
        return (cur, tags, own);
    }
    for (k, name) in [(0u8, "intr"), (1, "err"), (2, "eof")] {
        let d = strip(&cur, Some(k));
        if let Some(t) = fails(&d) {
            return (d, t, name.into());
        }
    }
    (cur, tags, own)
}

fn pos_class(pos: u64, n: usize) -> &'static str {
    if pos == 0 {
        "0"
    } else if pos < n as u64 {
        "in"
    } else if pos == n as u64 {
        "end"
    } else {
        "beyond"
    }
}

fn run_case(c: &Case, hs: &[Helper], rep: &mut Report, mode: &str) {
    let Some(h) = hs.iter().find(|h| h.name == c.h) else {
        rep.inconclusive("unknown-helper-in-replay");
        return;
    };
    let ex = execute(c, h);
    if let Some((reason, note)) = ex.incon {
        rep.inconclusive(&reason);
        rep.note(note);
        return;
    }
    let trivial = ex.calls == 0 && ex.fails.is_empty() && h.scripts > 0;
    if trivial {
        rep.eval(None);
    } else {
        // fault coverage: helper x composition class x fault kind@position x capacity class
        let mut sig = format!(
            "{}|{}|{}|cap:{}",
            h.name,
            comp_class(if c.script.is_empty() { &c.script2 } else { &c.script }),
            fault_class(&[&c.script, &c.script2], true),
            cap_class(c.cap, c.n),
        );
        if mode == "big" {
            sig.push_str("|big");
        }
        rep.eval(Some(sig));
        // configuration coverage: helper x API variant x capacity class x position class
        rep.sig(format!("{}{}{}|cap:{}|pos:{}", h.name, ex.tags, ex.variants, cap_class(c.cap, c.n), pos_class(c.pos, c.n)));
    }
    rep.floor("interrupted-retried-or-surfaced", ex.saw[0]);
    rep.floor("error-kind-propagated", ex.saw[1]);
    rep.floor("ok0-seen", ex.saw[2]);
    rep.floor("multi-chunk-transfer", ex.saw[3]);
    rep.max("payload_len", c.n as i64);
    if rep.want_sample() && !trivial && c.n >= 3 && ex.fails.is_empty() {
        rep.sample(json!({"mode": mode, "case": c}));
    }
    for (rule, what) in &ex.fails {
        let (reduced, tags, cond) = minimise(c, h, rule, &ex.tags);
        let sig = format!("C11/{rule}/{}/{cond}{tags}", h.name);
        rep.violation(&sig, what, json!(reduced));
    }
}

pub fn main(args: &Args) {
    let mut rep = Report::from_args("C11", &args.str("leg", "native"), args);
    let hs = helpers();
    let shard = args.shard();
    let nshards = args.nshards();
    if args.flag("list") {
        for h in &hs {
            println!("{}", h.name);
        }
        return;
    }
    if let Some(path) = args.get("replay") {
        let text = std::fs::read_to_string(path).expect("replay file");
        let v: vcommon::Value = vcommon::serde_json::from_str(&text).expect("replay json");
        match vcommon::serde_json::from_value::<Case>(v["program"].clone()) {
            Ok(c) => run_case(&c, &hs, &mut rep, "replay"),
            Err(_) => rep.inconclusive("replay-program-unparsable"),
        }
        rep.finish();
        return;
    }
    // optional helper filter (substring)
    let only = args.str("only", "");
    let hmask: Vec<bool> = hs.iter().map(|h| only.is_empty() || h.name.contains(&only)).collect();
    if !hmask.iter().any(|b| *b) {
        rep.inconclusive("helper-filter-matches-nothing");
        rep.finish();
        return;
    }

    // --- exhaustive part: every case inside the bound, sharded by index.
    // It has its own, generous wall cap (default 6 x --budget-ms) so that a
    // loaded machine shortens the random part first.
    let ex_n = args.usize("ex-n", if args.thorough() { 9 } else { 7 });
    if args.usize("ex", 1) != 0 {
        let ex_budget = args.u64("ex-budget-ms", 6 * args.u64("budget-ms", 0));
        let mut od = Odometer::new();
        let mut idx: u64 = 0;
        let mut complete = true;
        while od.advance() {
            let c = gen_case(&mut od, &hs, &hmask, ex_n);
            if idx % nshards == shard {
                run_case(&c, &hs, &mut rep, "exhaustive");
            }
            idx += 1;
            if idx % 4096 == 0 && ex_budget > 0 && rep.elapsed().as_millis() as u64 >= ex_budget {
                complete = false;
                break;
            }
        }
        rep.set_exhaustive(complete);
        rep.count("exhaustive_cases_total", idx as i64);
        rep.note(format!("exhaustive bound: n<={ex_n}, all compositions x single fault x parameter classes; complete={complete}"));
    }

    let base = Rng::new(args.seed()).fork(shard + 1);
    // a small random quota runs even if the wall budget is already used up
    let floor_quota = args.usize("min-random", 2000);
    // --- seeded sample of the enumerated space (what the Miri leg runs)
    let sample_n = args.usize("sample-n", ex_n);
    let mut done = 0i64;
    for i in 0..args.usize("sample", 0) {
        if i >= floor_quota && i % 64 == 0 && rep.out_of_time() {
            break;
        }
        let mut ch = RandomChooser::new(base.fork(0x5a00_0000 + i as u64));
        let c = gen_case(&mut ch, &hs, &hmask, sample_n);
        run_case(&c, &hs, &mut rep, "sample");
        done += 1;
    }
    rep.count("sample_cases", done);
    // --- seeded large scripts
    let rnd_n = args.usize("rnd-n", 4096);
    done = 0;
    for i in 0..args.iters(20_000, 400_000) {
        if i >= floor_quota && i % 64 == 0 && rep.out_of_time() {
            break;
        }
        let mut rng = base.fork(i as u64);
        let c = gen_big(&mut rng, &hs, &hmask, rnd_n);
        run_case(&c, &hs, &mut rep, "big");
        done += 1;
    }
    rep.count("big_cases", done);
    rep.finish();
}
