//! C11 I/O helpers invariant under chunking and transient errors — not built yet.

use vcommon::Args;

pub fn main(_args: &Args) {
    eprintln!("c11: not implemented");
    std::process::exit(3);
}
