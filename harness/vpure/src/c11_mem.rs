//! C11: compio-io's own in-memory readers, writers and cursors against the
//! obvious slice / Vec model (no script: these sources never fail; the
//! parameters are lengths, capacities, member layouts and positions,
//! including positions beyond the end).

use std::io::{self, Cursor, ErrorKind};

use compio_buf::BufResult;
use compio_io::{AsyncRead, AsyncReadAt, AsyncReadAtExt, AsyncReadExt, AsyncWriteAt, AsyncWriteAtExt, AsyncWriteExt};

use super::{
    Case, Ck, Helper, caps, marks, payload, pick, pick_members,
    rd::{cut, mk_members, vtags},
    short,
    streams::model_write_at,
    uniq,
};
use crate::{c11_go as go, choose::Chooser};

fn kind<T>(r: &io::Result<T>) -> Result<&T, ErrorKind> {
    r.as_ref().map_err(|e| e.kind())
}

/// Fill-exactly from `avail`.
fn expect_exact(ck: &mut Ck, avail: &[u8], want: usize, res: &io::Result<()>, filled: &[u8]) {
    if avail.len() >= want {
        match res {
            Ok(()) => {
                if filled != &avail[..want] {
                    ck.fail("content-mismatch", format!("destination {} != source {}", short(filled), short(&avail[..want])));
                }
            }
            Err(e) => ck.fail("spurious-error", format!("{} bytes available for a buffer of {want}, got {:?}", avail.len(), e.kind())),
        }
    } else {
        match res {
            Ok(()) => ck.fail("error-swallowed", format!("Ok(()) with {} bytes available for a buffer of {want}", avail.len())),
            Err(e) if e.kind() != ErrorKind::UnexpectedEof => ck.fail("wrong-error-kind", format!("expected UnexpectedEof, got {:?}", e.kind())),
            _ => {}
        }
    }
}

fn expect_to_end(ck: &mut Ck, avail: &[u8], pre: &[u8], res: &io::Result<usize>, dest: &[u8]) {
    match res {
        Ok(t) if *t != avail.len() => ck.fail("count-mismatch", format!("reported {t}, {} bytes available", avail.len())),
        Ok(_) => {}
        Err(e) => ck.fail("spurious-error", format!("in-memory source failed with {:?}", e.kind())),
    }
    if !dest.starts_with(pre) {
        ck.fail("preexisting-overwritten", format!("buffer started with {}, now {}", short(pre), short(dest)));
    } else if dest[pre.len()..] != *avail {
        ck.fail("content-mismatch", format!("appended {} != source {}", short(&dest[pre.len()..]), short(avail)));
    }
}

fn pos_tags(c: &Case, len: usize, ck: &mut Ck) {
    if c.pos > len as u64 {
        ck.tag("beyond-end");
    }
}

// ---------------------------------------------------------------------------
// &[u8] as AsyncRead
// ---------------------------------------------------------------------------

fn p_slice_reader(ch: &mut dyn Chooser, c: &mut Case) {
    c.aux = ch.choose(4);
    c.cap = pick(ch, &caps(c.n));
    match c.aux {
        1 => c.pre = pick(ch, &[0, 1, 3]),
        2 => {
            c.members = pick_members(ch, c.cap, false);
            c.pre = ch.choose(4);
        }
        3 => c.members = pick_members(ch, c.cap, false),
        _ => {}
    }
}

fn slice_reader(c: &Case, ck: &mut Ck) {
    let data = payload(c.n, 0);
    let mut src: &[u8] = &data;
    match c.aux {
        0 => {
            ck.tag("read_exact");
            let dest = Vec::with_capacity(c.cap);
            let want = dest.capacity();
            let BufResult(res, dest) = go!(ck, src.read_exact(dest));
            expect_exact(ck, &data, want, &res, &dest);
            if res.is_ok() && src.len() != c.n - want {
                ck.fail("consumed-mismatch", format!("{} bytes left in the source after reading {want} of {}", src.len(), c.n));
            }
        }
        1 => {
            ck.tag("read_to_end");
            if c.pre > 0 {
                ck.tag("pre");
            }
            let pre = marks(c.pre);
            let mut dest = Vec::with_capacity(c.pre + c.cap);
            dest.extend_from_slice(&pre);
            let BufResult(res, dest) = go!(ck, src.read_to_end(dest));
            expect_to_end(ck, &data, &pre, &res, &dest);
            if !src.is_empty() {
                ck.fail("consumed-mismatch", format!("{} bytes left in the source after read_to_end", src.len()));
            }
        }
        2 => {
            ck.tag("read_vectored_exact");
            vtags(c, ck);
            let ms = mk_members(&c.members, c.pre);
            let want: usize = ms.iter().map(|m| m.capacity()).sum();
            let BufResult(res, v) = go!(ck, src.read_vectored_exact(ms));
            expect_exact(ck, &data, want, &res, &v.concat());
            if res.is_ok() && src.len() != c.n - want {
                ck.fail("consumed-mismatch", format!("{} bytes left in the source after reading {want} of {}", src.len(), c.n));
            }
        }
        _ => {
            ck.tag("read_vectored");
            let ms = mk_members(&c.members, 0);
            let room: usize = ms.iter().map(|m| m.capacity()).sum();
            let BufResult(res, v) = go!(ck, src.read_vectored(ms));
            let k = room.min(c.n);
            if kind(&res) != Ok(&k) {
                ck.fail("count-mismatch", format!("read_vectored returned {:?}, expected Ok({k})", kind(&res)));
            } else if v.concat() != data[..k] {
                ck.fail("content-mismatch", format!("members {:?} != source {:?}", v, &data[..k]));
            }
            if src.len() != c.n - k {
                ck.fail("consumed-mismatch", format!("{} bytes left in the source after reading {k} of {}", src.len(), c.n));
            }
        }
    }
}

// ---------------------------------------------------------------------------
// AsyncReadAt for Vec<u8> / [u8] / [u8; N]
// ---------------------------------------------------------------------------

fn read_positions(n: usize) -> Vec<u64> {
    let mut v: Vec<u64> = uniq(vec![0, 1, n.saturating_sub(1), n, n + 1, 2 * n + 1]).into_iter().map(|x| x as u64).collect();
    v.push(u64::MAX);
    v
}

fn p_read_at(ch: &mut dyn Chooser, c: &mut Case) {
    c.aux = ch.choose(5); // operation
    c.text = ch.choose(3) as u8; // container
    c.cap = pick(ch, &caps(c.n));
    let ps = read_positions(c.n);
    c.pos = ps[ch.choose(ps.len())];
    match c.aux {
        2 => c.pre = pick(ch, &[0, 2]),
        3 => c.members = pick_members(ch, c.cap, false),
        4 => {
            c.members = pick_members(ch, c.cap, false);
            c.pre = pick(ch, &[0, 2, 3]);
        }
        _ => {}
    }
}

fn read_at_ops<A: AsyncReadAt + ?Sized>(src: &A, data: &[u8], c: &Case, ck: &mut Ck) {
    let region = &data[(c.pos.min(data.len() as u64)) as usize..];
    match c.aux {
        0 => {
            ck.tag("read_at");
            let dest = Vec::with_capacity(c.cap);
            let room = dest.capacity();
            let BufResult(res, dest) = go!(ck, src.read_at(dest, c.pos));
            let k = room.min(region.len());
            if kind(&res) != Ok(&k) {
                ck.fail("count-mismatch", format!("read_at returned {:?}, expected Ok({k})", kind(&res)));
            } else if dest != region[..k] {
                ck.fail("content-mismatch", format!("destination {dest:?} != source {:?}", &region[..k]));
            }
        }
        1 => {
            ck.tag("read_exact_at");
            let dest = Vec::with_capacity(c.cap);
            let want = dest.capacity();
            let BufResult(res, dest) = go!(ck, src.read_exact_at(dest, c.pos));
            expect_exact(ck, region, want, &res, &dest);
        }
        2 => {
            ck.tag("read_to_end_at");
            if c.pre > 0 {
                ck.tag("pre");
            }
            let pre = marks(c.pre);
            let mut dest = Vec::with_capacity(c.pre + c.cap);
            dest.extend_from_slice(&pre);
            let BufResult(res, dest) = go!(ck, src.read_to_end_at(dest, c.pos));
            expect_to_end(ck, region, &pre, &res, &dest);
        }
        3 => {
            ck.tag("read_vectored_at");
            let ms = mk_members(&c.members, 0);
            let room: usize = ms.iter().map(|m| m.capacity()).sum();
            let BufResult(res, v) = go!(ck, src.read_vectored_at(ms, c.pos));
            let k = room.min(region.len());
            if kind(&res) != Ok(&k) {
                ck.fail("count-mismatch", format!("read_vectored_at returned {:?}, expected Ok({k})", kind(&res)));
            } else if v.concat() != region[..k] {
                ck.fail("content-mismatch", format!("members {v:?} != source {:?}", &region[..k]));
            }
        }
        _ => {
            ck.tag("read_vectored_exact_at");
            vtags(c, ck);
            let ms = mk_members(&c.members, c.pre);
            let want: usize = ms.iter().map(|m| m.capacity()).sum();
            let BufResult(res, v) = go!(ck, src.read_vectored_exact_at(ms, c.pos));
            expect_exact(ck, region, want, &res, &v.concat());
        }
    }
}

fn read_at(c: &Case, ck: &mut Ck) {
    let data = payload(c.n, 0);
    pos_tags(c, c.n, ck);
    match c.text {
        1 => {
            ck.tag("slice");
            let b: Box<[u8]> = data.clone().into_boxed_slice();
            read_at_ops::<[u8]>(&b, &data, c, ck)
        }
        2 if c.n == 5 => {
            ck.tag("slice");
            ck.variant("array");
            let a: [u8; 5] = data.clone().try_into().expect("len 5");
            read_at_ops(&a, &data, c, ck)
        }
        _ => {
            ck.tag("vec");
            read_at_ops(&data.clone(), &data, c, ck)
        }
    }
}

// ---------------------------------------------------------------------------
// Cursor as AsyncRead
// ---------------------------------------------------------------------------

fn p_cursor_read(ch: &mut dyn Chooser, c: &mut Case) {
    c.aux = ch.choose(3);
    c.text = ch.choose(2) as u8;
    c.cap = pick(ch, &caps(c.n));
    let ps = read_positions(c.n);
    c.pos = ps[ch.choose(ps.len())];
    match c.aux {
        1 => c.pre = pick(ch, &[0, 2]),
        2 => {
            c.members = pick_members(ch, c.cap, false);
            c.pre = pick(ch, &[0, 2, 3]);
        }
        _ => {}
    }
}

fn cursor_read_ops<A: AsyncReadAt>(mut cur: Cursor<A>, data: &[u8], c: &Case, ck: &mut Ck) {
    cur.set_position(c.pos);
    let region = &data[(c.pos.min(data.len() as u64)) as usize..];
    let taken = match c.aux {
        0 => {
            ck.tag("read_exact");
            let dest = Vec::with_capacity(c.cap);
            let want = dest.capacity();
            let BufResult(res, dest) = go!(ck, cur.read_exact(dest));
            expect_exact(ck, region, want, &res, &dest);
            if res.is_ok() { Some(want) } else { None }
        }
        1 => {
            ck.tag("read_to_end");
            if c.pre > 0 {
                ck.tag("pre");
            }
            let pre = marks(c.pre);
            let mut dest = Vec::with_capacity(c.pre + c.cap);
            dest.extend_from_slice(&pre);
            let BufResult(res, dest) = go!(ck, cur.read_to_end(dest));
            expect_to_end(ck, region, &pre, &res, &dest);
            Some(region.len())
        }
        _ => {
            ck.tag("read_vectored_exact");
            vtags(c, ck);
            let ms = mk_members(&c.members, c.pre);
            let want: usize = ms.iter().map(|m| m.capacity()).sum();
            let BufResult(res, v) = go!(ck, cur.read_vectored_exact(ms));
            expect_exact(ck, region, want, &res, &v.concat());
            if res.is_ok() { Some(want) } else { None }
        }
    };
    if let Some(t) = taken
        && cur.position() != c.pos.saturating_add(t as u64)
    {
        ck.fail("position-not-advanced", format!("cursor at {} after reading {t} bytes from {}", cur.position(), c.pos));
    }
}

fn cursor_read(c: &Case, ck: &mut Ck) {
    let data = payload(c.n, 0);
    pos_tags(c, c.n, ck);
    if c.text == 1 {
        ck.variant("box");
        cursor_read_ops(Cursor::new(data.clone().into_boxed_slice()), &data, c, ck)
    } else {
        ck.variant("vec");
        cursor_read_ops(Cursor::new(data.clone()), &data, c, ck)
    }
}

// ---------------------------------------------------------------------------
// Vec<u8> / &mut [u8] as AsyncWrite
// ---------------------------------------------------------------------------

fn p_vec_writer(ch: &mut dyn Chooser, c: &mut Case) {
    c.aux = ch.choose(2);
    c.pre = pick(ch, &uniq(vec![0, 1, c.n, c.n + 1]));
    if c.aux == 1 {
        c.members = pick_members(ch, c.n, false);
    }
}

fn expect_write<T>(ck: &mut Ck, fits: bool, res: &io::Result<T>) {
    match (fits, res) {
        (true, Err(e)) => ck.fail("spurious-error", format!("everything fits, got {:?}", e.kind())),
        (false, Ok(_)) => ck.fail("silent-truncation", "Ok although the destination is too small".into()),
        (false, Err(e)) if e.kind() != ErrorKind::WriteZero => ck.fail("wrong-error-kind", format!("expected WriteZero, got {:?}", e.kind())),
        _ => {}
    }
}

fn vec_writer(c: &Case, ck: &mut Ck) {
    let src = payload(c.n, 0);
    let pre = marks(c.pre);
    if c.pre > 0 {
        ck.tag("pre");
    }
    let mut w = pre.clone();
    let res = if c.aux == 1 {
        ck.tag("write_vectored_all");
        go!(ck, w.write_vectored_all(cut(&src, &c.members))).0
    } else {
        ck.tag("write_all");
        go!(ck, w.write_all(src.clone())).0
    };
    expect_write(ck, true, &res);
    if !w.starts_with(&pre) {
        ck.fail("preexisting-overwritten", format!("vector started with {}, now {}", short(&pre), short(&w)));
    } else if w[pre.len()..] != src[..] {
        ck.fail("content-mismatch", format!("appended {} != written {}", short(&w[pre.len()..]), short(&src)));
    }
}

fn p_mutslice_writer(ch: &mut dyn Chooser, c: &mut Case) {
    c.aux = ch.choose(2);
    c.cap = pick(ch, &caps(c.n));
    if c.aux == 1 {
        c.members = pick_members(ch, c.n, false);
    }
}

fn mutslice_writer(c: &Case, ck: &mut Ck) {
    let src = payload(c.n, 0);
    let mut store = marks(c.cap);
    let left;
    let res = {
        let mut w: &mut [u8] = &mut store[..];
        let res = if c.aux == 1 {
            ck.tag("write_vectored_all");
            go!(ck, w.write_vectored_all(cut(&src, &c.members))).0
        } else {
            ck.tag("write_all");
            go!(ck, w.write_all(src.clone())).0
        };
        left = w.len();
        res
    };
    let k = c.n.min(c.cap);
    expect_write(ck, c.n <= c.cap, &res);
    if store[..k] != src[..k] || store[k..] != marks(c.cap)[k..] {
        ck.fail("content-mismatch", format!("slice {} after writing {} into {} bytes", short(&store), short(&src), c.cap));
    }
    if left != c.cap - k {
        ck.fail("consumed-mismatch", format!("{left} bytes of room left after writing {k} into {}", c.cap));
    }
}

// ---------------------------------------------------------------------------
// AsyncWriteAt for Vec<u8> / [u8]; Cursor<Vec<u8>> as AsyncWrite
// ---------------------------------------------------------------------------

fn p_write_at(ch: &mut dyn Chooser, c: &mut Case) {
    c.aux = ch.choose(2); // vectored
    c.text = ch.choose(3) as u8; // 0 Vec, 1 [u8], 2 Cursor<Vec>
    c.pre = pick(ch, &uniq(vec![0, 1, c.n, c.n + 2]));
    c.pos = pick(ch, &uniq(vec![0, 1, c.pre.saturating_sub(1), c.pre, c.pre + 1, c.pre + 3])) as u64;
    if c.aux == 1 {
        c.members = pick_members(ch, c.n, false);
    }
}

fn write_at_op<W: AsyncWriteAt + ?Sized>(w: &mut W, src: &[u8], c: &Case, ck: &mut Ck) -> Option<io::Result<()>> {
    Some(if c.aux == 1 {
        ck.tag("vectored");
        match crate::c11::exec(ck, w.write_vectored_all_at(cut(src, &c.members), c.pos)) {
            Some(r) => r.0,
            None => return None,
        }
    } else {
        match crate::c11::exec(ck, w.write_all_at(src.to_vec(), c.pos)) {
            Some(r) => r.0,
            None => return None,
        }
    })
}

fn write_at(c: &Case, ck: &mut Ck) {
    let src = payload(c.n, 0);
    let store = marks(c.pre);
    pos_tags(c, c.pre, ck);
    let pos = c.pos as usize;
    match c.text {
        1 => {
            ck.tag("slice");
            let mut b: Box<[u8]> = store.clone().into_boxed_slice();
            let Some(res) = write_at_op::<[u8]>(&mut b, &src, c, ck) else { return };
            let room = c.pre - pos.min(c.pre);
            let k = c.n.min(room);
            expect_write(ck, c.n <= room, &res);
            let mut model = store;
            model[pos.min(c.pre)..pos.min(c.pre) + k].copy_from_slice(&src[..k]);
            if *b != model[..] {
                ck.fail("content-mismatch", format!("slice {:?} != model {:?}", b, model));
            }
        }
        2 => {
            ck.tag("cursor");
            let mut cur = Cursor::new(store.clone());
            cur.set_position(c.pos);
            let res = if c.aux == 1 {
                ck.tag("vectored");
                go!(ck, cur.write_vectored_all(cut(&src, &c.members))).0
            } else {
                go!(ck, cur.write_all(src.clone())).0
            };
            expect_write(ck, true, &res);
            let mut model = store;
            model_write_at(&mut model, pos, &src);
            if *cur.get_ref() != model {
                ck.fail("content-mismatch", format!("vector {:?} != model {:?}", cur.get_ref(), model));
            }
            if cur.position() != c.pos + c.n as u64 {
                ck.fail("position-not-advanced", format!("cursor at {} after writing {} bytes from {}", cur.position(), c.n, c.pos));
            }
        }
        _ => {
            ck.tag("vec");
            let mut v = store.clone();
            let Some(res) = write_at_op(&mut v, &src, c, ck) else { return };
            expect_write(ck, true, &res);
            let mut model = store;
            model_write_at(&mut model, pos, &src);
            if v != model {
                ck.fail("content-mismatch", format!("vector {v:?} != model {model:?}"));
            }
        }
    }
}

pub fn register(v: &mut Vec<Helper>) {
    let mut add = |name, params, run| {
        v.push(Helper {
            name,
            scripts: 0,
            params,
            run,
        })
    };
    add("mem/slice-reader", p_slice_reader as fn(&mut dyn Chooser, &mut Case), slice_reader as fn(&Case, &mut Ck));
    add("mem/read_at", p_read_at, read_at);
    add("mem/cursor-read", p_cursor_read, cursor_read);
    add("mem/vec-writer", p_vec_writer, vec_writer);
    add("mem/mutslice-writer", p_mutslice_writer, mutslice_writer);
    add("mem/write_at", p_write_at, write_at);
}
