//! C11: read-side helpers over scripted readers.

use std::io::ErrorKind;

use compio_buf::{BufResult, IntoInner, IoBufExt, IoVectoredBufMut};
use compio_io::{AsyncBufRead, AsyncRead, AsyncReadAtExt, AsyncReadExt, AsyncWriteExt, BufReader};

use super::{
    Case, Ck, Helper, caps, marks, pick, pick_members, reader,
    streams::*,
    uniq, writer,
};
use crate::{c11_go as go, choose::Chooser};

// ---------------------------------------------------------------------------
// Vectored destination shapes
// ---------------------------------------------------------------------------

pub trait VShape: IoVectoredBufMut + Sized + 'static {
    fn build(m: Vec<Vec<u8>>) -> Self;
    fn parts(self) -> Vec<Vec<u8>>;
}

impl VShape for Vec<Vec<u8>> {
    fn build(m: Vec<Vec<u8>>) -> Self {
        m
    }

    fn parts(self) -> Vec<Vec<u8>> {
        self
    }
}

impl VShape for [Vec<u8>; 2] {
    fn build(m: Vec<Vec<u8>>) -> Self {
        let mut it = m.into_iter();
        [it.next().unwrap_or_default(), it.next().unwrap_or_default()]
    }

    fn parts(self) -> Vec<Vec<u8>> {
        self.into_iter().collect()
    }
}

impl VShape for (Vec<u8>, (Vec<u8>, ())) {
    fn build(m: Vec<Vec<u8>>) -> Self {
        let mut it = m.into_iter();
        (it.next().unwrap_or_default(), (it.next().unwrap_or_default(), ()))
    }

    fn parts(self) -> Vec<Vec<u8>> {
        vec![self.0, self.1.0]
    }
}

/// Destination members. `pre`: 0 empty, 1 one byte in the first member with
/// room, 2 all members initialised to capacity, 3 only the last member with
/// room initialised to capacity.
pub fn mk_members(capsv: &[usize], pre: usize) -> Vec<Vec<u8>> {
    let mut v: Vec<Vec<u8>> = capsv.iter().map(|c| Vec::with_capacity(*c)).collect();
    match pre {
        1 => {
            if let Some(m) = v.iter_mut().find(|m| m.capacity() > 0) {
                m.push(marks(1)[0]);
            }
        }
        2 => {
            for m in v.iter_mut() {
                let c = m.capacity();
                m.extend_from_slice(&marks(c));
            }
        }
        3 => {
            if let Some(m) = v.iter_mut().rev().find(|m| m.capacity() > 0) {
                let c = m.capacity();
                m.extend_from_slice(&marks(c));
            }
        }
        _ => {}
    }
    v
}

/// Source members for vectored writes: the payload cut by `lens`.
pub fn cut(payload: &[u8], lens: &[usize]) -> Vec<Vec<u8>> {
    let mut at = 0;
    lens.iter()
        .map(|l| {
            let v = payload[at..at + l].to_vec();
            at += l;
            v
        })
        .collect()
}

pub fn p_vectored(ch: &mut dyn Chooser, c: &mut Case, total: usize) {
    c.aux = ch.choose(3);
    c.members = pick_members(ch, total, c.aux != 0);
}

// ---------------------------------------------------------------------------
// read_exact
// ---------------------------------------------------------------------------

fn p_cap_pre(ch: &mut dyn Chooser, c: &mut Case) {
    c.cap = pick(ch, &caps(c.n));
    c.pre = pick(ch, &uniq(vec![0, 1.min(c.cap), c.cap]));
}

fn read_exact_vec(c: &Case, ck: &mut Ck) {
    let mut dest = Vec::with_capacity(c.cap);
    dest.extend_from_slice(&marks(c.pre.min(c.cap)));
    let want = dest.capacity();
    if c.pre > 0 {
        ck.tag("pre");
    }
    let mut r = SR(reader(c));
    let BufResult(res, dest) = go!(ck, r.read_exact(dest));
    ck.exact(&r.0.tape.log, r.0.tape.calls, r.0.pos, &r.0.data, want, &res, &dest);
}

fn read_exact_box(c: &Case, ck: &mut Ck) {
    let dest = marks(c.cap).into_boxed_slice();
    let mut r = SR(reader(c));
    let BufResult(res, dest) = go!(ck, r.read_exact(dest));
    ck.exact(&r.0.tape.log, r.0.tape.calls, r.0.pos, &r.0.data, c.cap, &res, &dest);
}

fn p_slice(ch: &mut dyn Chooser, c: &mut Case) {
    c.cap = pick(ch, &caps(c.n));
    c.pos = pick(ch, &[0, 1, 3]) as u64;
    c.aux = ch.choose(2);
}

fn read_exact_slice(c: &Case, ck: &mut Ck) {
    let pos = c.pos as usize;
    let mut r = SR(reader(c));
    if pos > 0 {
        ck.variant("offset");
    }
    if c.aux == 0 {
        // bounded view into an initialised buffer
        let inner = marks(pos + c.cap + 2);
        let before = inner.clone();
        let BufResult(res, s) = go!(ck, r.read_exact(inner.slice(pos..pos + c.cap)));
        let inner = s.into_inner();
        ck.exact(&r.0.tape.log, r.0.tape.calls, r.0.pos, &r.0.data, c.cap, &res, &inner[pos..pos + c.cap]);
        if inner.len() != before.len() || inner[..pos] != before[..pos] || inner[pos + c.cap..] != before[pos + c.cap..] {
            ck.fail("outside-view-modified", format!("bytes outside slice({pos}..{}) changed: {:?} -> {:?}", pos + c.cap, before, inner));
        }
    } else {
        // open-ended view over the spare capacity
        ck.tag("open");
        let mut inner = Vec::with_capacity(pos + c.cap);
        inner.extend_from_slice(&marks(pos));
        let want = inner.capacity() - pos;
        let BufResult(res, s) = go!(ck, r.read_exact(inner.slice(pos..)));
        let inner = s.into_inner();
        if inner.len() < pos || inner[..pos] != marks(pos)[..] {
            ck.fail("outside-view-modified", format!("bytes before slice({pos}..) changed: {inner:?}"));
            return;
        }
        ck.exact(&r.0.tape.log, r.0.tape.calls, r.0.pos, &r.0.data, want, &res, &inner[pos..]);
    }
}

// ---------------------------------------------------------------------------
// append (user loop)
// ---------------------------------------------------------------------------

fn append_loop(c: &Case, ck: &mut Ck) {
    let pre = marks(c.pre.min(c.cap));
    let mut dest = Vec::with_capacity(c.cap);
    dest.extend_from_slice(&pre);
    if !pre.is_empty() {
        ck.tag("pre");
    }
    let mut r = SR(reader(c));
    let mut errs = Vec::new();
    let mut eof = false;
    for _ in 0..(c.script.len() + c.n + 4) {
        if dest.len() == dest.capacity() {
            break;
        }
        let before = dest.len();
        let BufResult(res, d) = go!(ck, r.append(dest));
        dest = d;
        match res {
            Ok(0) => {
                eof = true;
                break;
            }
            Ok(k) => {
                if dest.len() != before + k {
                    ck.fail("count-mismatch", format!("append reported {k}, length went {before} -> {}", dest.len()));
                    return;
                }
            }
            Err(e) => {
                if dest.len() != before {
                    ck.fail("length-changed-on-error", format!("append failed with {:?}, length went {before} -> {}", e.kind(), dest.len()));
                    return;
                }
                errs.push(e.kind());
            }
        }
    }
    if !dest.starts_with(&pre) {
        ck.fail("preexisting-overwritten", format!("buffer started with {pre:?}, now {dest:?}"));
        return;
    }
    ck.collected(&r.0.tape.log, r.0.tape.calls, r.0.delivered(), &dest[pre.len()..], &errs, eof, true);
}

// ---------------------------------------------------------------------------
// read_to_end / read_to_string
// ---------------------------------------------------------------------------

fn p_to_end(ch: &mut dyn Chooser, c: &mut Case) {
    c.pre = pick(ch, &[0, 1, 3]);
    c.cap = pick(ch, &caps(c.n)); // spare capacity beyond the pre-existing content
}

fn read_to_end_vec(c: &Case, ck: &mut Ck) {
    let pre = marks(c.pre);
    let mut dest = Vec::with_capacity(c.pre + c.cap);
    dest.extend_from_slice(&pre);
    if c.pre > 0 {
        ck.tag("pre");
    }
    let mut r = SR(reader(c));
    let BufResult(res, dest) = go!(ck, r.read_to_end(dest));
    ck.to_end(&r.0.tape.log, r.0.tape.calls, r.0.delivered(), &pre, &res, &dest, None, false);
}

fn p_to_string(ch: &mut dyn Chooser, c: &mut Case) {
    c.text = 1 + ch.choose(3) as u8;
    c.pre = ch.choose(2);
}

fn read_to_string(c: &Case, ck: &mut Ck) {
    let pre = if c.pre > 0 { "hé".to_string() } else { String::new() };
    if c.pre > 0 {
        ck.tag("pre");
    }
    match c.text {
        1 => ck.variant("ascii"),
        2 => ck.variant("utf8"),
        _ => ck.tag("invalid-utf8"),
    }
    let mut r = SR(reader(c));
    let BufResult(res, s) = go!(ck, r.read_to_string(pre.clone()));
    let core = &r.0;
    ck.note_log(&core.tape.log, core.tape.calls);
    let delivered = core.delivered();
    let valid = std::str::from_utf8(delivered).is_ok();
    let kind = res.as_ref().map_err(|e| e.kind());
    match super::terminal(&core.tape.log) {
        Some((_, Ev::Err(k))) => match kind {
            Ok(_) => ck.fail("error-swallowed", format!("stream failed with {:?}, helper returned Ok", KINDS[k as usize])),
            Err(e) if e != KINDS[k as usize] => ck.fail("wrong-error-kind", format!("expected {:?}, got {e:?}", KINDS[k as usize])),
            _ => {}
        },
        Some(_) if valid => match kind {
            Ok(t) => {
                if *t != delivered.len() {
                    ck.fail("count-mismatch", format!("helper reported {t} bytes, source delivered {}", delivered.len()));
                }
                if !s.starts_with(&pre) {
                    ck.fail("preexisting-overwritten", format!("string started with {pre:?}, now {s:?}"));
                } else if s.as_bytes()[pre.len()..] != *delivered {
                    ck.fail("content-mismatch", format!("string {s:?} != {pre:?} + {:?}", String::from_utf8_lossy(delivered)));
                }
            }
            Err(e) => ck.fail("spurious-error", format!("valid text read to the end, helper returned {e:?}")),
        },
        Some(_) => {
            if kind != Err(ErrorKind::InvalidData) {
                ck.fail("wrong-error-kind", format!("invalid utf-8 read to the end, result {kind:?}"));
            }
        }
        None => ck.fail("returned-before-eof", format!("result {kind:?} although the source never reported end-of-file")),
    }
    if res.is_err() && !s.starts_with(&pre) {
        ck.fail("preexisting-lost", format!("string started with {pre:?}, returned {s:?} with {kind:?}"));
    }
}

// ---------------------------------------------------------------------------
// read_vectored_exact
// ---------------------------------------------------------------------------

fn p_rve(ch: &mut dyn Chooser, c: &mut Case) {
    c.cap = pick(ch, &caps(c.n));
    p_vectored(ch, c, c.cap);
    c.pre = ch.choose(4);
    c.native = ch.choose(2) == 1;
}

fn rve<R: Src, V: VShape>(c: &Case, ck: &mut Ck) {
    let ms = mk_members(&c.members, c.pre);
    let want: usize = ms.iter().map(|m| m.capacity()).sum();
    let mut r = R::make(reader(c));
    let BufResult(res, v) = go!(ck, r.read_vectored_exact(V::build(ms)));
    let filled = v.parts().concat();
    let core = r.core();
    ck.exact(&core.tape.log, core.tape.calls, core.pos, &core.data, want, &res, &filled);
}

pub fn vtags(c: &Case, ck: &mut Ck) {
    if c.native {
        ck.tag("native");
    }
    match c.pre {
        0 => {}
        1 => ck.tag("pre1"),
        2 => ck.tag("prefull"),
        _ => ck.tag("prelast"),
    }
}

fn read_vectored_exact(c: &Case, ck: &mut Ck) {
    vtags(c, ck);
    match (c.native, if c.members.len() == 2 { c.aux } else { 0 }) {
        (false, 0) => rve::<SR, Vec<Vec<u8>>>(c, ck),
        (false, 1) => rve::<SR, [Vec<u8>; 2]>(c, ck),
        (false, _) => rve::<SR, (Vec<u8>, (Vec<u8>, ()))>(c, ck),
        (true, 0) => rve::<SRV, Vec<Vec<u8>>>(c, ck),
        (true, 1) => rve::<SRV, [Vec<u8>; 2]>(c, ck),
        (true, _) => rve::<SRV, (Vec<u8>, (Vec<u8>, ()))>(c, ck),
    }
}

// ---------------------------------------------------------------------------
// BufReader
// ---------------------------------------------------------------------------

fn p_bufreader(ch: &mut dyn Chooser, c: &mut Case) {
    c.cap = pick(ch, &uniq(vec![0, 1, 2, c.n.saturating_sub(1), c.n, c.n + 1])); // BufReader capacity
    c.aux = pick(ch, &uniq(vec![1, 2, c.n.max(1), c.n + 1])); // per-read destination capacity / consume mode
}

fn bufreader_read(c: &Case, ck: &mut Ck) {
    if c.cap == 0 {
        ck.tag("bufcap0");
    }
    let mut br = BufReader::with_capacity(c.cap, SR(reader(c)));
    let mut got = Vec::new();
    let mut errs = Vec::new();
    let mut eof = false;
    for _ in 0..(2 * (c.script.len() + c.n) + 8) {
        let BufResult(res, d) = go!(ck, br.read(Vec::with_capacity(c.aux)));
        match res {
            Ok(0) => {
                eof = true;
                break;
            }
            Ok(k) => {
                if d.len() != k {
                    ck.fail("count-mismatch", format!("read reported {k}, buffer holds {}", d.len()));
                    return;
                }
                got.extend_from_slice(&d);
            }
            Err(e) => errs.push(e.kind()),
        }
    }
    let r = br.into_inner();
    ck.collected(&r.0.tape.log, r.0.tape.calls, r.0.delivered(), &got, &errs, eof, c.cap > 0);
}

fn bufreader_fill_consume(c: &Case, ck: &mut Ck) {
    if c.cap == 0 {
        ck.tag("bufcap0");
    }
    let mut br = BufReader::with_capacity(c.cap, SR(reader(c)));
    let mut got = Vec::new();
    let mut errs = Vec::new();
    let mut eof = false;
    for _ in 0..(2 * (c.script.len() + c.n) + 8) {
        let m = match go!(ck, br.fill_buf()) {
            Ok([]) => {
                eof = true;
                break;
            }
            Ok(s) => {
                if s.len() > c.cap {
                    ck.fail("buffer-exceeds-capacity", format!("fill_buf returned {} bytes with capacity {}", s.len(), c.cap));
                    return;
                }
                // consume mode: 1 -> one byte, 2 -> half (at least one), else all
                let m = match c.aux {
                    1 => 1,
                    2 => s.len().div_ceil(2),
                    _ => s.len(),
                };
                got.extend_from_slice(&s[..m]);
                m
            }
            Err(e) => {
                errs.push(e.kind());
                continue;
            }
        };
        br.consume(m);
    }
    let r = br.into_inner();
    ck.collected(&r.0.tape.log, r.0.tape.calls, r.0.delivered(), &got, &errs, eof, c.cap > 0);
}

fn p_bufreader_to_end(ch: &mut dyn Chooser, c: &mut Case) {
    c.cap = pick(ch, &uniq(vec![0, 1, 2, c.n.saturating_sub(1), c.n, c.n + 1]));
    c.pre = pick(ch, &[0, 2]);
}

fn bufreader_read_to_end(c: &Case, ck: &mut Ck) {
    if c.cap == 0 {
        ck.tag("bufcap0");
    }
    if c.pre > 0 {
        ck.tag("pre");
    }
    let pre = marks(c.pre);
    let mut br = BufReader::with_capacity(c.cap, SR(reader(c)));
    let BufResult(res, dest) = go!(ck, br.read_to_end(pre.clone()));
    let r = br.into_inner();
    ck.to_end(&r.0.tape.log, r.0.tape.calls, r.0.delivered(), &pre, &res, &dest, None, c.cap == 0);
}

fn p_bufreader_exact(ch: &mut dyn Chooser, c: &mut Case) {
    c.cap = pick(ch, &uniq(vec![1, 2, c.n.saturating_sub(1).max(1), c.n.max(1), c.n + 1]));
    c.aux = pick(ch, &caps(c.n));
    c.native = ch.choose(2) == 1; // vectored destination
    if c.native {
        c.members = pick_members(ch, c.aux, false);
    }
}

/// `read_exact` / `read_vectored_exact` through a `BufReader`: the buffered
/// reader may read ahead, so "consumed" is what the BufReader handed out.
fn bufreader_read_exact(c: &Case, ck: &mut Ck) {
    let mut br = BufReader::with_capacity(c.cap, SR(reader(c)));
    let (res, filled, want) = if c.native {
        ck.tag("vectored");
        let ms = mk_members(&c.members, 0);
        let want: usize = ms.iter().map(|m| m.capacity()).sum();
        let BufResult(res, v) = go!(ck, br.read_vectored_exact(ms));
        (res, v.concat(), want)
    } else {
        let dest = Vec::with_capacity(c.aux);
        let want = dest.capacity();
        let BufResult(res, v) = go!(ck, br.read_exact(dest));
        (res, v, want)
    };
    let r = br.into_inner();
    let core = &r.0;
    ck.note_log(&core.tape.log, core.tape.calls);
    let term = super::terminal(&core.tape.log);
    match (&res, term) {
        (Ok(()), _) => {
            if filled != core.data[..want.min(core.data.len())] || filled.len() != want {
                ck.fail("content-mismatch", format!("destination {:?} != source prefix of length {want}", filled));
            }
        }
        (Err(e), Some((_, ev))) => {
            let wantk = match ev {
                Ev::Err(k) => KINDS[k as usize],
                _ => ErrorKind::UnexpectedEof,
            };
            if e.kind() != wantk {
                ck.fail("wrong-error-kind", format!("stream returned {ev:?}: expected {wantk:?}, got {:?}", e.kind()));
            }
        }
        (Err(e), None) => ck.fail("spurious-error", format!("no failing stream call, helper returned {:?}", e.kind())),
    }
}

// ---------------------------------------------------------------------------
// Take
// ---------------------------------------------------------------------------

fn p_take(ch: &mut dyn Chooser, c: &mut Case) {
    c.pos = pick(ch, &uniq(vec![0, 1, c.n.saturating_sub(1), c.n, c.n + 1])) as u64; // limit
    c.cap = pick(ch, &uniq(vec![0, 1, c.n, 2 * c.n + 1])); // destination capacity
}

fn take_read_to_end(c: &Case, ck: &mut Ck) {
    let limit = c.pos as usize;
    let mut t = SR(reader(c)).take(c.pos);
    let BufResult(res, dest) = go!(ck, t.read_to_end(Vec::with_capacity(c.cap)));
    let left = t.limit();
    let r = t.into_inner();
    ck.to_end(&r.0.tape.log, r.0.tape.calls, r.0.delivered(), &[], &res, &dest, Some(limit), false);
    if left != (limit - r.0.pos.min(limit)) as u64 {
        ck.fail("limit-accounting", format!("limit {limit}, {} bytes read, remaining limit reported {left}", r.0.pos));
    }
}

fn take_read_exact(c: &Case, ck: &mut Ck) {
    let limit = c.pos as usize;
    let mut t = SR(reader(c)).take(c.pos);
    let dest = Vec::with_capacity(c.cap);
    let want = dest.capacity();
    let BufResult(res, dest) = go!(ck, t.read_exact(dest));
    let r = t.into_inner();
    let core = &r.0;
    if want <= limit {
        ck.exact(&core.tape.log, core.tape.calls, core.pos, &core.data, want, &res, &dest);
    } else {
        ck.tag("cap>limit");
        ck.note_log(&core.tape.log, core.tape.calls);
        if core.pos > limit {
            ck.fail("over-read", format!("{} bytes taken from the source with limit {limit}", core.pos));
        }
        // the limit ends the stream before the buffer is full unless the source failed first
        let wantk = match super::terminal(&core.tape.log) {
            Some((_, Ev::Err(k))) => KINDS[k as usize],
            _ => ErrorKind::UnexpectedEof,
        };
        match &res {
            Ok(()) => ck.fail("error-swallowed", format!("Ok(()) for a buffer of {want} behind a limit of {limit}")),
            Err(e) if e.kind() != wantk => ck.fail("wrong-error-kind", format!("expected {wantk:?}, got {:?}", e.kind())),
            _ => {}
        }
    }
}

fn p_take_buf(ch: &mut dyn Chooser, c: &mut Case) {
    c.pos = pick(ch, &uniq(vec![0, 1, c.n.saturating_sub(1), c.n, c.n + 1])) as u64;
    c.cap = pick(ch, &uniq(vec![1, 2, c.n.max(1), c.n + 1]));
    c.aux = ch.choose(3);
}

fn take_bufread(c: &Case, ck: &mut Ck) {
    let limit = c.pos as usize;
    let mut t = BufReader::with_capacity(c.cap, SR(reader(c))).take(c.pos);
    let mut got = Vec::new();
    let mut errs = Vec::new();
    let mut eof = false;
    for _ in 0..(2 * (c.script.len() + c.n) + 8) {
        let m = match go!(ck, t.fill_buf()) {
            Ok([]) => {
                eof = true;
                break;
            }
            Ok(s) => {
                let m = match c.aux {
                    0 => 1,
                    1 => s.len().div_ceil(2),
                    _ => s.len(),
                };
                got.extend_from_slice(&s[..m]);
                m
            }
            Err(e) => {
                errs.push(e.kind());
                continue;
            }
        };
        t.consume(m);
    }
    let r = t.into_inner().into_inner();
    let core = &r.0;
    if got.len() > limit {
        ck.fail("over-read", format!("{} bytes handed out with limit {limit}", got.len()));
    }
    let hit_limit = got.len() == limit;
    // the BufReader may have read ahead of the limit: compare with the source
    let delivered = &core.data[..core.pos];
    let cmp = if hit_limit { &delivered[..limit.min(delivered.len())] } else { delivered };
    if hit_limit && !delivered.starts_with(&got) {
        ck.fail("content-mismatch", format!("collected {got:?} is not a prefix of delivered {delivered:?}"));
        return;
    }
    ck.collected(&core.tape.log, core.tape.calls, cmp, &got, &errs, eof && !hit_limit, true);
}

// ---------------------------------------------------------------------------
// split
// ---------------------------------------------------------------------------

fn p_split(ch: &mut dyn Chooser, c: &mut Case) {
    c.aux = ch.choose(2);
    c.pre = pick(ch, &[0, 2]);
}

fn split_halves(c: &Case, ck: &mut Ck) {
    let pre = marks(c.pre);
    if c.pre > 0 {
        ck.tag("pre");
    }
    let src = super::payload(c.n, 0);
    let d = Duplex {
        r: reader(c),
        w: writer(c, true),
    };
    let (mut rh, mut wh) = compio_io::split(d);
    let (rres, wres) = if c.aux == 0 {
        let a = go!(ck, rh.read_to_end(pre.clone()));
        let b = go!(ck, wh.write_all(src.clone()));
        (a, b)
    } else {
        ck.variant("joined");
        go!(ck, futures_util::future::join(rh.read_to_end(pre.clone()), wh.write_all(src.clone())))
    };
    let Some(d) = rh.try_unsplit(wh) else {
        ck.fail("unsplit-failed", "halves of one split do not reunite".into());
        return;
    };
    let BufResult(res, dest) = rres;
    ck.to_end(&d.r.tape.log, d.r.tape.calls, d.r.delivered(), &pre, &res, &dest, None, false);
    let BufResult(res, back) = wres;
    ck.wexact(&d.w.tape.log, d.w.tape.calls, &d.w.accepted, &src, &res);
    if back != src {
        ck.fail("source-buffer-changed", format!("write_all returned {back:?} for {src:?}"));
    }
}

// ---------------------------------------------------------------------------
// positional
// ---------------------------------------------------------------------------

fn p_at(ch: &mut dyn Chooser, c: &mut Case) {
    c.cap = pick(ch, &caps(c.n));
    c.pos = pick(ch, &uniq(vec![0, 1, c.n.saturating_sub(1), c.n, c.n + 1])) as u64;
    c.pre = pick(ch, &[0, 2]);
}

/// Reads of a positional helper must be contiguous from `pos`.
fn contiguous(ck: &mut Ck, reads: &[(u64, usize)], pos: u64) {
    let mut at = pos;
    for (p, k) in reads {
        if *p != at {
            ck.fail("position-not-advanced", format!("reads at (pos,len) {reads:?} starting from {pos}"));
            return;
        }
        at += *k as u64;
    }
}

fn at_tags(c: &Case, ck: &mut Ck) {
    if c.pos as usize > c.n {
        ck.tag("beyond-end");
    } else if c.pos > 0 {
        ck.variant("offset");
    }
}

fn read_exact_at(c: &Case, ck: &mut Ck) {
    at_tags(c, ck);
    let r = SRA::new(super::payload(c.n, 0), c.script.clone());
    let dest = Vec::with_capacity(c.cap);
    let want = dest.capacity();
    let BufResult(res, dest) = go!(ck, r.read_exact_at(dest, c.pos));
    let start = (c.pos as usize).min(c.n);
    let tape = r.tape.borrow();
    let reads = r.reads.borrow();
    let delivered: usize = reads.iter().map(|x| x.1).sum();
    contiguous(ck, &reads, c.pos);
    ck.exact(&tape.log, tape.calls, delivered, &r.data[start..], want, &res, &dest);
}

fn read_to_end_at(c: &Case, ck: &mut Ck) {
    at_tags(c, ck);
    if c.pre > 0 {
        ck.tag("pre");
    }
    let pre = marks(c.pre);
    let r = SRA::new(super::payload(c.n, 0), c.script.clone());
    let mut dest = Vec::with_capacity(c.pre + c.cap);
    dest.extend_from_slice(&pre);
    let BufResult(res, dest) = go!(ck, r.read_to_end_at(dest, c.pos));
    let start = (c.pos as usize).min(c.n);
    let tape = r.tape.borrow();
    let reads = r.reads.borrow();
    let delivered: usize = reads.iter().map(|x| x.1).sum();
    contiguous(ck, &reads, c.pos);
    ck.to_end(&tape.log, tape.calls, &r.data[start..start + delivered.min(c.n - start)], &pre, &res, &dest, None, false);
}

fn p_rve_at(ch: &mut dyn Chooser, c: &mut Case) {
    c.cap = pick(ch, &caps(c.n));
    c.members = pick_members(ch, c.cap, false);
    c.pos = pick(ch, &uniq(vec![0, 1, c.n, c.n + 1])) as u64;
    c.pre = pick(ch, &[0, 2]);
}

fn read_vectored_exact_at(c: &Case, ck: &mut Ck) {
    at_tags(c, ck);
    vtags(c, ck);
    let r = SRA::new(super::payload(c.n, 0), c.script.clone());
    let ms = mk_members(&c.members, c.pre);
    let want: usize = ms.iter().map(|m| m.capacity()).sum();
    let BufResult(res, v) = go!(ck, r.read_vectored_exact_at(ms, c.pos));
    let start = (c.pos as usize).min(c.n);
    let tape = r.tape.borrow();
    let reads = r.reads.borrow();
    let delivered: usize = reads.iter().map(|x| x.1).sum();
    contiguous(ck, &reads, c.pos);
    ck.exact(&tape.log, tape.calls, delivered, &r.data[start..], want, &res, &v.concat());
}

pub fn register(v: &mut Vec<Helper>) {
    let mut add = |name, params, run| {
        v.push(Helper {
            name,
            scripts: 1,
            params,
            run,
        })
    };
    add("read_exact/vec", p_cap_pre, read_exact_vec);
    add("read_exact/box", p_cap_pre, read_exact_box);
    add("read_exact/slice", p_slice, read_exact_slice);
    add("append/loop", p_cap_pre, append_loop);
    add("read_to_end/vec", p_to_end, read_to_end_vec);
    add("read_to_string", p_to_string, read_to_string);
    add("read_vectored_exact", p_rve, read_vectored_exact);
    add("bufreader/read", p_bufreader, bufreader_read);
    add("bufreader/fill_consume", p_bufreader, bufreader_fill_consume);
    add("bufreader/read_to_end", p_bufreader_to_end, bufreader_read_to_end);
    add("bufreader/read_exact", p_bufreader_exact, bufreader_read_exact);
    add("take/read_to_end", p_take, take_read_to_end);
    add("take/read_exact", p_take, take_read_exact);
    add("take/bufread", p_take_buf, take_bufread);
    add("read_exact_at", p_at, read_exact_at);
    add("read_to_end_at", p_at, read_to_end_at);
    add("read_vectored_exact_at", p_rve_at, read_vectored_exact_at);
    v.push(Helper {
        name: "split/read_to_end+write_all",
        scripts: 3,
        params: p_split,
        run: split_halves,
    });
}
