//! Scripted in-memory streams for C11.
//!
//! Every call of `read`/`write`(`_at`/`_vectored`) consumes one step of a
//! script: transfer at most k bytes, fail with `Interrupted`, fail with
//! another error kind, or return `Ok(0)`. Everything that happens is logged
//! (`Ev`) together with the bytes delivered / accepted, so that the oracle is
//! a function of what the stream really did, not of how a helper is expected
//! to call it.
//!
//! The streams record the transfer the way compio's own readers do: copy into
//! `as_uninit()`, then `advance_to(n)` (`advance_vec_to(n)` for a native
//! vectored read).

use std::{
    cell::RefCell,
    io::{self, ErrorKind},
    mem::MaybeUninit,
};

use compio_buf::{
    BufResult, IoBuf, IoBufExt, IoBufMut, IoBufMutExt, IoVectoredBuf, IoVectoredBufMut, SetLenExt,
};
use compio_io::{AsyncRead, AsyncReadAt, AsyncWrite, AsyncWriteAt};
use serde::{Deserialize, Serialize};

/// Marker of the panic raised by a stream that is called more often than any
/// terminating helper could (always-ready futures: an endless loop never
/// returns to the executor, so the bound has to sit in the stream).
pub const LIMIT_MARK: &str = "C11-STEP-BOUND";

/// Injected "other" error kinds by index.
pub const KINDS: [ErrorKind; 6] = [
    ErrorKind::ConnectionReset,
    ErrorKind::WouldBlock,
    ErrorKind::BrokenPipe,
    ErrorKind::UnexpectedEof,
    ErrorKind::WriteZero,
    ErrorKind::InvalidData,
];

#[derive(Clone, Copy, Debug, PartialEq, Eq, Serialize, Deserialize)]
pub enum Step {
    /// Transfer at most this many bytes (>= 1). A smaller request splits the
    /// chunk; the rest is carried to the next call.
    X(usize),
    /// `Err(Interrupted)`, nothing transferred.
    I,
    /// `Err(KINDS[i])`, nothing transferred.
    E(u8),
    /// `Ok(0)`: early end-of-file (reader) / write-zero (writer).
    Z,
}

#[derive(Clone, Copy, Debug, PartialEq, Eq)]
pub enum Ev {
    Data(usize),
    Intr,
    Err(u8),
    /// `Ok(0)` by script step or natural end of data.
    Zero,
    /// `Ok(0)` because the request had no room / was empty.
    ZeroCap,
}

#[derive(Debug)]
pub struct Tape {
    steps: Vec<Step>,
    at: usize,
    carry: usize,
    pub log: Vec<Ev>,
    pub calls: usize,
    limit: usize,
}

impl Tape {
    pub fn new(steps: Vec<Step>, n: usize) -> Self {
        let limit = 4 * (steps.len() + n) + 64;
        Self {
            steps,
            at: 0,
            carry: 0,
            log: Vec::new(),
            calls: 0,
            limit,
        }
    }

    /// One call. `room`: capacity (read) or length (write) of the request;
    /// `avail`: bytes the source still has (`usize::MAX` for a writer).
    fn next(&mut self, room: usize, avail: usize, writer: bool) -> Ev {
        self.calls += 1;
        if self.calls > self.limit {
            panic!("{LIMIT_MARK}: stream called {} times", self.calls);
        }
        let ev = if room == 0 {
            Ev::ZeroCap
        } else if self.carry > 0 {
            let t = self.carry.min(room).min(avail);
            if t == 0 {
                self.carry = 0;
                Ev::Zero
            } else {
                self.carry -= t;
                Ev::Data(t)
            }
        } else if self.at < self.steps.len() {
            let s = self.steps[self.at];
            self.at += 1;
            match s {
                Step::X(k) => {
                    let k = k.max(1);
                    let t = k.min(room).min(avail);
                    if t == 0 {
                        Ev::Zero
                    } else {
                        self.carry = k - t;
                        Ev::Data(t)
                    }
                }
                Step::I => Ev::Intr,
                Step::E(k) => Ev::Err(k % KINDS.len() as u8),
                Step::Z => Ev::Zero,
            }
        } else if writer {
            Ev::Data(room)
        } else if avail > 0 {
            Ev::Data(room.min(avail))
        } else {
            Ev::Zero
        };
        self.log.push(ev);
        ev
    }
}

fn fault(ev: Ev) -> io::Error {
    match ev {
        Ev::Intr => io::Error::from(ErrorKind::Interrupted),
        Ev::Err(k) => io::Error::from(KINDS[k as usize]),
        _ => unreachable!(),
    }
}

/// Copy `src` to the start of the writable area and record it like compio's
/// own readers (`slice_to_buf`): `advance_to(len)`.
fn put<B: IoBufMut + ?Sized>(buf: &mut B, src: &[u8]) {
    let dst: &mut [MaybeUninit<u8>] = buf.as_uninit();
    assert!(src.len() <= dst.len(), "scripted reader: request smaller than transfer");
    for (d, s) in dst.iter_mut().zip(src) {
        d.write(*s);
    }
    unsafe { buf.advance_to(src.len()) };
}

// ---------------------------------------------------------------------------
// Readers
// ---------------------------------------------------------------------------

#[derive(Debug)]
pub struct RCore {
    pub data: Vec<u8>,
    pub pos: usize,
    pub tape: Tape,
    /// Capacities the helper offered, per call.
    pub rooms: Vec<usize>,
}

impl RCore {
    pub fn new(data: Vec<u8>, steps: Vec<Step>) -> Self {
        let n = data.len();
        Self {
            data,
            pos: 0,
            tape: Tape::new(steps, n),
            rooms: Vec::new(),
        }
    }

    pub fn delivered(&self) -> &[u8] {
        &self.data[..self.pos]
    }

    fn read<B: IoBufMut>(&mut self, mut buf: B) -> BufResult<usize, B> {
        let room = buf.buf_capacity();
        self.rooms.push(room);
        match self.tape.next(room, self.data.len() - self.pos, false) {
            Ev::Data(t) => {
                put(&mut buf, &self.data[self.pos..self.pos + t]);
                self.pos += t;
                BufResult(Ok(t), buf)
            }
            Ev::Zero | Ev::ZeroCap => BufResult(Ok(0), buf),
            ev => BufResult(Err(fault(ev)), buf),
        }
    }

    /// Scatter over all members, then `advance_vec_to` like `&[u8]`.
    fn readv<V: IoVectoredBufMut>(&mut self, mut buf: V) -> BufResult<usize, V> {
        let room = buf.total_capacity();
        self.rooms.push(room);
        match self.tape.next(room, self.data.len() - self.pos, false) {
            Ev::Data(t) => {
                let mut src = &self.data[self.pos..self.pos + t];
                for m in buf.iter_uninit_slice() {
                    let k = m.len().min(src.len());
                    for (d, s) in m.iter_mut().zip(&src[..k]) {
                        d.write(*s);
                    }
                    src = &src[k..];
                    if src.is_empty() {
                        break;
                    }
                }
                unsafe { buf.advance_vec_to(t) };
                self.pos += t;
                BufResult(Ok(t), buf)
            }
            Ev::Zero | Ev::ZeroCap => BufResult(Ok(0), buf),
            ev => BufResult(Err(fault(ev)), buf),
        }
    }
}

/// Scripted reader with the trait's default `read_vectored`.
#[derive(Debug)]
pub struct SR(pub RCore);

impl AsyncRead for SR {
    async fn read<B: IoBufMut>(&mut self, buf: B) -> BufResult<usize, B> {
        self.0.read(buf)
    }
}

/// Scripted reader with a native scattering `read_vectored`.
#[derive(Debug)]
pub struct SRV(pub RCore);

impl AsyncRead for SRV {
    async fn read<B: IoBufMut>(&mut self, buf: B) -> BufResult<usize, B> {
        self.0.read(buf)
    }

    async fn read_vectored<V: IoVectoredBufMut>(&mut self, buf: V) -> BufResult<usize, V> {
        self.0.readv(buf)
    }
}

pub trait Src: AsyncRead + Sized {
    fn make(core: RCore) -> Self;
    fn core(&self) -> &RCore;
}

impl Src for SR {
    fn make(core: RCore) -> Self {
        SR(core)
    }

    fn core(&self) -> &RCore {
        &self.0
    }
}

impl Src for SRV {
    fn make(core: RCore) -> Self {
        SRV(core)
    }

    fn core(&self) -> &RCore {
        &self.0
    }
}

/// Positional scripted reader (default `read_vectored_at`).
#[derive(Debug)]
pub struct SRA {
    pub data: Vec<u8>,
    pub tape: RefCell<Tape>,
    /// (position, bytes delivered) per successful transfer.
    pub reads: RefCell<Vec<(u64, usize)>>,
}

impl SRA {
    pub fn new(data: Vec<u8>, steps: Vec<Step>) -> Self {
        let n = data.len();
        Self {
            data,
            tape: RefCell::new(Tape::new(steps, n)),
            reads: RefCell::new(Vec::new()),
        }
    }
}

impl AsyncReadAt for SRA {
    async fn read_at<T: IoBufMut>(&self, mut buf: T, pos: u64) -> BufResult<usize, T> {
        let room = buf.buf_capacity();
        let start = (pos.min(self.data.len() as u64)) as usize;
        let ev = self.tape.borrow_mut().next(room, self.data.len() - start, false);
        match ev {
            Ev::Data(t) => {
                put(&mut buf, &self.data[start..start + t]);
                self.reads.borrow_mut().push((pos, t));
                BufResult(Ok(t), buf)
            }
            Ev::Zero | Ev::ZeroCap => BufResult(Ok(0), buf),
            ev => BufResult(Err(fault(ev)), buf),
        }
    }
}

// ---------------------------------------------------------------------------
// Writers
// ---------------------------------------------------------------------------

#[derive(Debug)]
pub struct WCore {
    pub accepted: Vec<u8>,
    pub tape: Tape,
    pub flushes: usize,
    pub shutdowns: usize,
    /// Lengths the helper offered, per call.
    pub rooms: Vec<usize>,
}

impl WCore {
    pub fn new(steps: Vec<Step>, n: usize) -> Self {
        Self {
            accepted: Vec::new(),
            tape: Tape::new(steps, n),
            flushes: 0,
            shutdowns: 0,
            rooms: Vec::new(),
        }
    }

    fn write<T: IoBuf>(&mut self, buf: T) -> BufResult<usize, T> {
        let room = buf.buf_len();
        self.rooms.push(room);
        match self.tape.next(room, usize::MAX, true) {
            Ev::Data(t) => {
                self.accepted.extend_from_slice(&buf.as_init()[..t]);
                BufResult(Ok(t), buf)
            }
            Ev::Zero | Ev::ZeroCap => BufResult(Ok(0), buf),
            ev => BufResult(Err(fault(ev)), buf),
        }
    }

    /// Gather over all members.
    fn writev<T: IoVectoredBuf>(&mut self, buf: T) -> BufResult<usize, T> {
        let room = buf.total_len();
        self.rooms.push(room);
        match self.tape.next(room, usize::MAX, true) {
            Ev::Data(t) => {
                let mut left = t;
                for m in buf.iter_slice() {
                    let k = m.len().min(left);
                    self.accepted.extend_from_slice(&m[..k]);
                    left -= k;
                    if left == 0 {
                        break;
                    }
                }
                BufResult(Ok(t), buf)
            }
            Ev::Zero | Ev::ZeroCap => BufResult(Ok(0), buf),
            ev => BufResult(Err(fault(ev)), buf),
        }
    }
}

/// Scripted writer with the trait's default `write_vectored`.
#[derive(Debug)]
pub struct SW(pub WCore);

impl AsyncWrite for SW {
    async fn write<T: IoBuf>(&mut self, buf: T) -> BufResult<usize, T> {
        self.0.write(buf)
    }

    async fn flush(&mut self) -> io::Result<()> {
        self.0.flushes += 1;
        Ok(())
    }

    async fn shutdown(&mut self) -> io::Result<()> {
        self.0.shutdowns += 1;
        Ok(())
    }
}

/// Scripted writer with a native gathering `write_vectored`.
#[derive(Debug)]
pub struct SWV(pub WCore);

impl AsyncWrite for SWV {
    async fn write<T: IoBuf>(&mut self, buf: T) -> BufResult<usize, T> {
        self.0.write(buf)
    }

    async fn write_vectored<T: IoVectoredBuf>(&mut self, buf: T) -> BufResult<usize, T> {
        self.0.writev(buf)
    }

    async fn flush(&mut self) -> io::Result<()> {
        self.0.flushes += 1;
        Ok(())
    }

    async fn shutdown(&mut self) -> io::Result<()> {
        self.0.shutdowns += 1;
        Ok(())
    }
}

pub trait Dst: AsyncWrite + Sized {
    fn make(core: WCore) -> Self;
    fn core(&self) -> &WCore;
}

impl Dst for SW {
    fn make(core: WCore) -> Self {
        SW(core)
    }

    fn core(&self) -> &WCore {
        &self.0
    }
}

impl Dst for SWV {
    fn make(core: WCore) -> Self {
        SWV(core)
    }

    fn core(&self) -> &WCore {
        &self.0
    }
}

/// Positional scripted writer with file semantics (a write beyond the end
/// zero-fills the gap), default `write_vectored_at`.
#[derive(Debug)]
pub struct SWA {
    pub store: Vec<u8>,
    pub tape: Tape,
    pub writes: Vec<(u64, usize)>,
}

impl SWA {
    pub fn new(store: Vec<u8>, steps: Vec<Step>, n: usize) -> Self {
        Self {
            store,
            tape: Tape::new(steps, n),
            writes: Vec::new(),
        }
    }
}

/// File-like positional write into a `Vec` (the reference model, also used by
/// the oracle).
pub fn model_write_at(store: &mut Vec<u8>, pos: usize, data: &[u8]) {
    if data.is_empty() {
        return;
    }
    if store.len() < pos + data.len() {
        store.resize(pos + data.len(), 0);
    }
    store[pos..pos + data.len()].copy_from_slice(data);
}

impl AsyncWriteAt for SWA {
    async fn write_at<T: IoBuf>(&mut self, buf: T, pos: u64) -> BufResult<usize, T> {
        let room = buf.buf_len();
        match self.tape.next(room, usize::MAX, true) {
            Ev::Data(t) => {
                model_write_at(&mut self.store, pos as usize, &buf.as_init()[..t]);
                self.writes.push((pos, t));
                BufResult(Ok(t), buf)
            }
            Ev::Zero | Ev::ZeroCap => BufResult(Ok(0), buf),
            ev => BufResult(Err(fault(ev)), buf),
        }
    }
}

// ---------------------------------------------------------------------------
// Duplex (for split)
// ---------------------------------------------------------------------------

#[derive(Debug)]
pub struct Duplex {
    pub r: RCore,
    pub w: WCore,
}

impl AsyncRead for Duplex {
    async fn read<B: IoBufMut>(&mut self, buf: B) -> BufResult<usize, B> {
        self.r.read(buf)
    }
}

impl AsyncWrite for Duplex {
    async fn write<T: IoBuf>(&mut self, buf: T) -> BufResult<usize, T> {
        self.w.write(buf)
    }

    async fn flush(&mut self) -> io::Result<()> {
        self.w.flushes += 1;
        Ok(())
    }

    async fn shutdown(&mut self) -> io::Result<()> {
        self.w.shutdowns += 1;
        Ok(())
    }
}
