//! C11: write-side helpers over scripted writers, and `copy`.

use std::io::ErrorKind;

use compio_buf::{BufResult, IntoInner, IoBufExt};
use compio_io::{AsyncWrite, AsyncWriteAtExt, AsyncWriteExt, BufWriter, util::copy_with_size};

use super::{
    Case, Ck, Helper, marks, payload, pick, pick_members, reader,
    rd::{VShape, cut},
    streams::*,
    terminal, uniq, writer,
};
use crate::{c11_go as go, choose::Chooser};

// ---------------------------------------------------------------------------
// write_all
// ---------------------------------------------------------------------------

fn p_write_all(ch: &mut dyn Chooser, c: &mut Case) {
    c.aux = ch.choose(4); // source buffer kind
    if c.aux == 3 {
        c.pos = pick(ch, &[0, 1, 3]) as u64;
    }
}

fn write_all(c: &Case, ck: &mut Ck) {
    let src = payload(c.n, if c.aux == 2 { 2 } else { 0 });
    let mut w = SW(writer(c, false));
    let (res, back): (_, Vec<u8>) = match c.aux {
        0 => {
            let BufResult(res, b) = go!(ck, w.write_all(src.clone()));
            (res, b)
        }
        1 => {
            ck.variant("box");
            let BufResult(res, b) = go!(ck, w.write_all(src.clone().into_boxed_slice()));
            (res, b.into_vec())
        }
        2 => {
            ck.variant("string");
            let BufResult(res, b) = go!(ck, w.write_all(String::from_utf8(src.clone()).expect("valid text")));
            (res, b.into_bytes())
        }
        _ => {
            ck.variant("slice");
            let pos = c.pos as usize;
            let mut inner = marks(pos);
            inner.extend_from_slice(&src);
            inner.extend_from_slice(&marks(2));
            let whole = inner.clone();
            let BufResult(res, b) = go!(ck, w.write_all(inner.slice(pos..pos + c.n)));
            let inner = b.into_inner();
            if inner != whole {
                ck.fail("source-buffer-changed", format!("buffer behind the slice changed: {whole:?} -> {inner:?}"));
            }
            (res, inner[pos..pos + c.n].to_vec())
        }
    };
    ck.wexact(&w.0.tape.log, w.0.tape.calls, &w.0.accepted, &src, &res);
    if back != src {
        ck.fail("source-buffer-changed", format!("write_all returned {back:?} for {src:?}"));
    }
}

// ---------------------------------------------------------------------------
// write_vectored_all
// ---------------------------------------------------------------------------

fn p_wva(ch: &mut dyn Chooser, c: &mut Case) {
    c.aux = ch.choose(3);
    c.members = pick_members(ch, c.n, c.aux != 0);
    c.native = ch.choose(2) == 1;
    c.pre = ch.choose(2); // members have spare capacity
}

fn src_members(c: &Case, src: &[u8]) -> Vec<Vec<u8>> {
    let mut ms = cut(src, &c.members);
    if c.pre > 0 {
        for m in ms.iter_mut() {
            m.reserve(3);
        }
    }
    ms
}

fn wva<W: Dst, V: VShape>(c: &Case, ck: &mut Ck) {
    let src = payload(c.n, 0);
    let ms = src_members(c, &src);
    let mut w = W::make(writer(c, false));
    let BufResult(res, v) = go!(ck, w.write_vectored_all(V::build(ms.clone())));
    let core = w.core();
    ck.wexact(&core.tape.log, core.tape.calls, &core.accepted, &src, &res);
    if v.parts() != ms {
        ck.fail("source-buffer-changed", "write_vectored_all returned different members".into());
    }
}

fn write_vectored_all(c: &Case, ck: &mut Ck) {
    if c.native {
        ck.tag("native");
    }
    if c.pre > 0 {
        ck.variant("spare");
    }
    match (c.native, if c.members.len() == 2 { c.aux } else { 0 }) {
        (false, 0) => wva::<SW, Vec<Vec<u8>>>(c, ck),
        (false, 1) => wva::<SW, [Vec<u8>; 2]>(c, ck),
        (false, _) => wva::<SW, (Vec<u8>, (Vec<u8>, ()))>(c, ck),
        (true, 0) => wva::<SWV, Vec<Vec<u8>>>(c, ck),
        (true, 1) => wva::<SWV, [Vec<u8>; 2]>(c, ck),
        (true, _) => wva::<SWV, (Vec<u8>, (Vec<u8>, ()))>(c, ck),
    }
}

// ---------------------------------------------------------------------------
// positional
// ---------------------------------------------------------------------------

fn p_wat(ch: &mut dyn Chooser, c: &mut Case) {
    c.pre = pick(ch, &uniq(vec![0, 1, c.n, c.n + 2])); // length of the existing store
    c.pos = pick(ch, &uniq(vec![0, 1, c.pre.saturating_sub(1), c.pre, c.pre + 1, c.pre + 3])) as u64;
    c.aux = ch.choose(2); // vectored
    if c.aux == 1 {
        c.members = pick_members(ch, c.n, false);
    }
}

fn write_all_at(c: &Case, ck: &mut Ck) {
    let src = payload(c.n, 0);
    let store = marks(c.pre);
    if c.pos as usize > c.pre {
        ck.tag("beyond-end");
    } else if c.pos > 0 {
        ck.variant("offset");
    }
    let mut w = SWA::new(store.clone(), c.script.clone(), c.n);
    let res = if c.aux == 1 {
        ck.tag("vectored");
        let ms = cut(&src, &c.members);
        let BufResult(res, v) = go!(ck, w.write_vectored_all_at(ms.clone(), c.pos));
        if v != ms {
            ck.fail("source-buffer-changed", "write_vectored_all_at returned different members".into());
        }
        res
    } else {
        let BufResult(res, b) = go!(ck, w.write_all_at(src.clone(), c.pos));
        if b != src {
            ck.fail("source-buffer-changed", format!("write_all_at returned {b:?} for {src:?}"));
        }
        res
    };
    let total: usize = w.writes.iter().map(|x| x.1).sum();
    // the stream stored what it was given where it was told to: compare with
    // the model that received the first `total` bytes contiguously
    let mut model = store;
    model_write_at(&mut model, c.pos as usize, &src[..total.min(c.n)]);
    let mut at = c.pos;
    for (p, k) in &w.writes {
        if *p != at {
            ck.fail("position-not-advanced", format!("writes at (pos,len) {:?} starting from {}", w.writes, c.pos));
            return;
        }
        at += *k as u64;
    }
    if total > c.n || w.store != model {
        ck.fail("content-mismatch", format!("store {:?} != model {:?} ({total} bytes accepted)", w.store, model));
        return;
    }
    ck.wexact(&w.tape.log, w.tape.calls, &src[..total], &src, &res);
}

// ---------------------------------------------------------------------------
// BufWriter
// ---------------------------------------------------------------------------

fn p_bufwriter(ch: &mut dyn Chooser, c: &mut Case) {
    c.cap = pick(ch, &uniq(vec![0, 1, 2, 3, c.n.saturating_sub(1), c.n, c.n + 1, 2 * c.n + 1])); // BufWriter capacity
    c.aux = pick(ch, &uniq(vec![1, 2, c.n.max(1)])); // piece size handed to the BufWriter
    c.text = ch.choose(3) as u8; // 0: write_all, 1: write loop honouring counts, 2: write_vectored_all
}

/// Error kinds the inner writer produced, as the caller may see them.
fn wfaults(log: &[Ev]) -> Vec<ErrorKind> {
    log.iter()
        .filter_map(|e| match e {
            Ev::Intr => Some(ErrorKind::Interrupted),
            Ev::Err(k) => Some(KINDS[*k as usize]),
            Ev::Zero => Some(ErrorKind::WriteZero),
            _ => None,
        })
        .collect()
}

fn bufwriter(c: &Case, ck: &mut Ck) {
    if c.cap == 0 {
        ck.tag("bufcap0");
    }
    let src = payload(c.n, 0);
    let mut bw = BufWriter::with_capacity(c.cap, SW(writer(c, false)));
    let mut seen: Vec<ErrorKind> = Vec::new(); // every error the caller saw, in order
    let mut ok_bytes = 0; // bytes the BufWriter reported as taken
    let mut stopped = false;
    let piece = c.aux.max(1);
    let budget = 4 * (c.script.len() + c.n) + 16;
    let mut steps = 0;
    match c.text {
        0 => {
            ck.tag("write_all");
            for p in src.chunks(piece) {
                let BufResult(res, _) = go!(ck, bw.write_all(p.to_vec()));
                match res {
                    Ok(()) => ok_bytes += p.len(),
                    Err(e) => {
                        seen.push(e.kind());
                        stopped = true;
                        break;
                    }
                }
            }
        }
        1 => {
            ck.tag("write");
            // `write` reports how much it took; Interrupted = nothing taken, retry
            let mut at = 0;
            while at < src.len() && steps < budget {
                steps += 1;
                let end = (at + piece).min(src.len());
                let BufResult(res, _) = go!(ck, bw.write(src[at..end].to_vec()));
                match res {
                    Ok(0) => {
                        seen.push(ErrorKind::WriteZero);
                        stopped = true;
                        break;
                    }
                    Ok(k) => {
                        if k > end - at {
                            ck.fail("count-mismatch", format!("write reported {k} for a buffer of {}", end - at));
                            return;
                        }
                        at += k;
                        ok_bytes += k;
                    }
                    Err(e) if e.kind() == ErrorKind::Interrupted => seen.push(e.kind()),
                    Err(e) => {
                        seen.push(e.kind());
                        stopped = true;
                        break;
                    }
                }
            }
        }
        _ => {
            ck.tag("write_vectored_all");
            let lens: Vec<usize> = src.chunks(piece).map(|p| p.len()).collect();
            let BufResult(res, _) = go!(ck, bw.write_vectored_all(cut(&src, &lens)));
            match res {
                Ok(()) => ok_bytes = src.len(),
                Err(e) => {
                    seen.push(e.kind());
                    stopped = true;
                }
            }
        }
    }
    // flush, retrying after every error (each scripted fault happens once)
    let mut flushed = false;
    for _ in 0..(c.script.len() + 3) {
        match go!(ck, bw.flush()) {
            Ok(()) => {
                flushed = true;
                break;
            }
            Err(e) => seen.push(e.kind()),
        }
    }
    let w = bw.into_inner();
    let core = &w.0;
    ck.note_log(&core.tape.log, core.tape.calls);
    if !src.starts_with(&core.accepted) {
        let rule = if core.accepted.len() > src.len() || has_dup(&core.accepted, &src) { "duplicated-bytes" } else { "content-mismatch" };
        ck.fail(rule, format!("inner writer received {:?}, caller wrote {:?}", core.accepted, src));
        return;
    }
    if !flushed {
        ck.fail("flush-never-succeeds", format!("flush failed {} times in a row with {seen:?}; inner log {:?}", c.script.len() + 3, core.tape.log));
        return;
    }
    if core.accepted.len() < ok_bytes {
        ck.fail("lost-bytes", format!("BufWriter took {ok_bytes} bytes, only {} reached the inner writer after flush", core.accepted.len()));
    }
    if !stopped && core.accepted.len() != src.len() {
        ck.fail("silent-truncation", format!("all writes and flush succeeded, {} of {} bytes reached the inner writer", core.accepted.len(), src.len()));
    }
    // errors: the caller never sees a failure the inner writer did not produce,
    // and none twice (caller-visible hard errors are an order-preserving
    // subsequence of the inner writer's hard failures). A transient failure of
    // an opportunistic flush that a later write/flush repeats successfully need
    // not be reported: no documentation promises that, and nothing is lost
    // (completeness and exactly-once are checked above).
    let inner: Vec<ErrorKind> = wfaults(&core.tape.log);
    let hard = |v: &[ErrorKind]| v.iter().copied().filter(|k| *k != ErrorKind::Interrupted).collect::<Vec<_>>();
    let (hi, hs) = (hard(&inner), hard(&seen));
    let mut it = hi.iter();
    let subseq = hs.iter().all(|k| (c.cap == 0 && *k == ErrorKind::WriteZero) || it.any(|x| x == k));
    if !subseq {
        ck.fail("error-sequence-mismatch", format!("inner writer failed with {inner:?}, caller saw {seen:?}"));
    }
    // a failure that was never followed by a successful inner write cannot have been hidden
    if matches!(core.tape.log.iter().rev().find(|e| **e != Ev::ZeroCap), Some(Ev::Err(_) | Ev::Zero)) && hs.is_empty() {
        ck.fail("error-swallowed", format!("inner writer's last call failed ({:?}) and the caller saw no error", core.tape.log));
    }
}

/// `got` is not a prefix of `src` — is it because a part was written twice?
fn has_dup(got: &[u8], src: &[u8]) -> bool {
    let i = got.iter().zip(src).take_while(|(a, b)| a == b).count();
    i < got.len() && src[..i.min(src.len())].contains(&got[i])
}

// ---------------------------------------------------------------------------
// copy
// ---------------------------------------------------------------------------

fn p_copy(ch: &mut dyn Chooser, c: &mut Case) {
    c.cap = pick(ch, &uniq(vec![0, 1, 2, c.n.saturating_sub(1), c.n, c.n + 1, 8192]));
}

fn copy(c: &Case, ck: &mut Ck) {
    if c.cap == 0 {
        ck.tag("bufsize0");
    }
    let mut r = SR(reader(c));
    let mut w = SW(writer(c, true));
    let res = go!(ck, copy_with_size(&mut r, &mut w, c.cap));
    let (rc, wc) = (&r.0, &w.0);
    ck.note_log(&rc.tape.log, rc.tape.calls);
    ck.note_log(&wc.tape.log, wc.tape.calls);
    if !rc.delivered().starts_with(&wc.accepted) {
        let rule = if has_dup(&wc.accepted, rc.delivered()) { "duplicated-bytes" } else { "content-mismatch" };
        ck.fail(rule, format!("writer received {:?}, reader delivered {:?}", wc.accepted, rc.delivered()));
        return;
    }
    let rterm = terminal(&rc.tape.log);
    let wterm = terminal(&wc.tape.log);
    let kind = res.as_ref().map_err(|e| e.kind());
    // the first hard failure on either side ends the copy
    let want: Option<ErrorKind> = match (rterm, wterm) {
        (Some((_, Ev::Err(k))), None) => Some(KINDS[k as usize]),
        (_, Some((_, Ev::Err(k)))) => Some(KINDS[k as usize]),
        (_, Some((_, Ev::Zero))) => Some(ErrorKind::WriteZero),
        _ => None,
    };
    if matches!(rterm, Some((_, Ev::Err(_)))) && wterm.is_some() {
        ck.fail("call-after-failure", format!("both sides failed: reader {:?}, writer {:?}", rc.tape.log, wc.tape.log));
    }
    match (want, kind) {
        (Some(k), Err(e)) if e == k => {}
        (Some(k), other) => ck.fail(
            if other.is_ok() { "error-swallowed" } else { "wrong-error-kind" },
            format!("expected {k:?}, copy returned {other:?}; reader {:?}, writer {:?}", rc.tape.log, wc.tape.log),
        ),
        (None, Err(e)) => ck.fail("spurious-error", format!("no failing stream call, copy returned {e:?}")),
        (None, Ok(t)) => {
            let eof = matches!(rterm, Some((_, Ev::Zero)));
            if !eof && !(c.cap == 0 && rc.tape.log.last() == Some(&Ev::ZeroCap)) {
                ck.fail("returned-before-eof", format!("Ok({t}) although the reader never reported end-of-file; log {:?}", rc.tape.log));
            }
            if *t as usize != rc.pos {
                ck.fail("count-mismatch", format!("copy reported {t}, reader delivered {}", rc.pos));
            }
            if wc.accepted.len() != rc.pos {
                ck.fail("lost-bytes", format!("reader delivered {}, writer received {}", rc.pos, wc.accepted.len()));
            }
        }
    }
}

pub fn register(v: &mut Vec<Helper>) {
    let mut add = |name, scripts, params, run| {
        v.push(Helper {
            name,
            scripts,
            params,
            run,
        })
    };
    add("write_all", 1, p_write_all as fn(&mut dyn Chooser, &mut Case), write_all as fn(&Case, &mut Ck));
    add("write_vectored_all", 1, p_wva, write_vectored_all);
    add("write_all_at", 1, p_wat, write_all_at);
    add("bufwriter", 1, p_bufwriter, bufwriter);
    add("copy", 3, p_copy, copy);
}
