//! C12 — blocking-style and poll-style adapters are lossless FIFO pipes.
//!
//! The real `SyncStream` / `AsyncStream` sit on a *scripted* completion-style
//! inner stream that records every byte it produces and receives and whose
//! every call follows a transfer atom {give n, accept n, accept 0, EOF, error,
//! Pending-until-released}. The harness drives the adapter with a *call
//! script* and compares, after every call, what the caller was told with what
//! the inner stream saw (reference model = two byte queues):
//!
//! * write side: the concatenation of what `write`/`poll_write` accepted is a
//!   prefix-extension of what the inner stream received — in order, exactly
//!   once — also across failed flushes; a successful flush/close leaves
//!   nothing behind; after the script a retry against a benign inner stream
//!   delivers the rest;
//! * read side: every byte handed out is the next byte the inner stream
//!   produced; EOF only after all data and sticky; `into_parts` returns the
//!   unread tail;
//! * `WouldBlock` (sync) / `Pending` (poll) only when the model says that no
//!   progress is possible without the async half / the blocked inner future;
//! * buffered bytes never exceed `max_buffer_size`; the limit is reported
//!   only when reached;
//! * wake rule: when a blocked inner future is released, every entry point of
//!   that half whose last poll returned `Pending` is woken.
//!
//! What fires on the tree this was written against (kept, reported):
//! `C12/write-accepted-during-inflight-flush-never-flushed/async` (a
//! `poll_write` accepted while `inner.flush()` of an earlier flush future is
//! pending is never covered by that future: `poll_flush`/`poll_close` report
//! success, bytes are lost at close, debug assertion in `poll_close`),
//! `C12/limit-exceeded/sync/read-buffer` (`fill_read_buf` checks the limit
//! before the read but lends out more room than is left), and under Miri the
//! aliasing of `&mut` between an in-flight boxed future and the next poll.
//!
//! One program text is driven exhaustively (odometer over all choice
//! sequences, iterative deepening over the number of calls so that the first
//! violation of a class is a shortest one) and by seeded random choices with
//! larger bounds.

use std::{
    cell::RefCell,
    future::Future,
    io::{self, BufRead, Read, Write},
    mem::MaybeUninit,
    pin::{Pin, pin},
    rc::Rc,
    sync::Arc,
    task::{Context, Poll, Waker},
};

use compio_buf::{BufResult, IoBuf, IoBufMut, SetLenExt};
use compio_io::{
    AsyncRead, AsyncWrite,
    compat::{AsyncStream, SyncStream},
};
use futures_util::io::{AsyncBufRead as FBufRead, AsyncRead as FRead, AsyncWrite as FWrite};
use vcommon::{
    Args, Report, Rng, Value, json, panics,
    task::{CountWaker, count_waker},
};

use crate::choose::{Chooser, Odometer, RandomChooser, ReplayChooser};

// ---------------------------------------------------------------------------
// Choice source (thread-local so that the inner stream, which lives inside
// the adapter, draws its transfer atoms from the same sequence)
// ---------------------------------------------------------------------------

enum Src {
    Od(Odometer),
    Rnd(RandomChooser),
    Rep(ReplayChooser),
}

impl Src {
    fn ch(&mut self) -> &mut dyn Chooser {
        match self {
            Src::Od(c) => c,
            Src::Rnd(c) => c,
            Src::Rep(c) => c,
        }
    }
}

thread_local! {
    static CH: RefCell<Option<Src>> = const { RefCell::new(None) };
}

fn choose(n: usize) -> usize {
    CH.with(|c| c.borrow_mut().as_mut().expect("chooser installed").ch().choose(n))
}

fn ch_trace() -> Vec<usize> {
    CH.with(|c| c.borrow_mut().as_mut().expect("chooser installed").ch().trace())
}

fn install(s: Src) {
    CH.with(|c| *c.borrow_mut() = Some(s));
}

fn uninstall() -> Src {
    CH.with(|c| c.borrow_mut().take().expect("chooser installed"))
}

// ---------------------------------------------------------------------------
// Parameters of a program family
// ---------------------------------------------------------------------------

#[derive(Clone, Debug)]
struct Params {
    mode: String,
    max_ops: usize,
    /// Budget of non-benign inner transfer atoms per program.
    max_atoms: usize,
    /// Bytes the read side produces before its natural EOF (upper bound).
    payload: usize,
    bases: Vec<usize>,
    maxes: Vec<usize>,
    rsizes: Vec<usize>,
    wsizes: Vec<usize>,
    /// Random-mode extras: both directions in one program, fresh wakers,
    /// several error kinds, arbitrary short transfers, `Write::flush`,
    /// dropping the adapter with futures in flight.
    rich: bool,
    /// Restrict to adapters: bit 0 sync, bit 1 poll.
    adapters: usize,
    /// Restrict directions: bit 0 read side, bit 1 write side (rich mode adds both-in-one when 3).
    dirs: usize,
    /// Inner calls may return Pending.
    pend: bool,
    /// Sharding decision after this many calls.
    own_after: usize,
}

impl Params {
    fn to_json(&self) -> Value {
        json!({"mode": self.mode, "max_ops": self.max_ops, "max_atoms": self.max_atoms, "payload": self.payload,
               "bases": self.bases, "maxes": self.maxes, "rsizes": self.rsizes, "wsizes": self.wsizes,
               "rich": self.rich, "adapters": self.adapters, "dirs": self.dirs, "pend": self.pend})
    }

    fn from_json(v: &Value) -> Self {
        let list = |k: &str, d: &[usize]| -> Vec<usize> {
            v[k].as_array()
                .map(|a| a.iter().map(|x| x.as_u64().unwrap_or(1) as usize).collect())
                .unwrap_or_else(|| d.to_vec())
        };
        Self {
            mode: "replay".into(),
            max_ops: v["max_ops"].as_u64().unwrap_or(4) as usize,
            max_atoms: v["max_atoms"].as_u64().unwrap_or(3) as usize,
            payload: v["payload"].as_u64().unwrap_or(12) as usize,
            bases: list("bases", &[1, 2, 4]),
            maxes: list("maxes", &[4, 8]),
            rsizes: list("rsizes", &[1, 3]),
            wsizes: list("wsizes", &[1, 3, 5]),
            rich: v["rich"].as_bool().unwrap_or(false),
            adapters: v["adapters"].as_u64().unwrap_or(3) as usize,
            dirs: v["dirs"].as_u64().unwrap_or(3) as usize,
            pend: v["pend"].as_bool().unwrap_or(true),
            own_after: usize::MAX,
        }
    }
}

// ---------------------------------------------------------------------------
// Scripted, recording inner stream
// ---------------------------------------------------------------------------

const R: usize = 0;
const W: usize = 1;

#[derive(Clone, Copy, Debug, PartialEq, Eq)]
enum InnerOp {
    Read,
    Write,
    Flush,
    Shutdown,
}

impl InnerOp {
    fn half(self) -> usize {
        if self == InnerOp::Read { R } else { W }
    }

    fn name(self) -> &'static str {
        match self {
            InnerOp::Read => "read",
            InnerOp::Write => "write",
            InnerOp::Flush => "flush",
            InnerOp::Shutdown => "shutdown",
        }
    }
}

#[derive(Clone, Copy, Debug)]
enum Atom {
    /// read: hand over up to n bytes
    Give(usize),
    Eof,
    Fail(io::ErrorKind),
    Pend,
    /// write: take up to n bytes
    Accept(usize),
    /// flush / shutdown succeed
    Done,
}

// classes of inner behaviour observed (bit numbers); condensed into the eval signature
const C_GIVE_ALL: u32 = 0;
const C_GIVE_SHORT: u32 = 1;
const C_EOF: u32 = 2;
const C_EOF_EARLY: u32 = 3;
const C_RPEND: u32 = 4;
const C_RERR: u32 = 5;
const C_ACC_ALL: u32 = 6;
const C_ACC_SHORT: u32 = 7;
const C_ACC_ZERO: u32 = 8;
const C_WPEND: u32 = 9;
const C_WERR: u32 = 10;
const C_FLUSH: u32 = 11; // +0 ok, +1 pend, +2 err
const C_SHUT: u32 = 14; // +0 ok, +1 pend, +2 err
const C_AFTER_EOF: u32 = 17;
const C_BROKEN_PIPE: u32 = 18;
const C_ZERO_CAP: u32 = 19;

const ERR_KINDS: [io::ErrorKind; 4] = [
    io::ErrorKind::Other,
    io::ErrorKind::Interrupted,
    io::ErrorKind::ConnectionReset,
    io::ErrorKind::TimedOut,
];

fn rbyte(i: usize) -> u8 {
    (i as u8).wrapping_add(1)
}

fn wbyte(i: usize) -> u8 {
    (i as u8).wrapping_mul(3).wrapping_add(0x80)
}

struct State {
    rich: bool,
    pend: bool,
    payload: usize,
    atoms_left: usize,
    benign: bool,
    // recording
    produced: Vec<u8>,
    received: Vec<u8>,
    eof_returned: usize,
    read_calls: usize,
    write_calls: usize,
    flush_done: usize,
    shut: bool,
    classes: u32,
    // per adapter call
    errs: Vec<io::ErrorKind>,
    errs_total: usize,
    zero_write: bool,
    // Pending machinery: one gate per half
    blocked: [bool; 2],
    blocked_op: [InnerOp; 2],
    waker: [Option<Waker>; 2],
    log: Option<Rc<RefCell<Vec<String>>>>,
}

macro_rules! lg {
    ($st:expr, $($a:tt)*) => {
        if let Some(l) = $st.log.as_ref() {
            let s = format!($($a)*);
            l.borrow_mut().push(s);
        }
    };
}

impl State {
    fn class(&mut self, c: u32) {
        self.classes |= 1 << c;
    }

    fn clear_call(&mut self) {
        self.errs.clear();
        self.zero_write = false;
    }

    fn err_kind(&mut self) -> io::ErrorKind {
        if self.rich { ERR_KINDS[choose(ERR_KINDS.len())] } else { io::ErrorKind::Other }
    }

    /// The next transfer atom for an inner call, drawn lazily from the choice
    /// source while the budget of non-benign atoms lasts.
    fn next_atom(&mut self, op: InnerOp, arg: usize) -> Atom {
        let free = !self.benign && self.atoms_left > 0;
        let mut opts: [Atom; 7] = [Atom::Done; 7];
        let mut n = 0;
        let mut push = |a: Atom| {
            opts[n] = a;
            n += 1;
        };
        match op {
            InnerOp::Read => {
                if self.eof_returned > 0 {
                    // A stream that comes back to life: only an adapter whose
                    // EOF is not sticky will ever get here.
                    return Atom::Give(1);
                }
                let remaining = self.payload.saturating_sub(self.produced.len());
                let natural = if remaining > 0 { Atom::Give(usize::MAX) } else { Atom::Eof };
                if !free {
                    return natural;
                }
                let room = remaining.min(arg);
                push(natural);
                if self.rich {
                    if room > 1 {
                        push(Atom::Give(0)); // resolved below
                    }
                } else {
                    if room > 1 {
                        push(Atom::Give(1));
                    }
                    if room > 2 {
                        push(Atom::Give(2));
                    }
                }
                if self.pend {
                    push(Atom::Pend);
                }
                push(Atom::Fail(io::ErrorKind::Other));
                if remaining > 0 && (!self.rich || choose(4) == 0) {
                    push(Atom::Eof);
                }
                let mut a = opts[choose(n)];
                if let Atom::Give(0) = a {
                    a = Atom::Give(1 + choose(room - 1));
                }
                self.finish_atom(a, n)
            }
            InnerOp::Write => {
                if !free {
                    return Atom::Accept(usize::MAX);
                }
                push(Atom::Accept(usize::MAX));
                if arg > 1 {
                    push(Atom::Accept(if self.rich { 0 } else { 1 }));
                }
                if self.pend {
                    push(Atom::Pend);
                }
                push(Atom::Fail(io::ErrorKind::Other));
                if !self.rich || choose(4) == 0 {
                    push(Atom::Accept(0));
                }
                let idx = choose(n);
                let mut a = opts[idx];
                if self.rich && idx == 1 && arg > 1 {
                    a = Atom::Accept(1 + choose(arg - 1));
                }
                self.finish_atom(a, n)
            }
            InnerOp::Flush | InnerOp::Shutdown => {
                if !free {
                    return Atom::Done;
                }
                push(Atom::Done);
                if self.pend {
                    push(Atom::Pend);
                }
                push(Atom::Fail(io::ErrorKind::Other));
                let a = opts[choose(n)];
                self.finish_atom(a, n)
            }
        }
    }

    fn finish_atom(&mut self, a: Atom, _n: usize) -> Atom {
        match a {
            Atom::Give(usize::MAX) | Atom::Accept(usize::MAX) | Atom::Done => a,
            Atom::Eof if self.payload <= self.produced.len() => a,
            Atom::Fail(_) => {
                self.atoms_left -= 1;
                Atom::Fail(self.err_kind())
            }
            _ => {
                self.atoms_left -= 1;
                a
            }
        }
    }

    /// Harness action: the blocked inner future of `half` may now proceed.
    fn release(st: &Rc<RefCell<State>>, half: usize) {
        let w = {
            let mut s = st.borrow_mut();
            s.blocked[half] = false;
            let op = s.blocked_op[half];
            lg!(s, "  release inner.{}", op.name());
            s.waker[half].take()
        };
        if let Some(w) = w {
            w.wake();
        }
    }
}

type Shared = Rc<RefCell<State>>;

/// The point at which an inner call decides its outcome; `Pending` until
/// released when the atom says so.
struct Gate {
    st: Shared,
    op: InnerOp,
    arg: usize,
}

impl Future for Gate {
    type Output = Atom;

    fn poll(self: Pin<&mut Self>, cx: &mut Context<'_>) -> Poll<Atom> {
        let half = self.op.half();
        let mut s = self.st.borrow_mut();
        if s.blocked[half] {
            // still waiting: keep the most recent waker
            let w = cx.waker().clone();
            s.waker[half] = Some(w);
            return Poll::Pending;
        }
        let a = s.next_atom(self.op, self.arg);
        if let Atom::Pend = a {
            s.blocked[half] = true;
            s.blocked_op[half] = self.op;
            let w = cx.waker().clone();
            s.waker[half] = Some(w);
            s.class(match self.op {
                InnerOp::Read => C_RPEND,
                InnerOp::Write => C_WPEND,
                InnerOp::Flush => C_FLUSH + 1,
                InnerOp::Shutdown => C_SHUT + 1,
            });
            lg!(s, "  inner.{} -> Pending", self.op.name());
            return Poll::Pending;
        }
        Poll::Ready(a)
    }
}

#[derive(Clone)]
struct Scripted(Shared);

impl Scripted {
    fn gate(&self, op: InnerOp, arg: usize) -> Gate {
        Gate {
            st: self.0.clone(),
            op,
            arg,
        }
    }
}

impl AsyncRead for Scripted {
    async fn read<B: IoBufMut>(&mut self, mut buf: B) -> BufResult<usize, B> {
        let cap = buf.as_uninit().len();
        self.0.borrow_mut().read_calls += 1;
        if cap == 0 {
            let mut s = self.0.borrow_mut();
            s.class(C_ZERO_CAP);
            lg!(s, "  inner.read(cap 0) -> Ok(0) (not an EOF)");
            return BufResult(Ok(0), buf);
        }
        let atom = self.gate(InnerOp::Read, cap).await;
        let mut s = self.0.borrow_mut();
        match atom {
            Atom::Give(k) => {
                let after_eof = s.eof_returned > 0;
                let remaining = if after_eof { 1 } else { s.payload.saturating_sub(s.produced.len()) };
                let n = k.min(cap).min(remaining);
                let un = buf.as_uninit();
                for slot in un.iter_mut().take(n) {
                    let b = rbyte(s.produced.len());
                    *slot = MaybeUninit::new(b);
                    s.produced.push(b);
                }
                // SAFETY: n <= capacity and the first n bytes were just written.
                unsafe { buf.advance_to(n) };
                s.class(if after_eof {
                    C_AFTER_EOF
                } else if k == usize::MAX {
                    C_GIVE_ALL
                } else {
                    C_GIVE_SHORT
                });
                lg!(s, "  inner.read(cap {cap}) -> Ok({n})");
                BufResult(Ok(n), buf)
            }
            Atom::Eof => {
                let early = s.payload > s.produced.len();
                s.class(if early { C_EOF_EARLY } else { C_EOF });
                s.payload = s.produced.len();
                s.eof_returned += 1;
                lg!(s, "  inner.read(cap {cap}) -> Ok(0) EOF");
                BufResult(Ok(0), buf)
            }
            Atom::Fail(k) => {
                s.errs.push(k);
                s.errs_total += 1;
                s.class(C_RERR);
                lg!(s, "  inner.read(cap {cap}) -> Err({k:?})");
                BufResult(Err(io::Error::new(k, "scripted read error")), buf)
            }
            other => panic!("C12 harness: atom {other:?} for read"),
        }
    }
}

impl AsyncWrite for Scripted {
    async fn write<T: IoBuf>(&mut self, buf: T) -> BufResult<usize, T> {
        let len = buf.as_init().len();
        {
            let mut s = self.0.borrow_mut();
            s.write_calls += 1;
            if s.shut {
                s.errs.push(io::ErrorKind::BrokenPipe);
                s.errs_total += 1;
                s.class(C_BROKEN_PIPE);
                lg!(s, "  inner.write(len {len}) after shutdown -> Err(BrokenPipe)");
                return BufResult(Err(io::Error::new(io::ErrorKind::BrokenPipe, "written after shutdown")), buf);
            }
        }
        let atom = self.gate(InnerOp::Write, len).await;
        let mut s = self.0.borrow_mut();
        match atom {
            Atom::Accept(k) => {
                let n = k.min(len);
                s.received.extend_from_slice(&buf.as_init()[..n]);
                if n == 0 && len > 0 {
                    s.zero_write = true;
                }
                s.class(if k == usize::MAX {
                    C_ACC_ALL
                } else if k == 0 {
                    C_ACC_ZERO
                } else {
                    C_ACC_SHORT
                });
                lg!(s, "  inner.write(len {len}) -> Ok({n})");
                BufResult(Ok(n), buf)
            }
            Atom::Fail(k) => {
                s.errs.push(k);
                s.errs_total += 1;
                s.class(C_WERR);
                lg!(s, "  inner.write(len {len}) -> Err({k:?})");
                BufResult(Err(io::Error::new(k, "scripted write error")), buf)
            }
            other => panic!("C12 harness: atom {other:?} for write"),
        }
    }

    async fn flush(&mut self) -> io::Result<()> {
        let atom = self.gate(InnerOp::Flush, 0).await;
        let mut s = self.0.borrow_mut();
        match atom {
            Atom::Done => {
                s.flush_done += 1;
                s.class(C_FLUSH);
                lg!(s, "  inner.flush -> Ok");
                Ok(())
            }
            Atom::Fail(k) => {
                s.errs.push(k);
                s.errs_total += 1;
                s.class(C_FLUSH + 2);
                lg!(s, "  inner.flush -> Err({k:?})");
                Err(io::Error::new(k, "scripted flush error"))
            }
            other => panic!("C12 harness: atom {other:?} for flush"),
        }
    }

    async fn shutdown(&mut self) -> io::Result<()> {
        let atom = self.gate(InnerOp::Shutdown, 0).await;
        let mut s = self.0.borrow_mut();
        match atom {
            Atom::Done => {
                s.shut = true;
                s.class(C_SHUT);
                lg!(s, "  inner.shutdown -> Ok");
                Ok(())
            }
            Atom::Fail(k) => {
                s.errs.push(k);
                s.errs_total += 1;
                s.class(C_SHUT + 2);
                lg!(s, "  inner.shutdown -> Err({k:?})");
                Err(io::Error::new(k, "scripted shutdown error"))
            }
            other => panic!("C12 harness: atom {other:?} for shutdown"),
        }
    }
}

// ---------------------------------------------------------------------------
// Verdict plumbing
// ---------------------------------------------------------------------------

struct Fail {
    sig: String,
    what: String,
}

fn fail<T>(rule: &str, ad: &str, at: &str, what: String) -> Result<T, Fail> {
    Err(Fail {
        sig: format!("C12/{rule}/{ad}/{at}"),
        what,
    })
}

enum Outcome {
    Skip,
    Done { sig: String, trivial: bool, flags: u32 },
    Fail(Fail),
}

// ---------------------------------------------------------------------------
// The program
// ---------------------------------------------------------------------------

const INFLIGHT: &str = "write-accepted-during-inflight-flush-never-flushed";

const ENTRY: [&str; 6] = ["poll_read", "poll_read_uninit", "poll_fill_buf", "poll_write", "poll_flush", "poll_close"];

// harness-side entry points used (bit numbers), part of the eval signature
const OP_NAMES: [&str; 16] = [
    "read", "fill_buf", "consume", "read_buf_uninit", "fill_read_buf", "write", "flush", "flush_write_buf",
    "into_parts", "poll_read", "poll_read_uninit", "poll_fill_buf", "poll_write", "poll_flush", "poll_close",
    "release",
];
const O_READ: u32 = 0;
const O_FILL_BUF: u32 = 1;
const O_CONSUME: u32 = 2;
const O_READ_UNINIT: u32 = 3;
const O_FILL_READ_BUF: u32 = 4;
const O_WRITE: u32 = 5;
const O_FLUSH: u32 = 6;
const O_FLUSH_WRITE_BUF: u32 = 7;
const O_INTO_PARTS: u32 = 8;
const O_POLL: u32 = 9; // + entry index
const O_RELEASE: u32 = 15;

#[derive(Clone, Copy, Debug)]
enum Op {
    Read(usize),
    FillBuf,
    ReadUninit(usize),
    FillReadBuf,
    Write(usize),
    Flush,
    FlushWriteBuf,
    Poll(usize, usize),
    Release(usize),
}

struct Entry {
    cw: Arc<CountWaker>,
    waker: Waker,
    /// Last poll through this entry point returned `Pending`.
    pending: bool,
    /// Wake count at the time of that `Pending`.
    count_at: usize,
}

impl Entry {
    fn new() -> Self {
        let (cw, waker) = count_waker();
        Self {
            cw,
            waker,
            pending: false,
            count_at: 0,
        }
    }
}

enum Adapter {
    Sync(Option<SyncStream<Scripted>>),
    Poll(Pin<Box<AsyncStream<(Scripted, Scripted)>>>),
}

struct Run<'a> {
    p: &'a Params,
    st: Shared,
    ad: Adapter,
    ad_name: &'static str,
    dir: usize, // 0 R, 1 W, 2 both
    base: usize,
    max: usize,
    // model
    handed: usize,
    accepted: Vec<u8>,
    reported_eof: bool,
    close_started: bool,
    closed_ok: bool,
    seen_shut: bool,
    /// A write was accepted while an earlier flush future was still in flight.
    wrote_inflight: bool,
    /// Model of "the write half has a boxed future in flight": set by a
    /// `Pending` of any write-half entry point, cleared when a later call
    /// demonstrably drove it to completion.
    w_inflight: bool,
    entries: Vec<Entry>,
    // coverage
    ops: u32,
    limit_hit: bool,
    saw_wb: bool,
    saw_pending: bool,
    /// A refill happened with an unread remainder behind a consumed prefix.
    compaction: bool,
    consumed_since_fill: bool,
    stale_wakers: usize,
}

/// Poll a future of the sync adapter's async half to completion, releasing
/// the inner stream whenever it blocks (and checking that the task is woken).
fn drive<F: Future>(st: &Shared, f: F, half: usize, at: &str) -> Result<F::Output, Fail> {
    let (cw, w) = count_waker();
    let mut cx = Context::from_waker(&w);
    let mut f = pin!(f);
    for _ in 0..4096 {
        match f.as_mut().poll(&mut cx) {
            Poll::Ready(v) => return Ok(v),
            Poll::Pending => {
                if !st.borrow().blocked[half] {
                    return fail(
                        "hang",
                        "sync",
                        at,
                        format!("{at}() returned Pending although the inner stream has no blocked call"),
                    );
                }
                let before = cw.count();
                let op = st.borrow().blocked_op[half];
                State::release(st, half);
                if cw.count() == before {
                    return fail(
                        "lost-wake",
                        "sync",
                        &format!("{at}/inner-{}", op.name()),
                        format!("the task awaiting {at}() was not woken when the inner {} made progress", op.name()),
                    );
                }
            }
        }
    }
    Err(Fail {
        sig: "inconclusive".into(),
        what: format!("{at}: more than 4096 Pending rounds"),
    })
}

impl<'a> Run<'a> {
    fn avail(&self) -> usize {
        self.st.borrow().produced.len() - self.handed
    }

    fn pending_w(&self) -> usize {
        self.accepted.len().saturating_sub(self.st.borrow().received.len())
    }

    fn eof(&self) -> bool {
        self.st.borrow().eof_returned > 0
    }

    fn op(&mut self, o: u32) {
        self.ops |= 1 << o;
    }

    fn log(&self, s: impl FnOnce() -> String) {
        let st = self.st.borrow();
        if let Some(l) = st.log.as_ref() {
            l.borrow_mut().push(s());
        }
    }

    // ---- read-side oracles ------------------------------------------------

    /// `d` was handed to the caller (consumed).
    fn hand_out(&mut self, at: &str, d: &[u8]) -> Result<(), Fail> {
        let st = self.st.borrow();
        let p = &st.produced;
        if self.handed + d.len() > p.len() || p[self.handed..self.handed + d.len()] != *d {
            return fail(
                "fifo-read",
                self.ad_name,
                at,
                format!(
                    "{at} handed out {:?} but the next unread bytes the inner stream produced are {:?}",
                    d,
                    &p[self.handed.min(p.len())..]
                ),
            );
        }
        drop(st);
        self.handed += d.len();
        if !d.is_empty() {
            self.consumed_since_fill = true;
        }
        Ok(())
    }

    /// Common oracle for read-like calls with a caller buffer of `k` bytes.
    fn check_read(&mut self, at: &str, k: usize, r: io::Result<Vec<u8>>, avail_before: usize, eof_before: bool) -> Result<(), Fail> {
        match r {
            Ok(d) => {
                if d.len() > k {
                    return fail("over-read", self.ad_name, at, format!("{at} returned {} for a buffer of {k}", d.len()));
                }
                self.hand_out(at, &d)?;
                if d.is_empty() && k > 0 {
                    let avail = self.avail();
                    if avail > 0 || !self.eof() {
                        return fail(
                            "premature-eof",
                            self.ad_name,
                            at,
                            format!("{at} returned 0 (EOF) with {avail} produced bytes not handed out, inner EOF seen: {}", self.eof()),
                        );
                    }
                    self.reported_eof = true;
                } else if !d.is_empty() && self.reported_eof {
                    return fail("eof-not-sticky", self.ad_name, at, format!("{at} handed out data after the adapter had reported EOF"));
                }
                Ok(())
            }
            Err(e) if e.kind() == io::ErrorKind::WouldBlock && matches!(self.ad, Adapter::Sync(_)) => {
                self.saw_wb = true;
                if self.reported_eof {
                    return fail("eof-not-sticky", self.ad_name, at, format!("{at} returned WouldBlock after the adapter had reported EOF"));
                }
                if k > 0 && (avail_before > 0 || eof_before) {
                    return fail(
                        "spurious-wouldblock",
                        self.ad_name,
                        at,
                        format!("{at} returned WouldBlock with {avail_before} bytes buffered, eof={eof_before}: progress was possible"),
                    );
                }
                Ok(())
            }
            Err(e) => self.check_err(at, &e),
        }
    }

    /// An error surfaced by the adapter must be one the inner stream raised
    /// during this very call.
    fn check_err(&mut self, at: &str, e: &io::Error) -> Result<(), Fail> {
        let st = self.st.borrow();
        let k = e.kind();
        if st.errs.contains(&k) || (k == io::ErrorKind::WriteZero && st.zero_write) {
            return Ok(());
        }
        fail(
            "unexpected-error",
            self.ad_name,
            &format!("{at}/{k:?}"),
            format!("{at} failed with {k:?} ({e}) which the inner stream did not raise during this call"),
        )
    }

    /// `fill_buf`-like result; then consume a chosen amount.
    fn check_fill_buf(&mut self, at: &str, r: io::Result<Vec<u8>>, avail_before: usize, eof_before: bool) -> Result<Option<usize>, Fail> {
        match r {
            Ok(d) => {
                {
                    let st = self.st.borrow();
                    if !st.produced[self.handed..].starts_with(&d) {
                        return fail(
                            "fifo-read",
                            self.ad_name,
                            at,
                            format!("{at} exposes {:?} but the unread bytes are {:?}", d, &st.produced[self.handed..]),
                        );
                    }
                }
                if d.is_empty() {
                    let avail = self.avail();
                    if avail > 0 || !self.eof() {
                        return fail(
                            "premature-eof",
                            self.ad_name,
                            at,
                            format!("{at} returned an empty slice (EOF) with {avail} bytes not handed out, inner EOF seen: {}", self.eof()),
                        );
                    }
                    self.reported_eof = true;
                } else if self.reported_eof {
                    return fail("eof-not-sticky", self.ad_name, at, format!("{at} exposed data after the adapter had reported EOF"));
                }
                // consume: 0, 1, len-1, len (all amounts in rich mode)
                let len = d.len();
                let j = if self.p.rich {
                    choose(len + 1)
                } else {
                    let mut c = vec![0, 1.min(len), len.saturating_sub(1), len];
                    c.dedup();
                    c[choose(c.len())]
                };
                Ok(Some(j))
            }
            Err(e) if e.kind() == io::ErrorKind::WouldBlock && matches!(self.ad, Adapter::Sync(_)) => {
                self.saw_wb = true;
                if self.reported_eof {
                    return fail("eof-not-sticky", self.ad_name, at, format!("{at} returned WouldBlock after the adapter had reported EOF"));
                }
                if avail_before > 0 || eof_before {
                    return fail(
                        "spurious-wouldblock",
                        self.ad_name,
                        at,
                        format!("{at} returned WouldBlock with {avail_before} bytes buffered, eof={eof_before}"),
                    );
                }
                Ok(None)
            }
            Err(e) => self.check_err(at, &e).map(|_| None),
        }
    }

    // ---- write-side oracles -----------------------------------------------

    fn data(&self, m: usize) -> Vec<u8> {
        (0..m).map(|i| wbyte(self.accepted.len() + i)).collect()
    }

    fn check_write(&mut self, at: &str, data: &[u8], r: io::Result<usize>, pending_before: usize) -> Result<(), Fail> {
        let m = data.len();
        match r {
            Ok(n) => {
                if n > m {
                    return fail("over-accept", self.ad_name, at, format!("{at} returned {n} for {m} bytes"));
                }
                if n == 0 && m > 0 {
                    return fail("write-accepted-zero", self.ad_name, at, format!("{at} returned Ok(0) for {m} bytes"));
                }
                if n < m {
                    self.limit_hit = true;
                }
                self.accepted.extend_from_slice(&data[..n]);
                Ok(())
            }
            Err(e) if e.kind() == io::ErrorKind::WouldBlock && matches!(self.ad, Adapter::Sync(_)) => {
                self.saw_wb = true;
                if pending_before >= self.max {
                    self.limit_hit = true;
                }
                if pending_before == 0 {
                    return fail(
                        "spurious-wouldblock",
                        self.ad_name,
                        at,
                        format!("{at} returned WouldBlock ({e}) with nothing buffered: flush_write_buf cannot make progress either"),
                    );
                }
                Ok(())
            }
            Err(e) => self.check_err(at, &e),
        }
    }

    fn cond(&self) -> &'static str {
        if self.wrote_inflight { INFLIGHT } else { "plain" }
    }

    /// A write-side completeness failure. All symptoms of one situation —
    /// `poll_write` accepted bytes while an earlier flush future was still in
    /// flight — share one class: which symptom shows first (flush reports
    /// success early, shutdown with bytes buffered, bytes lost at close,
    /// debug assertion in `poll_close`) only depends on the calls that follow.
    fn wfail<T>(&self, rule: &str, at: &str, what: String) -> Result<T, Fail> {
        if self.wrote_inflight {
            Err(Fail {
                sig: format!("C12/{INFLIGHT}/{}", self.ad_name),
                what: format!("[{rule} at {at}] {what}; an earlier poll_write was accepted while a flush future was in flight"),
            })
        } else {
            fail(rule, self.ad_name, at, what)
        }
    }

    fn check_flushed(&mut self, at: &str) -> Result<(), Fail> {
        let pend = self.pending_w();
        if pend > 0 {
            return self.wfail(
                "flush-incomplete",
                at,
                format!("{at} reported success but {pend} accepted bytes have not reached the inner stream"),
            );
        }
        Ok(())
    }

    // ---- invariants after every call --------------------------------------

    fn after(&mut self, at: &str) -> Result<(), Fail> {
        let (avail, pend, shut) = {
            let st = self.st.borrow();
            if !self.accepted.starts_with(&st.received) {
                return fail(
                    "fifo-write",
                    self.ad_name,
                    at,
                    format!(
                        "after {at}: the inner stream received {:?} which is not a prefix of the accepted bytes {:?}",
                        st.received, self.accepted
                    ),
                );
            }
            (st.produced.len() - self.handed, self.accepted.len() - st.received.len(), st.shut)
        };
        if avail > self.max {
            self.limit_hit = true;
            return fail(
                "limit-exceeded",
                self.ad_name,
                "read-buffer",
                format!("after {at}: {avail} bytes buffered on the read side, max_buffer_size is {} (base {})", self.max, self.base),
            );
        }
        if pend > self.max {
            self.limit_hit = true;
            return fail(
                "limit-exceeded",
                self.ad_name,
                "write-buffer",
                format!("after {at}: {pend} bytes buffered on the write side, max_buffer_size is {}", self.max),
            );
        }
        if shut && !self.seen_shut {
            self.seen_shut = true;
            if pend > 0 {
                return self.wfail(
                    "shutdown-before-flush",
                    at,
                    format!("the inner stream was shut down while {pend} accepted bytes were still buffered"),
                );
            }
        }
        if let Adapter::Sync(Some(s)) = &self.ad {
            let model_eof = self.st.borrow().eof_returned > 0;
            if s.is_eof() != model_eof {
                return fail("is_eof-mismatch", "sync", at, format!("after {at}: is_eof() = {} but inner EOF seen = {model_eof}", s.is_eof()));
            }
            if s.has_pending_write() != (pend > 0) {
                return fail(
                    "has_pending_write-mismatch",
                    "sync",
                    at,
                    format!("after {at}: has_pending_write() = {} but {pend} accepted bytes are unsent", s.has_pending_write()),
                );
            }
        }
        Ok(())
    }

    // ---- the calls ----------------------------------------------------------

    fn menu(&self) -> Vec<Op> {
        let mut m = Vec::with_capacity(12);
        let p = self.p;
        let rd = self.dir != 1;
        let wr = self.dir != 0;
        match &self.ad {
            Adapter::Sync(_) => {
                if rd {
                    for k in &p.rsizes {
                        m.push(Op::Read(*k));
                    }
                    m.push(Op::FillBuf);
                    m.push(Op::ReadUninit(2));
                    m.push(Op::FillReadBuf);
                }
                if wr {
                    for k in &p.wsizes {
                        m.push(Op::Write(*k));
                    }
                    if p.rich {
                        m.push(Op::Flush);
                    }
                    m.push(Op::FlushWriteBuf);
                }
            }
            Adapter::Poll(_) => {
                let st = self.st.borrow();
                if rd {
                    for k in &p.rsizes {
                        m.push(Op::Poll(0, *k));
                    }
                    m.push(Op::Poll(1, 2));
                    m.push(Op::Poll(2, 0));
                    if st.blocked[R] {
                        m.push(Op::Release(R));
                    }
                }
                if wr {
                    if !self.close_started {
                        for k in &p.wsizes {
                            m.push(Op::Poll(3, *k));
                        }
                    }
                    m.push(Op::Poll(4, 0));
                    m.push(Op::Poll(5, 0));
                    if st.blocked[W] {
                        m.push(Op::Release(W));
                    }
                }
            }
        }
        m
    }

    fn exec(&mut self, op: Op) -> Result<&'static str, Fail> {
        let at = match op {
            Op::Read(_) => "read",
            Op::FillBuf => "fill_buf",
            Op::ReadUninit(_) => "read_buf_uninit",
            Op::FillReadBuf => "fill_read_buf",
            Op::Write(_) => "write",
            Op::Flush => "flush",
            Op::FlushWriteBuf => "flush_write_buf",
            Op::Poll(e, _) => ENTRY[e],
            Op::Release(_) => "release",
        };
        CUR.with(|c| c.set((self.ad_name, at, self.cond())));
        match op {
            Op::Read(k) => {
                self.op(O_READ);
                let (a, e) = (self.avail(), self.eof());
                let mut buf = vec![0u8; k];
                self.st.borrow_mut().clear_call();
                let Adapter::Sync(Some(s)) = &mut self.ad else { unreachable!() };
                let r = s.read(&mut buf).map(|n| (buf[..n.min(k)].to_vec(), n));
                self.log(|| format!("read({k}) -> {r:?}"));
                let r = unwrap_len("read", "sync", k, r)?;
                self.check_read("read", k, r, a, e)?;
                Ok("read")
            }
            Op::ReadUninit(k) => {
                self.op(O_READ_UNINIT);
                let (a, e) = (self.avail(), self.eof());
                let mut buf = vec![MaybeUninit::<u8>::uninit(); k];
                self.st.borrow_mut().clear_call();
                let Adapter::Sync(Some(s)) = &mut self.ad else { unreachable!() };
                let r = s.read_buf_uninit(&mut buf).map(|n| {
                    // SAFETY: the adapter claims the first n bytes are initialised (Miri checks the claim).
                    (buf[..n.min(k)].iter().map(|b| unsafe { b.assume_init() }).collect::<Vec<u8>>(), n)
                });
                self.log(|| format!("read_buf_uninit({k}) -> {r:?}"));
                let r = unwrap_len("read_buf_uninit", "sync", k, r)?;
                self.check_read("read_buf_uninit", k, r, a, e)?;
                Ok("read_buf_uninit")
            }
            Op::FillBuf => {
                self.op(O_FILL_BUF);
                let (a, e) = (self.avail(), self.eof());
                self.st.borrow_mut().clear_call();
                let Adapter::Sync(Some(s)) = &mut self.ad else { unreachable!() };
                let r = s.fill_buf().map(|d| d.to_vec());
                self.log(|| format!("fill_buf() -> {r:?}"));
                if let Some(j) = self.check_fill_buf("fill_buf", r, a, e)? {
                    self.op(O_CONSUME);
                    let Adapter::Sync(Some(s)) = &mut self.ad else { unreachable!() };
                    s.consume(j);
                    self.handed += j;
                    self.consumed_since_fill |= j > 0;
                    self.log(|| format!("consume({j})"));
                }
                Ok("fill_buf")
            }
            Op::FillReadBuf => {
                self.op(O_FILL_READ_BUF);
                let avail = self.avail();
                let (prod0, calls0) = {
                    let mut st = self.st.borrow_mut();
                    st.clear_call();
                    (st.produced.len(), st.read_calls)
                };
                if avail > 0 && self.consumed_since_fill {
                    self.compaction = true;
                }
                self.consumed_since_fill = false;
                let st = self.st.clone();
                let Adapter::Sync(Some(s)) = &mut self.ad else { unreachable!() };
                let r = drive(&st, s.fill_read_buf(), R, "fill_read_buf")?;
                self.log(|| format!("fill_read_buf() -> {r:?}"));
                let (delta, called) = {
                    let st = self.st.borrow();
                    (st.produced.len() - prod0, st.read_calls > calls0)
                };
                match r {
                    Ok(n) => {
                        if n != delta {
                            return fail(
                                "fill-count",
                                "sync",
                                "fill_read_buf",
                                format!("fill_read_buf returned {n} but the inner stream produced {delta} bytes during the call"),
                            );
                        }
                        if n == 0 && !self.eof() {
                            return fail(
                                "premature-eof",
                                "sync",
                                "fill_read_buf",
                                "fill_read_buf returned 0 (EOF) although the inner stream never reported EOF".into(),
                            );
                        }
                    }
                    Err(e) if !called => {
                        // the adapter's own report: only legitimate when the limit is reached
                        self.limit_hit = true;
                        if avail < self.max {
                            return fail(
                                "spurious-limit-error",
                                "sync",
                                &format!("fill_read_buf/{:?}", e.kind()),
                                format!(
                                    "fill_read_buf failed with {:?} ({e}) without calling the inner stream, {avail} bytes buffered, max_buffer_size {}",
                                    e.kind(),
                                    self.max
                                ),
                            );
                        }
                    }
                    Err(e) => self.check_err("fill_read_buf", &e)?,
                }
                Ok("fill_read_buf")
            }
            Op::Write(m) => {
                self.op(O_WRITE);
                let data = self.data(m);
                let pend = self.pending_w();
                self.st.borrow_mut().clear_call();
                let Adapter::Sync(Some(s)) = &mut self.ad else { unreachable!() };
                let r = s.write(&data);
                self.log(|| format!("write({m} bytes) -> {r:?}"));
                self.check_write("write", &data, r, pend)?;
                Ok("write")
            }
            Op::Flush => {
                self.op(O_FLUSH);
                let calls0 = {
                    let st = self.st.borrow();
                    st.write_calls + st.flush_done
                };
                let Adapter::Sync(Some(s)) = &mut self.ad else { unreachable!() };
                let r = s.flush();
                self.log(|| format!("flush() -> {r:?}"));
                // documented no-op that always succeeds
                if let Err(e) = r {
                    return fail("unexpected-error", "sync", &format!("flush/{:?}", e.kind()), format!("Write::flush failed: {e}"));
                }
                let st = self.st.borrow();
                if st.write_calls + st.flush_done != calls0 {
                    return fail("sync-flush-did-io", "sync", "flush", "Write::flush touched the inner stream".into());
                }
                Ok("flush")
            }
            Op::FlushWriteBuf => {
                self.op(O_FLUSH_WRITE_BUF);
                let recv0 = {
                    let mut st = self.st.borrow_mut();
                    st.clear_call();
                    st.received.len()
                };
                let st = self.st.clone();
                let Adapter::Sync(Some(s)) = &mut self.ad else { unreachable!() };
                let r = drive(&st, s.flush_write_buf(), W, "flush_write_buf")?;
                self.log(|| format!("flush_write_buf() -> {r:?}"));
                let delta = self.st.borrow().received.len() - recv0;
                match r {
                    Ok(n) => {
                        self.after("flush_write_buf")?;
                        self.check_flushed("flush_write_buf")?;
                        if n != delta {
                            return fail(
                                "flush-count",
                                "sync",
                                "flush_write_buf",
                                format!("flush_write_buf returned {n} but the inner stream received {delta} bytes during the call"),
                            );
                        }
                    }
                    Err(e) => self.check_err("flush_write_buf", &e)?,
                }
                Ok("flush_write_buf")
            }
            Op::Poll(e, k) => self.poll_entry(e, k),
            Op::Release(half) => {
                self.op(O_RELEASE);
                self.release(half)?;
                Ok("release")
            }
        }
    }

    fn release(&mut self, half: usize) -> Result<(), Fail> {
        let op = self.st.borrow().blocked_op[half];
        State::release(&self.st, half);
        for e in half * 3..half * 3 + 3 {
            let en = &self.entries[e];
            if en.pending && en.cw.count() == en.count_at {
                return fail(
                    "lost-wake",
                    "async",
                    &format!("{}/inner-{}", ENTRY[e], op.name()),
                    format!(
                        "{} last returned Pending; the inner {} was released (progress possible) but its waker was never woken",
                        ENTRY[e],
                        op.name()
                    ),
                );
            }
        }
        Ok(())
    }

    fn poll_entry(&mut self, e: usize, k: usize) -> Result<&'static str, Fail> {
        let at = ENTRY[e];
        CUR.with(|c| c.set((self.ad_name, at, self.cond())));
        let half = e / 3;
        self.op(O_POLL + e as u32);
        if self.p.rich && choose(4) == 0 {
            // the task moved: a fresh waker for this entry point
            if self.entries[e].pending {
                self.stale_wakers += 1;
            }
            self.entries[e] = Entry::new();
        }
        let waker = self.entries[e].waker.clone();
        let mut cx = Context::from_waker(&waker);
        let (a, eof0, pend0) = (self.avail(), self.eof(), self.pending_w());
        let inflight0 = self.w_inflight;
        let activity0 = {
            let st = self.st.borrow();
            st.write_calls + st.flush_done + st.errs_total
        };
        self.st.borrow_mut().clear_call();
        let Adapter::Poll(s) = &mut self.ad else { unreachable!() };
        let s = s.as_mut();
        // run the call; normalise its result
        enum Res {
            Bytes(io::Result<Vec<u8>>, usize),
            Count(io::Result<usize>, Vec<u8>),
            Unit(io::Result<()>),
        }
        let polled: Poll<Res> = match e {
            0 => {
                let mut buf = vec![0u8; k];
                FRead::poll_read(s, &mut cx, &mut buf).map(|r| {
                    let n = *r.as_ref().unwrap_or(&0);
                    Res::Bytes(r.map(|n| buf[..n.min(k)].to_vec()), n)
                })
            }
            1 => {
                let mut buf = vec![MaybeUninit::<u8>::uninit(); k];
                s.poll_read_uninit(&mut cx, &mut buf).map(|r| {
                    let n = *r.as_ref().unwrap_or(&0);
                    // SAFETY: the adapter claims the first n bytes are initialised (Miri checks the claim).
                    Res::Bytes(r.map(|n| buf[..n.min(k)].iter().map(|b| unsafe { b.assume_init() }).collect()), n)
                })
            }
            2 => FBufRead::poll_fill_buf(s, &mut cx).map(|r| Res::Bytes(r.map(|d| d.to_vec()), 0)),
            3 => {
                let data = (0..k).map(|i| wbyte(self.accepted.len() + i)).collect::<Vec<u8>>();
                FWrite::poll_write(s, &mut cx, &data).map(|r| Res::Count(r, data))
            }
            4 => FWrite::poll_flush(s, &mut cx).map(Res::Unit),
            _ => {
                self.close_started = true;
                FWrite::poll_close(s, &mut cx).map(Res::Unit)
            }
        };
        match polled {
            Poll::Pending => {
                self.log(|| format!("{at}({k}) -> Pending"));
                self.saw_pending = true;
                if half == W {
                    self.w_inflight = true;
                }
                let en = &mut self.entries[e];
                en.pending = true;
                en.count_at = en.cw.count();
                if half == R && (a > 0 || eof0) && (k > 0 || e == 2) {
                    return fail(
                        "spurious-pending",
                        "async",
                        at,
                        format!("{at} returned Pending with {a} bytes buffered, eof={eof0}: progress was possible"),
                    );
                }
                if !self.st.borrow().blocked[half] {
                    return fail(
                        "pending-without-blocked-inner",
                        "async",
                        at,
                        format!("{at} returned Pending although no inner call of that half is blocked: nothing will ever wake the task"),
                    );
                }
            }
            Poll::Ready(res) => {
                self.entries[e].pending = false;
                if half == W {
                    let st = self.st.borrow();
                    let activity = st.write_calls + st.flush_done + st.errs_total;
                    // poll_flush / poll_close only return Ready after their future finished;
                    // poll_write may return Ready without touching the future at all
                    if e != 3 || activity != activity0 {
                        self.w_inflight = false;
                    }
                }
                match res {
                    Res::Bytes(r, n) if e != 2 => {
                        self.log(|| format!("{at}({k}) -> Ready({r:?})"));
                        if n > k {
                            return fail("over-read", "async", at, format!("{at} returned {n} for a buffer of {k}"));
                        }
                        self.check_read(at, k, r, a, eof0)?;
                    }
                    Res::Bytes(r, _) => {
                        self.log(|| format!("{at}() -> Ready({r:?})"));
                        if let Some(j) = self.check_fill_buf(at, r, a, eof0)? {
                            self.op(O_CONSUME);
                            let Adapter::Poll(s) = &mut self.ad else { unreachable!() };
                            FBufRead::consume(s.as_mut(), j);
                            self.handed += j;
                            self.log(|| format!("consume({j})"));
                        }
                    }
                    Res::Count(r, data) => {
                        self.log(|| format!("{at}({k} bytes) -> Ready({r:?})"));
                        if matches!(r, Ok(n) if n > 0) && inflight0 {
                            self.wrote_inflight = true;
                        }
                        self.check_write(at, &data, r, pend0)?;
                    }
                    Res::Unit(r) => {
                        self.log(|| format!("{at}() -> Ready({r:?})"));
                        match r {
                            Ok(()) => {
                                self.after(at)?;
                                self.check_flushed(at)?;
                                if e == 5 {
                                    self.closed_ok = true;
                                }
                            }
                            Err(err) => self.check_err(at, &err)?,
                        }
                    }
                }
            }
        }
        Ok(at)
    }

    // ---- end of program: everything must still come out --------------------

    fn finish(&mut self) -> Result<(), Fail> {
        let rd = self.dir != 1;
        let wr = self.dir != 0;
        self.st.borrow_mut().benign = true;
        self.log(|| "-- drain against a benign inner stream".into());
        let is_sync = matches!(self.ad, Adapter::Sync(_));
        if is_sync {
            if wr {
                // a retry must deliver the unsent bytes
                self.exec(Op::FlushWriteBuf)?;
                self.after("flush_write_buf")?;
                if self.pending_w() > 0 {
                    return fail(
                        "retry-stuck",
                        "sync",
                        "flush_write_buf",
                        format!("a retried flush against a benign inner stream left {} bytes unsent", self.pending_w()),
                    );
                }
            }
            let into_parts = rd && choose(2) == 1;
            if rd && !into_parts {
                let mut rounds = 0;
                loop {
                    rounds += 1;
                    if rounds > 4 * self.p.payload + 64 {
                        return fail("retry-stuck", "sync", "read", "draining the read side does not terminate".into());
                    }
                    let before = self.handed;
                    self.exec(Op::Read(7))?;
                    self.after("read")?;
                    if self.reported_eof {
                        break;
                    }
                    if self.handed == before {
                        self.exec(Op::FillReadBuf)?;
                        self.after("fill_read_buf")?;
                    }
                }
                if self.avail() > 0 {
                    return fail("lost-bytes", "sync", "read", format!("EOF reported with {} produced bytes never handed out", self.avail()));
                }
            }
            let Adapter::Sync(s) = &mut self.ad else { unreachable!() };
            let s = s.take().expect("stream");
            if into_parts {
                self.ops |= 1 << O_INTO_PARTS;
                let (_inner, tail) = s.into_parts();
                let st = self.st.borrow();
                if tail != st.produced[self.handed..] {
                    return fail(
                        "into_parts-tail",
                        "sync",
                        "into_parts",
                        format!("into_parts returned {:?} but the unread tail is {:?}", tail, &st.produced[self.handed..]),
                    );
                }
            } else {
                drop(s.into_inner());
            }
        } else {
            if self.p.rich && choose(8) == 0 {
                // drop with whatever is in flight: only memory safety is checked here
                self.log(|| "-- dropped with futures in flight".into());
                return Ok(());
            }
            for half in [R, W] {
                if self.st.borrow().blocked[half] {
                    self.release(half)?;
                }
            }
            if wr && !self.st.borrow().shut {
                let mut ok = false;
                for _ in 0..4 {
                    self.poll_entry(4, 0)?;
                    self.after("poll_flush")?;
                    if !self.entries[4].pending && self.pending_w() == 0 {
                        ok = true;
                        break;
                    }
                }
                if !ok {
                    return self.wfail(
                        "retry-stuck",
                        "poll_flush",
                        format!("retried poll_flush against a benign inner stream left {} bytes unsent", self.pending_w()),
                    );
                }
            }
            if wr && self.pending_w() > 0 {
                return self.wfail(
                    "lost-bytes",
                    "poll_close",
                    format!("{} accepted bytes never reached the inner stream, which is shut down", self.pending_w()),
                );
            }
            if rd {
                let mut rounds = 0;
                loop {
                    rounds += 1;
                    if rounds > 4 * self.p.payload + 64 {
                        return fail("retry-stuck", "async", "poll_read", "draining the read side does not terminate".into());
                    }
                    self.poll_entry(0, 7)?;
                    self.after("poll_read")?;
                    if self.entries[0].pending {
                        return fail("retry-stuck", "async", "poll_read", "poll_read is Pending against a benign inner stream".into());
                    }
                    if self.reported_eof {
                        break;
                    }
                }
                if self.avail() > 0 {
                    return fail("lost-bytes", "async", "poll_read", format!("EOF reported with {} produced bytes never handed out", self.avail()));
                }
            }
        }
        Ok(())
    }

    /// (coverage signature, trivial?, floor flags)
    fn signature(&self) -> (String, bool, u32) {
        let st = self.st.borrow();
        let c = |bit: u32| st.classes >> bit & 1 == 1;
        // inner script class: what the inner stream did beyond the benign default
        let mut inner = String::new();
        let mut add = |on: bool, name: &str| {
            if on {
                if !inner.is_empty() {
                    inner.push(',');
                }
                inner.push_str(name);
            }
        };
        add(c(C_GIVE_SHORT), "r-short");
        add(c(C_RPEND), "r-pend");
        add(c(C_RERR), "r-err");
        add(c(C_EOF_EARLY), "r-eof-early");
        add(c(C_ACC_SHORT) || c(C_ACC_ZERO), "w-partial");
        add(c(C_WPEND), "w-pend");
        add(c(C_WERR), "w-err");
        add(c(C_FLUSH + 1) || c(C_SHUT + 1), "ctl-pend");
        add(c(C_FLUSH + 2) || c(C_SHUT + 2), "ctl-err");
        add(c(C_AFTER_EOF) || c(C_BROKEN_PIPE) || c(C_ZERO_CAP), "odd");
        let mut calls = String::new();
        for (i, n) in OP_NAMES.iter().enumerate() {
            if self.ops >> i & 1 == 1 {
                if !calls.is_empty() {
                    calls.push(',');
                }
                calls.push_str(n);
            }
        }
        let sig = format!(
            "{}-{}|calls={calls}|inner={inner}|limit={}",
            self.ad_name,
            ["r", "w", "rw"][self.dir],
            self.limit_hit as u8
        );
        let any_pend = c(C_RPEND) || c(C_WPEND) || c(C_FLUSH + 1) || c(C_SHUT + 1);
        let failed_flush = c(C_WERR) || c(C_ACC_ZERO);
        let flags = (self.limit_hit as u32)
            | (any_pend as u32) << 1
            | (failed_flush as u32) << 2
            | (self.reported_eof as u32) << 3
            | (self.saw_wb as u32) << 4
            | (self.compaction as u32) << 5
            | ((self.stale_wakers > 0) as u32) << 6
            | (self.saw_pending as u32) << 7;
        // non-trivial (DESIGN appendix B): at least one WouldBlock / Pending, partial or failed
        // flush, compaction, limit, or any other non-benign inner behaviour
        let nontrivial = !inner.is_empty() || self.limit_hit || self.saw_wb || self.saw_pending || self.compaction;
        (sig, !nontrivial, flags)
    }
}

/// An over-long length claim is a verdict instead of a harness slice panic.
fn unwrap_len(at: &str, ad: &str, k: usize, r: io::Result<(Vec<u8>, usize)>) -> Result<io::Result<Vec<u8>>, Fail> {
    match r {
        Ok((_, n)) if n > k => fail("over-read", ad, at, format!("{at} returned {n} for a buffer of {k}")),
        Ok((d, _)) => Ok(Ok(d)),
        Err(e) => Ok(Err(e)),
    }
}

fn run_program(p: &Params, log: Option<Rc<RefCell<Vec<String>>>>, own: &dyn Fn(&[usize]) -> bool) -> Outcome {
    // configuration
    let ads: Vec<usize> = (0..2).filter(|a| p.adapters >> a & 1 == 1).collect();
    let ad_kind = ads[choose(ads.len())];
    let dir = match p.dirs & 3 {
        1 => 0,
        2 => 1,
        _ if p.rich => [0, 1, 2, 2, 2, 2][choose(6)],
        _ => choose(2),
    };
    let base = p.bases[choose(p.bases.len())];
    let maxes: Vec<usize> = p.maxes.iter().copied().filter(|m| *m >= base).collect();
    let max = if maxes.is_empty() { base } else { maxes[choose(maxes.len())] };
    let payload = if p.rich { choose(p.payload + 1) } else { p.payload };
    let st: Shared = Rc::new(RefCell::new(State {
        rich: p.rich,
        pend: p.pend,
        payload,
        atoms_left: p.max_atoms,
        benign: false,
        produced: Vec::new(),
        received: Vec::new(),
        eof_returned: 0,
        read_calls: 0,
        write_calls: 0,
        flush_done: 0,
        shut: false,
        classes: 0,
        errs: Vec::new(),
        errs_total: 0,
        zero_write: false,
        blocked: [false; 2],
        blocked_op: [InnerOp::Read, InnerOp::Write],
        waker: [None, None],
        log,
    }));
    let ad = if ad_kind == 0 {
        Adapter::Sync(Some(SyncStream::with_limits(base, max, Scripted(st.clone()))))
    } else {
        Adapter::Poll(Box::pin(AsyncStream::with_limits(base, max, (Scripted(st.clone()), Scripted(st.clone())))))
    };
    let ad_name = if ad_kind == 0 { "sync" } else { "async" };
    {
        let s = st.borrow();
        lg!(
            s,
            "{}::with_limits(base_capacity {base}, max_buffer_size {max}), {} side, inner payload {payload}",
            if ad_kind == 0 { "SyncStream" } else { "AsyncStream" },
            ["read", "write", "read+write"][dir]
        );
    }
    let mut run = Run {
        p,
        st: st.clone(),
        ad,
        ad_name,
        dir,
        base,
        max,
        handed: 0,
        accepted: Vec::new(),
        reported_eof: false,
        close_started: false,
        closed_ok: false,
        seen_shut: false,
        wrote_inflight: false,
        w_inflight: false,
        entries: (0..6).map(|_| Entry::new()).collect(),
        ops: 0,
        limit_hit: false,
        saw_wb: false,
        saw_pending: false,
        compaction: false,
        consumed_since_fill: false,
        stale_wakers: 0,
    };
    let own_at = p.own_after.min(p.max_ops);
    let mut result: Result<(), Fail> = Ok(());
    if own_at == 0 && !own(&ch_trace()) {
        return Outcome::Skip;
    }
    for step in 0..p.max_ops {
        let menu = run.menu();
        let op = menu[choose(menu.len())];
        result = run.exec(op).and_then(|at| run.after(at));
        if result.is_err() {
            break;
        }
        if step + 1 == own_at && !own(&ch_trace()) {
            return Outcome::Skip;
        }
    }
    if result.is_ok() {
        result = run.finish();
    }
    let (sig, trivial, flags) = run.signature();
    let leftover = {
        // wakers must be given back once adapter and inner stream are gone
        let entries = std::mem::take(&mut run.entries);
        drop(run);
        let mut s = st.borrow_mut();
        s.waker = [None, None];
        drop(s);
        entries.iter().map(|e| Arc::strong_count(&e.cw).saturating_sub(2)).sum::<usize>()
    };
    LEFTOVER.with(|l| l.set(l.get().max(leftover)));
    match result {
        Ok(()) => Outcome::Done { sig, trivial, flags },
        Err(f) => Outcome::Fail(f),
    }
}

thread_local! {
    /// (adapter, entry point, condition) of the adapter call in progress, for panic signatures.
    static CUR: std::cell::Cell<(&'static str, &'static str, &'static str)> = const { std::cell::Cell::new(("", "", "")) };
    static LEFTOVER: std::cell::Cell<usize> = const { std::cell::Cell::new(0) };
}

// ---------------------------------------------------------------------------
// Driver
// ---------------------------------------------------------------------------

fn replay_value(p: &Params, choices: &[usize], steps: &[String]) -> Value {
    json!({"params": p.to_json(), "choices": choices, "steps": steps})
}

/// Re-run a choice sequence with logging to obtain the readable call script.
fn explain(p: &Params, choices: &[usize]) -> Vec<String> {
    let saved = uninstall();
    install(Src::Rep(ReplayChooser::new(choices.to_vec())));
    let steps = Rc::new(RefCell::new(Vec::new()));
    let mut q = p.clone();
    q.own_after = usize::MAX;
    let _ = panics::catch(|| run_program(&q, Some(steps.clone()), &|_| true));
    let _ = uninstall();
    install(saved);
    steps.take()
}

fn execute(p: &Params, rep: &mut Report, own: &dyn Fn(&[usize]) -> bool) {
    let r = panics::catch(|| run_program(p, None, own));
    let choices = ch_trace();
    match r {
        Ok(Outcome::Skip) => {}
        Ok(Outcome::Done { sig, trivial, flags }) => {
            if rep.want_sample() && !trivial && choices.len() >= 8 {
                let steps = explain(p, &choices);
                rep.sample(replay_value(p, &choices, &steps));
            }
            for (i, name) in FLOORS.iter().enumerate() {
                rep.floor(name, flags >> i & 1 == 1);
            }
            rep.eval(if trivial { None } else { Some(sig) });
        }
        Ok(Outcome::Fail(f)) if f.sig == "inconclusive" => {
            rep.eval(None);
            rep.inconclusive(&f.what);
        }
        Ok(Outcome::Fail(f)) => {
            rep.eval(None);
            let steps = explain(p, &choices);
            rep.violation(&f.sig, &f.what, replay_value(p, &choices, &steps));
        }
        Err(pi) => {
            rep.eval(None);
            let (ad, at, cond) = CUR.with(|c| c.get());
            let mut steps = explain(p, &choices);
            steps.push(format!("{at}(..) panics"));
            match pi.origin() {
                panics::Origin::Repo(_) => {
                    let sig = if cond == INFLIGHT {
                        format!("C12/{INFLIGHT}/{ad}")
                    } else {
                        format!("C12/{}/{ad}/{at}", pi.sig())
                    };
                    rep.violation(
                        &sig,
                        &format!("panic in compio during {at} at {}:{}: {} (condition: {cond})", pi.file, pi.line, pi.message),
                        replay_value(p, &choices, &steps),
                    )
                }
                o => rep.inconclusive(&format!("harness panic {o:?}: {}", pi.message)),
            }
        }
    }
}

const FLOORS: [&str; 8] = [
    "limit-reached",
    "inner-pending-then-released",
    "failed-or-zero-flush-then-retry",
    "eof-reported",
    "sync-wouldblock-seen",
    "read-buffer-compaction",
    "waker-replaced-while-pending",
    "poll-pending-seen",
];

fn usize_list(args: &Args, k: &str, d: &[usize]) -> Vec<usize> {
    match args.get(k) {
        Some(s) => s.split(',').filter_map(|x| x.trim().parse().ok()).collect(),
        None => d.to_vec(),
    }
}

pub fn main(args: &Args) {
    let mut rep = Report::from_args("C12", &args.str("leg", "native"), args);
    let shard = args.shard();
    let nshards = args.nshards();
    let adapters = args.usize("adapters", 3) & 3;
    let dirs = args.usize("dirs", 3) & 3;
    let pend = args.usize("pend", 1) != 0;

    if let Some(path) = args.get("replay") {
        let text = std::fs::read_to_string(path).expect("replay file");
        let v: Value = vcommon::serde_json::from_str(&text).expect("replay json");
        let prog = &v["program"];
        let p = Params::from_json(&prog["params"]);
        let choices: Vec<usize> = prog["choices"]
            .as_array()
            .map(|a| a.iter().map(|x| x.as_u64().unwrap_or(0) as usize).collect())
            .unwrap_or_default();
        install(Src::Rep(ReplayChooser::new(choices)));
        execute(&p, &mut rep, &|_| true);
        let _ = uninstall();
        rep.finish();
        return;
    }

    // --- exhaustive part: iterative deepening over the number of calls
    let ex_ops = args.usize("ex-ops", if args.thorough() { 6 } else { 5 });
    let ex_atoms = args.usize("ex-atoms", if args.thorough() { 4 } else { 3 });
    if ex_ops > 0 {
        let mut complete = true;
        let mut total: u64 = 0;
        'deep: for depth in 1..=ex_ops {
            let p = Params {
                mode: "exhaustive".into(),
                max_ops: depth,
                max_atoms: ex_atoms,
                payload: args.usize("ex-payload", 12),
                bases: usize_list(args, "ex-bases", &[1, 2, 4]),
                maxes: usize_list(args, "ex-maxes", &[4, 8]),
                rsizes: usize_list(args, "ex-rsizes", &[1, 3]),
                wsizes: usize_list(args, "ex-wsizes", &[1, 3, 5]),
                rich: false,
                adapters,
                dirs,
                pend,
                own_after: 3,
            };
            let own = |t: &[usize]| {
                let h = t.iter().fold(0xcbf29ce484222325u64, |h, x| (h ^ *x as u64).wrapping_mul(0x100000001b3));
                (h >> 7) % nshards == shard
            };
            let mut od = Odometer::new();
            loop {
                if !od.advance() {
                    break;
                }
                install(Src::Od(od));
                execute(&p, &mut rep, &own);
                let Src::Od(back) = uninstall() else { unreachable!() };
                od = back;
                total += 1;
                if rep.out_of_time() {
                    complete = false;
                    break 'deep;
                }
            }
        }
        rep.set_exhaustive(complete);
        rep.count("exhaustive_programs_generated", total as i64);
        rep.note(format!(
            "exhaustive bound: calls<={ex_ops} (iterative deepening), non-benign inner atoms<={ex_atoms}, base in {{1,2,4}}, max in {{4,8}}, complete={complete}"
        ));
    }

    // --- random part
    let iters = args.iters(20_000, 300_000);
    let p = Params {
        mode: "random".into(),
        max_ops: args.usize("rnd-ops", 40),
        max_atoms: args.usize("rnd-atoms", 1000),
        payload: args.usize("rnd-payload", 200),
        bases: usize_list(args, "rnd-bases", &[1, 2, 3, 4, 5, 8, 16]),
        maxes: usize_list(args, "rnd-maxes", &[4, 8, 13, 32, 64]),
        rsizes: usize_list(args, "rnd-rsizes", &[0, 1, 2, 3, 7, 20]),
        wsizes: usize_list(args, "rnd-wsizes", &[0, 1, 2, 3, 5, 9, 20]),
        rich: true,
        adapters,
        dirs,
        pend,
        own_after: usize::MAX,
    };
    let base = Rng::new(args.seed()).fork(shard + 1);
    for i in 0..iters {
        if rep.out_of_time() {
            break;
        }
        install(Src::Rnd(RandomChooser::new(base.fork(i as u64))));
        execute(&p, &mut rep, &|_| true);
        let _ = uninstall();
    }
    rep.max("waker_clones_left_after_drop", LEFTOVER.with(|l| l.get()) as i64);
    rep.finish();
}
