//! C12 blocking-style and poll-style adapters are lossless FIFO pipes — not built yet.

use vcommon::Args;

pub fn main(_args: &Args) {
    eprintln!("c12: not implemented");
    std::process::exit(3);
}
