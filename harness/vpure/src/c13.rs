//! C13 — framing and ancillary codecs: round trip and hostile-input safety.
//!
//! Parts (select with `--parts a,b,...`, default all):
//! * `rt-ex`     every composition x every EOF placement for all streams up to
//!               `--ex-n` bytes (frame lists over payload lengths {0,1,2,3});
//! * `rt-cuts`   every pair of cut points / (EOF, cut) pair for streams up to
//!               `--cuts-n` bytes (payload lengths {0,2,9});
//! * `rt-rand`   seeded frame lists with boundary payload lengths, all
//!               framers x codecs, short-write scripts, sink modes,
//!               fragmentation and EOF classes;
//! * `hostile-ex`/`hostile-rand`  peer byte strings (alphabet enumeration,
//!               boundary dictionary, random) against a reference parser;
//! * `custom-err` a user framer that returns `Err` (max frame length);
//! * `anc-ex`/`anc-rand`/`anc-hostile`  control messages
//!               (see c13_anc.rs).

#[path = "c13_anc.rs"]
mod anc;
#[path = "c13_frame.rs"]
mod frame;
#[path = "c13_io.rs"]
mod io;

use compio_buf::bytes::Bytes;
use vcommon::{Args, Report, Rng, Value, json, panics};

use self::{
    frame::{Cd, Exp, Fail, Fr, Items, Msg, all_framers},
    io::{hex, unhex},
};

// ---------------------------------------------------------------------------
// Item specifications (replayable descriptions of payloads)
// ---------------------------------------------------------------------------

#[derive(Clone, Debug, PartialEq)]
pub enum Spec {
    B { len: usize, pat: u8 },
    V { len: usize },
    M { seed: u64, name_len: usize, data_len: usize, poison: bool },
}


fn gen_bytes(fr: Fr, pat: u8, idx: usize, len: usize) -> Vec<u8> {
    let alpha = |i: usize| b'A' + ((idx * 7 + i) % 26) as u8;
    let v: Vec<u8> = match pat {
        0 => (0..len).map(alpha).collect(),
        1 => {
            if let Some(d) = fr.delim() {
                // ends with / starts with a proper prefix of the delimiter
                let p = &d[..d.len() - 1];
                let k = p.len().min(len);
                let mut a: Vec<u8> = (0..len - k).map(|_| b'x').collect();
                a.extend_from_slice(&p[..k]);
                if fr.representable(&a).is_ok() {
                    a
                } else {
                    let mut b = p[..k].to_vec();
                    b.extend((0..len - k).map(|_| b'x'));
                    b
                }
            } else {
                // looks like length fields
                (0..len).map(|i| [0u8, 1, 2, 0, 0xff, 0, 0, 3][(idx + i) % 8]).collect()
            }
        }
        _ => {
            let mut r = Rng::new(0xC13 ^ (idx as u64) << 32 ^ len as u64);
            let mut v = r.bytes(len);
            if let Some(d) = fr.delim() {
                for b in v.iter_mut() {
                    if d.contains(b) {
                        *b = b'y';
                    }
                }
            }
            v
        }
    };
    if fr.delim().is_some() && fr.representable(&v).is_err() { (0..len).map(alpha).collect() } else { v }
}

fn gen_value(len: usize) -> Value {
    // a JSON text of exactly `len` bytes where possible
    match len {
        0 | 1 => json!(0),
        2 => json!(""),
        3 => json!("a"),
        4 => Value::Null,
        _ => Value::String("a".repeat(len - 2)),
    }
}

fn gen_msg(seed: u64, name_len: usize, data_len: usize, poison: bool) -> Msg {
    let mut r = Rng::new(seed);
    let alphabet = ['a', 'Z', '0', ' ', '"', '\\', 'é', '\n', '{', ','];
    Msg {
        id: r.next_u64() as u32,
        name: (0..name_len).map(|_| *r.pick(&alphabet)).collect(),
        data: r.bytes(data_len),
        opt: if r.chance(1, 2) { Some(r.next_u64() as i64) } else { None },
        poison,
    }
}

fn build_items(fr: Fr, specs: &[Spec]) -> Items {
    match specs.first() {
        None | Some(Spec::B { .. }) => Items::B(
            specs
                .iter()
                .enumerate()
                .map(|(i, s)| match s {
                    Spec::B { len, pat } => Bytes::from(gen_bytes(fr, *pat, i, *len)),
                    _ => Bytes::new(),
                })
                .collect(),
        ),
        Some(Spec::V { .. }) => Items::V(
            specs
                .iter()
                .map(|s| match s {
                    Spec::V { len } => gen_value(*len),
                    _ => Value::Null,
                })
                .collect(),
        ),
        Some(Spec::M { .. }) => Items::M(
            specs
                .iter()
                .map(|s| match s {
                    Spec::M { seed, name_len, data_len, poison } => gen_msg(*seed, *name_len, *data_len, *poison),
                    _ => gen_msg(0, 0, 0, false),
                })
                .collect(),
        ),
    }
}

fn spec_json(s: &Spec) -> Value {
    match s {
        Spec::B { len, pat } => json!({"t": "B", "len": len, "pat": pat}),
        Spec::V { len } => json!({"t": "V", "len": len}),
        Spec::M { seed, name_len, data_len, poison } => json!({"t": "M", "seed": seed, "name_len": name_len, "data_len": data_len, "poison": poison}),
    }
}

fn spec_parse(v: &Value) -> Spec {
    let u = |k: &str| v[k].as_u64().unwrap_or(0);
    match v["t"].as_str().unwrap_or("B") {
        "V" => Spec::V { len: u("len") as usize },
        "M" => Spec::M { seed: u("seed"), name_len: u("name_len") as usize, data_len: u("data_len") as usize, poison: v["poison"].as_bool().unwrap_or(false) },
        _ => Spec::B { len: u("len") as usize, pat: u("pat") as u8 },
    }
}

/// Payload bytes per item as the codec produces them (None = item cannot be
/// encoded).
fn payloads(cd: Cd, items: &Items) -> Vec<Option<Vec<u8>>> {
    let js = |v: &dyn Fn() -> Result<Vec<u8>, serde_json::Error>| v().ok();
    match items {
        Items::B(v) => v.iter().map(|b| Some(b.to_vec())).collect(),
        Items::V(v) => v
            .iter()
            .map(|x| js(&|| if cd == Cd::JsonPretty { serde_json::to_vec_pretty(x) } else { serde_json::to_vec(x) }))
            .collect(),
        Items::M(v) => v
            .iter()
            .map(|x| js(&|| if cd == Cd::JsonPretty { serde_json::to_vec_pretty(x) } else { serde_json::to_vec(x) }))
            .collect(),
    }
}

fn expected_of(items: &Items, keep: &[bool]) -> Exp {
    fn f<T: Clone>(v: &[T], keep: &[bool]) -> Vec<Option<T>> {
        v.iter().zip(keep).filter(|(_, k)| **k).map(|(x, _)| Some(x.clone())).collect()
    }
    match items {
        Items::B(v) => Exp::B(f(v, keep)),
        Items::V(v) => Exp::V(f(v, keep)),
        Items::M(v) => Exp::M(f(v, keep)),
    }
}

// ---------------------------------------------------------------------------
// Classes
// ---------------------------------------------------------------------------

fn cuts_of(frags: &[usize], k: usize) -> Vec<usize> {
    let mut v = Vec::new();
    let mut p = 0;
    for f in frags {
        p += f;
        if p >= k {
            break;
        }
        v.push(p);
    }
    v
}

fn frame_of(bounds: &[usize], pos: usize) -> Option<(usize, usize)> {
    // frame [start, end) with start < pos < end
    let mut start = 0;
    for b in bounds {
        if pos > start && pos < *b {
            return Some((start, *b));
        }
        start = *b;
    }
    None
}

fn in_header(fr: Fr, bounds: &[usize], pos: usize) -> bool {
    match frame_of(bounds, pos) {
        Some((s, e)) => {
            let (hs, he) = fr.header_range(s, e);
            pos > hs && pos < he
        }
        None => false,
    }
}

fn frag_class(fr: Fr, bounds: &[usize], frags: &[usize], k: usize) -> &'static str {
    if k == 0 {
        return "empty";
    }
    let cuts = cuts_of(frags, k);
    if cuts.is_empty() {
        return "whole";
    }
    if cuts.len() == k - 1 {
        return "bytewise";
    }
    if cuts.iter().any(|c| in_header(fr, bounds, *c)) {
        return "hdr-split";
    }
    if cuts.iter().all(|c| bounds.contains(c)) {
        return "at-boundaries";
    }
    "payload-split"
}

fn cut_class(fr: Fr, bounds: &[usize], k: usize, n: usize) -> &'static str {
    if k >= n {
        return "full";
    }
    if k == 0 {
        return "nothing";
    }
    if bounds.contains(&k) {
        return "at-boundary";
    }
    if fr == Fr::Noop {
        return "mid";
    }
    if in_header(fr, bounds, k) || frame_of(bounds, k).is_some_and(|(s, e)| fr.header_range(s, e).1 == k && fr.len_params().is_none()) {
        return "in-header";
    }
    // exactly after a complete length header counts as in-payload
    "in-payload"
}

fn vsig(rule: &str, fr: Fr, cd: Cd, cond: &str) -> String {
    format!("C13/{rule}/{}/{}/{cond}", fr.kind(), cd.name())
}

// ---------------------------------------------------------------------------
// Context
// ---------------------------------------------------------------------------

pub struct Ctx {
    pub rep: Report,
    pub shard: u64,
    pub nshards: u64,
    pub rr: u64,
    pub rng: Rng,
    pub thorough: bool,
    pub incomplete: bool,
    pub tick: u64,
}

impl Ctx {
    /// Round-robin ownership of enumerated cases.
    pub fn mine(&mut self) -> bool {
        let m = self.rr % self.nshards == self.shard;
        self.rr += 1;
        m
    }

    fn panic_verdict(&mut self, p: &panics::PanicInfo, fr: Fr, cd: Cd, cond: &str, replay: Value) {
        match p.origin() {
            panics::Origin::Repo(loc) => {
                let _ = cd;
                self.rep.violation(&format!("C13/{}/{}/{cond}", p.sig(), fr.kind()), &format!("panic in compio at {loc}: {}", p.message), replay);
            }
            o => self.rep.inconclusive(&format!("harness/foreign panic {o:?}: {}", p.message.chars().take(120).collect::<String>())),
        }
    }
}

// ---------------------------------------------------------------------------
// Round trip
// ---------------------------------------------------------------------------

/// A frame list encoded through the real Sink half, ready for deliveries.
struct Encoded {
    fr: Fr,
    cd: Cd,
    specs: Vec<Spec>,
    wscript: Vec<usize>,
    mode: u8,
    exp: Exp,
    stream: Vec<u8>,
    bounds: Vec<usize>,
    m: usize,
    /// Some(class) when the list is outside what the wire format can carry.
    unrepresentable: Option<&'static str>,
}

impl Encoded {
    fn replay(&self, frags: &[usize], cut: Option<usize>) -> Value {
        json!({"part": "frame", "framer": self.fr.name(), "codec": self.cd.name(),
               "items": self.specs.iter().map(spec_json).collect::<Vec<_>>(),
               "wscript": self.wscript, "mode": self.mode, "frags": frags, "cut": cut,
               "stream_len": self.stream.len(), "stream_head": hex(&self.stream[..self.stream.len().min(48)]), "bounds": self.bounds})
    }
}

/// Encode through the real Sink (mode 0 for the boundaries, then `mode`),
/// check the sink-side rules. None = case abandoned (verdict already given).
fn encode(ctx: &mut Ctx, fr: Fr, cd: Cd, specs: &[Spec], wscript: &[usize], mode: u8) -> Option<Encoded> {
    let items = build_items(fr, specs);
    let pl = payloads(cd, &items);
    let keep: Vec<bool> = pl.iter().map(|p| p.is_some()).collect();
    let mut unrepresentable = None;
    for p in pl.iter().flatten() {
        if let Err(c) = fr.representable(p) {
            if c == "payload-contains-delimiter" {
                ctx.rep.count("skipped_payload_contains_delimiter", 1);
                return None;
            }
            unrepresentable = Some(c);
        }
    }
    let replay = |what: &str| json!({"part": "frame", "framer": fr.name(), "codec": cd.name(), "items": specs.iter().map(spec_json).collect::<Vec<_>>(), "wscript": wscript, "mode": mode, "frags": [], "cut": null, "stage": what});
    let cond = unrepresentable.unwrap_or("sink");
    let enc0 = match panics::catch(|| frame::encode_case(fr, cd, &items, wscript, 0)) {
        Ok(Ok(o)) => o,
        Ok(Err(e)) => {
            ctx.rep.violation(&vsig("sink-stalled", fr, cd, cond), &e, replay("sink"));
            return None;
        }
        Err(p) => {
            ctx.panic_verdict(&p, fr, cd, cond, replay("sink"));
            return None;
        }
    };
    // per-item outcome of the sink
    for (i, (e, k)) in enc0.item_errors.iter().zip(&keep).enumerate() {
        if *e == *k {
            ctx.rep.violation(
                &vsig(if *e { "sink-rejected-item" } else { "sink-accepted-unencodable-item" }, fr, cd, cond),
                &format!("item {i}: sink error={e}, encodable={k}"),
                replay("sink"),
            );
            return None;
        }
    }
    let mut bounds = Vec::new();
    let mut prev = 0usize;
    for (i, b) in enc0.bounds.iter().enumerate() {
        if keep[i] {
            if *b <= prev && fr != Fr::Noop && !(fr.delim().is_none() && fr.len_params().is_none()) {
                ctx.rep.violation(&vsig("sink-wrote-nothing", fr, cd, cond), &format!("item {i} added no bytes to the stream"), replay("sink"));
                return None;
            }
            bounds.push(*b);
        } else if *b != prev {
            ctx.rep.violation(&vsig("sink-leaked-failed-item", fr, cd, cond), &format!("item {i} failed to encode but {} bytes reached the writer", b - prev), replay("sink"));
            return None;
        }
        prev = *b;
    }
    if unrepresentable.is_none() {
        let mut want = Vec::new();
        for p in pl.iter().flatten() {
            want.extend_from_slice(&fr.ref_encode(p));
        }
        if want != enc0.stream {
            let at = want.iter().zip(&enc0.stream).position(|(a, b)| a != b).unwrap_or(want.len().min(enc0.stream.len()));
            ctx.rep.violation(
                &vsig("wire-format", fr, cd, "sink"),
                &format!("stream written by the Sink differs from the documented format at offset {at} (lengths {} vs {})", enc0.stream.len(), want.len()),
                replay("sink"),
            );
            return None;
        }
    }
    if mode != 0 {
        match panics::catch(|| frame::encode_case(fr, cd, &items, wscript, mode)) {
            Ok(Ok(o)) => {
                if o.stream != enc0.stream {
                    ctx.rep.violation(
                        &vsig("sink-mode-changes-stream", fr, cd, ["send", "feed+flush", "feed+close", "send+close"][mode as usize]),
                        &format!("send-each wrote {} bytes, this mode {}", enc0.stream.len(), o.stream.len()),
                        replay("sink"),
                    );
                    return None;
                }
                // observations outside the statement: counted, not judged
                if !o.flush_last {
                    ctx.rep.count("obs_sink_flush_or_shutdown_not_forwarded_after_last_write", 1);
                }
                if mode >= 2 && !o.shutdown && !specs.is_empty() {
                    ctx.rep.count("obs_sink_close_without_shutdown", 1);
                }
            }
            Ok(Err(e)) => {
                ctx.rep.violation(&vsig("sink-stalled", fr, cd, cond), &e, replay("sink"));
                return None;
            }
            Err(p) => {
                ctx.panic_verdict(&p, fr, cd, cond, replay("sink"));
                return None;
            }
        }
    }
    ctx.rep.max("max_stream_len", enc0.stream.len() as i64);
    Some(Encoded {
        fr,
        cd,
        specs: specs.to_vec(),
        wscript: wscript.to_vec(),
        mode,
        exp: expected_of(&items, &keep),
        m: bounds.len(),
        stream: enc0.stream,
        bounds,
        unrepresentable,
    })
}

/// One delivery of (a prefix of) the encoded stream. Returns false when a
/// violation was recorded.
fn deliver(ctx: &mut Ctx, e: &Encoded, frags: &[usize], cut: Option<usize>, mode_tag: &str) -> bool {
    ctx.tick += 1;
    if (cfg!(miri) || ctx.tick % 256 == 0) && ctx.rep.out_of_time() {
        if mode_tag != "rnd" {
            ctx.incomplete = true;
        }
        return false;
    }
    let n = e.stream.len();
    let k = cut.unwrap_or(n).min(n);
    let data = &e.stream[..k];
    let fc = frag_class(e.fr, &e.bounds, frags, k);
    let cc = cut_class(e.fr, &e.bounds, k, n);
    let cond = match e.unrepresentable {
        Some(c) => c.to_string(),
        None => format!("cut={cc}"),
    };
    let r = panics::catch(|| frame::decode_case(e.fr, e.cd, &e.exp, &e.bounds, data, frags, false));
    match r {
        Ok((None, st)) => {
            let trivial = fc == "whole" && cc == "full" && e.m <= 1 || n == 0;
            ctx.rep.max("max_reads_minus_len", st.reads as i64 - k as i64);
            if trivial {
                ctx.rep.eval(None);
            } else {
                ctx.rep.eval(Some(format!("{mode_tag}/{}/{}/m{}/{fc}/{cc}", e.fr.name(), e.cd.name(), e.m.min(5))));
            }
            if cc == "in-header" || cc == "in-payload" {
                ctx.rep.floor("saw-trailing-partial-frame", true);
            }
            if fc == "hdr-split" {
                ctx.rep.floor("saw-fragment-splitting-a-header", true);
            }
            if ctx.rep.want_sample() && !trivial && e.m >= 2 && frags.len() >= 2 {
                ctx.rep.sample(e.replay(frags, cut));
            }
            true
        }
        Ok((Some(Fail { rule, what }), _)) => {
            ctx.rep.eval(None);
            let sig = match e.unrepresentable {
                Some(c) => format!("C13/roundtrip-broken/{}/{c}", e.fr.kind()),
                None => vsig(rule, e.fr, e.cd, &cond),
            };
            ctx.rep.violation(
                &sig,
                &format!("{} [{} frames, stream {n} bytes, delivered {k} as {fc}, {rule}]: {what}", e.fr.name(), e.m),
                e.replay(frags, cut),
            );
            false
        }
        Err(p) => {
            ctx.rep.eval(None);
            ctx.panic_verdict(&p, e.fr, e.cd, &cond, e.replay(frags, cut));
            false
        }
    }
}

fn mask_frags(mask: u64, k: usize) -> Vec<usize> {
    // bit i set = cut after byte i+1
    let mut v = Vec::new();
    let mut last = 0;
    for i in 0..k.saturating_sub(1) {
        if mask >> i & 1 == 1 {
            v.push(i + 1 - last);
            last = i + 1;
        }
    }
    if k > last {
        v.push(k - last);
    }
    v
}

/// All frame lists (as payload-length vectors) over `lens`, 0..=max_frames.
fn lists(lens: &[usize], min_frames: usize, max_frames: usize) -> Vec<Vec<usize>> {
    let mut out = Vec::new();
    let mut cur: Vec<Vec<usize>> = vec![vec![]];
    for depth in 0..=max_frames {
        if depth >= min_frames {
            out.extend(cur.iter().cloned());
        }
        if depth == max_frames {
            break;
        }
        let mut next = Vec::new();
        for c in &cur {
            for l in lens {
                let mut d = c.clone();
                d.push(*l);
                next.push(d);
            }
        }
        cur = next;
    }
    out
}

fn overhead(fr: Fr) -> usize {
    fr.len_params().map(|p| p.0).or(fr.delim().map(|d| d.len())).unwrap_or(0)
}

struct ExCase {
    fr: Fr,
    cd: Cd,
    specs: Vec<Spec>,
    n: usize,
}

fn ex_cases(lens: &[usize], min_frames: usize, min_n: usize, max_n: usize, with_json: bool) -> Vec<ExCase> {
    let mut v = Vec::new();
    let ls = lists(lens, min_frames, 4);
    for fr in all_framers() {
        let oh = overhead(fr);
        for l in &ls {
            let n: usize = l.iter().map(|x| x + oh).sum();
            if n < min_n || n > max_n {
                continue;
            }
            for pat in [0u8, 1] {
                if pat == 1 && (l.iter().all(|x| *x == 0) || fr == Fr::Noop) {
                    continue;
                }
                v.push(ExCase { fr, cd: Cd::Bytes, specs: l.iter().map(|len| Spec::B { len: *len, pat }).collect(), n });
            }
        }
    }
    if with_json {
        let jf = [Fr::Len { w: 1, be: true }, Fr::Len { w: 2, be: false }, Fr::Len { w: 4, be: true }, Fr::Line, Fr::CharR, Fr::Any(0)];
        let jl = lists(&[1, 2, 3, 4], 1, 3);
        for fr in jf {
            let oh = overhead(fr);
            for l in &jl {
                let n: usize = l.iter().map(|x| x + oh).sum();
                if n < min_n || n > max_n {
                    continue;
                }
                v.push(ExCase { fr, cd: Cd::Json, specs: l.iter().map(|len| Spec::V { len: *len }).collect(), n });
            }
        }
    }
    // heavy first, so that round-robin sharding balances
    v.sort_by(|a, b| b.n.cmp(&a.n));
    v
}

fn part_rt_ex(ctx: &mut Ctx, max_n: usize) {
    let cases = ex_cases(&[0, 1, 2, 3], 0, 0, max_n, true);
    let mut done = 0u64;
    for c in &cases {
        if !ctx.mine() {
            continue;
        }
        if ctx.rep.out_of_time() {
            ctx.incomplete = true;
            break;
        }
        let Some(e) = encode(ctx, c.fr, c.cd, &c.specs, &[], 0) else { continue };
        let n = e.stream.len();
        'cuts: for k in 0..=n {
            let combos = 1u64 << k.saturating_sub(1);
            for mask in 0..combos {
                let frags = mask_frags(mask, k);
                if !deliver(ctx, &e, &frags, if k == n { None } else { Some(k) }, "ex") {
                    break 'cuts;
                }
            }
        }
        done += 1;
    }
    ctx.rep.count("rt_ex_lists", done as i64);
    ctx.rep.note(format!("rt-ex: all compositions x all EOF placements for every stream <= {max_n} bytes, lists of 0..=4 frames over payload lengths {{0,1,2,3}}, {} (framer, codec, list, content) cases in total", cases.len()));
}

fn part_rt_cuts(ctx: &mut Ctx, max_n: usize) {
    let cases = ex_cases(&[0, 2, 9], 2, 13, max_n, false);
    let mut done = 0u64;
    for c in &cases {
        if !ctx.mine() {
            continue;
        }
        if ctx.rep.out_of_time() {
            ctx.incomplete = true;
            break;
        }
        // short writes on the sink side as a function of the case
        let ws: Vec<usize> = match done % 3 {
            0 => vec![],
            1 => vec![1],
            _ => vec![3, 1, 7],
        };
        let Some(e) = encode(ctx, c.fr, c.cd, &c.specs, &ws, (done % 4) as u8) else { continue };
        let n = e.stream.len();
        let mut ok = true;
        // full stream: every pair of cut points (i <= j; i == j is a single cut)
        'a: for i in 1..n {
            for j in i..n {
                let frags = if i == j { vec![i, n - i] } else { vec![i, j - i, n - j] };
                if !deliver(ctx, &e, &frags, None, "cuts") {
                    ok = false;
                    break 'a;
                }
            }
        }
        // every EOF placement x every single cut before it
        if ok {
            'b: for k in 0..n {
                for i in 0..k.max(1) {
                    let frags = if i == 0 { vec![k] } else { vec![i, k - i] };
                    if !deliver(ctx, &e, &frags, Some(k), "cuts") {
                        break 'b;
                    }
                }
            }
        }
        done += 1;
    }
    ctx.rep.count("rt_cuts_lists", done as i64);
    ctx.rep.note(format!("rt-cuts: all cut pairs and all (EOF, cut) pairs for every stream of 13..={max_n} bytes, lists of 2..=4 frames over payload lengths {{0,2,9}}, {} cases in total", cases.len()));
}

const RND_LENS: [usize; 23] = [0, 1, 2, 3, 7, 8, 15, 16, 17, 63, 64, 65, 254, 255, 256, 257, 1000, 4095, 4096, 4097, 65535, 65536, 70000];

fn pick_len(r: &mut Rng, max_len: usize) -> usize {
    let pool: Vec<usize> = RND_LENS.iter().copied().filter(|l| *l <= max_len).collect();
    match r.below(10) {
        0..=4 => pool[r.below(pool.len().min(10))],
        5..=7 => pool[r.below(pool.len().min(16))],
        8 => pool[r.below(pool.len())],
        _ => r.below(max_len.min(300) + 1),
    }
}

fn random_frags(r: &mut Rng, fr: Fr, bounds: &[usize], k: usize) -> Vec<usize> {
    if k == 0 {
        return vec![];
    }
    let from_cuts = |mut cuts: Vec<usize>| {
        cuts.retain(|c| *c > 0 && *c < k);
        cuts.sort();
        cuts.dedup();
        let mut v = Vec::new();
        let mut last = 0;
        for c in cuts {
            v.push(c - last);
            last = c;
        }
        v.push(k - last);
        v
    };
    match r.below(7) {
        0 => vec![k],
        1 if k <= 6000 => vec![1; k],
        2 => {
            let c = r.range(2, 17);
            let mut v = vec![c; k / c];
            if k % c > 0 {
                v.push(k % c);
            }
            v
        }
        3 => {
            // a cut inside every header / delimiter that has an inside
            let mut cuts = Vec::new();
            let mut s = 0;
            for b in bounds {
                let (hs, he) = fr.header_range(s, *b);
                if he - hs >= 2 {
                    cuts.push(r.range(hs + 1, he - 1));
                }
                if r.chance(1, 3) {
                    cuts.push(r.range(s, *b));
                }
                s = *b;
            }
            from_cuts(cuts)
        }
        4 => from_cuts(bounds.to_vec()),
        5 => from_cuts(bounds.iter().map(|b| if r.chance(1, 2) { b + 1 } else { b.saturating_sub(1) }).collect()),
        _ => {
            let nc = r.below(k.min(12)) + 1;
            from_cuts((0..nc).map(|_| r.below(k)).collect())
        }
    }
}

fn random_cut(r: &mut Rng, fr: Fr, bounds: &[usize], n: usize) -> Option<usize> {
    if n == 0 {
        return None;
    }
    match r.below(8) {
        0..=2 => None,
        3 => Some(r.below(n)),
        4 if !bounds.is_empty() => Some(*r.pick(bounds)).filter(|b| *b < n),
        5 if !bounds.is_empty() => {
            // inside a header / delimiter
            let i = r.below(bounds.len());
            let s = if i == 0 { 0 } else { bounds[i - 1] };
            let (hs, he) = fr.header_range(s, bounds[i]);
            if he > hs { Some(r.range(hs, he - 1).max(1).min(n - 1)) } else { Some(r.below(n)) }
        }
        6 => Some(n - 1),
        _ => Some(r.below(n)),
    }
}

fn part_rt_rand(ctx: &mut Ctx, iters: usize, max_len: usize) {
    let frs = all_framers();
    let base = ctx.rng.fork(0x5254);
    for it in 0..iters {
        if ctx.rep.out_of_time() {
            break;
        }
        let mut r = base.fork(it as u64);
        let fr = *r.pick(&frs);
        let m = match r.below(10) {
            0 => 0,
            1..=2 => 1,
            3..=7 => r.range(2, 4),
            _ => r.range(5, 8),
        };
        let ty = if fr == Fr::Noop { 0 } else { r.below(4) };
        let mut cd = Cd::Bytes;
        let specs: Vec<Spec> = (0..m)
            .map(|_| {
                let len = pick_len(&mut r, max_len);
                match ty {
                    0 | 1 => Spec::B { len, pat: r.below(3) as u8 },
                    2 => {
                        cd = Cd::Json;
                        Spec::V { len }
                    }
                    _ => {
                        cd = if fr.len_params().is_some() && r.chance(1, 3) { Cd::JsonPretty } else { Cd::Json };
                        Spec::M { seed: r.next_u64(), name_len: r.size(len.min(2000)), data_len: r.size(len.min(3000) / 4), poison: r.chance(1, 12) }
                    }
                }
            })
            .collect();
        if matches!(specs.first(), Some(Spec::V { .. } | Spec::M { .. })) && cd == Cd::Bytes {
            cd = Cd::Json;
        }
        let ws: Vec<usize> = match r.below(4) {
            0 | 1 => vec![],
            2 => vec![r.range(1, 5)],
            _ => (0..r.range(1, 4)).map(|_| r.size(40).max(1)).collect(),
        };
        let mode = r.below(4) as u8;
        let Some(e) = encode(ctx, fr, cd, &specs, &ws, mode) else { continue };
        if e.unrepresentable.is_some() {
            ctx.rep.floor("saw-payload-exceeding-length-field", true);
        }
        if specs.iter().any(|s| matches!(s, Spec::M { poison: true, .. })) {
            ctx.rep.floor("saw-unencodable-item-in-sink", true);
        }
        let n = e.stream.len();
        for _ in 0..r.range(2, 5) {
            let cut = random_cut(&mut r, fr, &e.bounds, n);
            let frags = random_frags(&mut r, fr, &e.bounds, cut.unwrap_or(n));
            if !deliver(ctx, &e, &frags, cut, "rnd") {
                break;
            }
        }
    }
}

// ---------------------------------------------------------------------------
// Hostile streams
// ---------------------------------------------------------------------------

/// Expected items, frame ends, and whether the tail starts with a complete
/// length header whose value cannot be added to the header width (the framer
/// has to answer `Err`, and may keep answering it).
fn hostile_expected(fr: Fr, cd: Cd, s: &[u8]) -> (Exp, Vec<usize>, bool) {
    let frames = fr.ref_parse(s);
    let bounds: Vec<usize> = frames.iter().map(|f| f.2).collect();
    let tail = bounds.last().copied().unwrap_or(0);
    let poisoned = match fr {
        Fr::Len { w, be } if s.len() - tail >= w => {
            let mut b = [0u8; 8];
            let v = if be {
                b[8 - w..].copy_from_slice(&s[tail..tail + w]);
                u64::from_be_bytes(b)
            } else {
                b[..w].copy_from_slice(&s[tail..tail + w]);
                u64::from_le_bytes(b)
            };
            (w as u64).checked_add(v).is_none_or(|t| t > usize::MAX as u64)
        }
        _ => false,
    };
    let exp = match cd {
        Cd::Bytes => Exp::B(frames.iter().map(|f| Some(Bytes::copy_from_slice(&s[f.0..f.1]))).collect()),
        _ => Exp::V(frames.iter().map(|f| serde_json::from_slice::<Value>(&s[f.0..f.1]).ok()).collect()),
    };
    (exp, bounds, poisoned)
}

fn hostile_one(ctx: &mut Ctx, fr: Fr, cd: Cd, s: &[u8], frags: &[usize], class: &str) -> bool {
    let (exp, bounds, poisoned) = hostile_expected(fr, cd, s);
    let replay = json!({"part": "hostile", "framer": fr.name(), "codec": cd.name(), "stream": hex(s), "frags": frags, "class": class});
    let fc = frag_class(fr, &bounds, frags, s.len());
    match panics::catch(|| frame::decode_case(fr, cd, &exp, &bounds, s, frags, poisoned)) {
        Ok((None, st)) => {
            ctx.rep.max("max_reads_minus_len", st.reads as i64 - s.len() as i64);
            let partial = bounds.last().copied().unwrap_or(0) < s.len();
            ctx.rep.eval(Some(format!(
                "hostile/{}/{}/{class}/{fc}/ok{}err{}{}",
                fr.name(),
                cd.name(),
                st.items_ok.min(3),
                st.items_err.min(2),
                if poisoned { "+rejected-header" } else if partial { "+partial" } else { "" }
            )));
            if poisoned {
                ctx.rep.floor("saw-overflowing-length-header-rejected", true);
            }
            if ctx.rep.want_sample() && s.len() > 4 && frags.len() > 1 {
                ctx.rep.sample(replay);
            }
            true
        }
        Ok((Some(Fail { rule, what }), _)) => {
            ctx.rep.eval(None);
            ctx.rep.violation(&vsig(rule, fr, cd, &format!("hostile:{class}")), &format!("{} stream {} as {fc}: {what}", fr.name(), hex(&s[..s.len().min(40)])), replay);
            false
        }
        Err(p) => {
            ctx.rep.eval(None);
            ctx.panic_verdict(&p, fr, cd, &format!("hostile:{class}"), replay);
            false
        }
    }
}

fn hostile_alphabet(fr: Fr) -> Vec<u8> {
    if let Some(d) = fr.delim() {
        let mut a = d.clone();
        a.sort();
        a.dedup();
        a.push(b'x');
        a
    } else {
        vec![0x00, 0x01, 0x02, 0xff]
    }
}

fn part_hostile_ex(ctx: &mut Ctx, max_len: usize) {
    let mut total = 0u64;
    for fr in all_framers() {
        if fr == Fr::Noop {
            continue;
        }
        let alpha = hostile_alphabet(fr);
        let a = alpha.len();
        let lmax = if a >= 5 { max_len.saturating_sub(1) } else { max_len };
        for len in 0..=lmax {
            let count = (a as u64).pow(len as u32);
            for idx in 0..count {
                total += 1;
                if !ctx.mine() {
                    continue;
                }
                if total % 4096 == 0 && ctx.rep.out_of_time() {
                    ctx.incomplete = true;
                    return;
                }
                let mut s = Vec::with_capacity(len);
                let mut x = idx;
                for _ in 0..len {
                    s.push(alpha[(x % a as u64) as usize]);
                    x /= a as u64;
                }
                let class = "alphabet";
                if !hostile_one(ctx, fr, Cd::Bytes, &s, &[s.len()], class) {
                    continue;
                }
                if len >= 2 {
                    hostile_one(ctx, fr, Cd::Bytes, &s, &vec![1; len], class);
                    // all two-fragment deliveries
                    for i in 1..len {
                        hostile_one(ctx, fr, Cd::Bytes, &s, &[i, len - i], class);
                    }
                }
            }
        }
    }
    ctx.rep.count("hostile_ex_strings_total", total as i64);
    ctx.rep.note(format!("hostile-ex: every string up to {max_len} bytes over {{header-like bytes 00 01 02 ff}} resp. {{delimiter bytes, 'x'}} per framer, delivered whole, bytewise and in every two-fragment split"));
}

/// Boundary dictionary for length-delimited streams: (class, header value).
fn len_dictionary(w: usize) -> Vec<(&'static str, u64)> {
    let field_max = if w == 8 { u64::MAX } else { (1u64 << (8 * w)) - 1 };
    let mut v: Vec<(&'static str, u64)> = vec![
        ("len-zero", 0),
        ("len-one", 1),
        ("len-field-max", field_max),
        ("len-field-msb", 1u64 << (8 * w - 1)),
        ("len-u32max", u32::MAX as u64),
        ("len-u32max+1", 1 << 32),
        ("len-i64max", i64::MAX as u64),
        ("len-2^63", 1 << 63),
        ("len-near-u64max", u64::MAX),
        ("len-near-u64max", u64::MAX - 1),
        ("len-near-u64max", u64::MAX - w as u64),
        ("len-near-u64max", u64::MAX - w as u64 + 1),
        ("len-near-u64max", u64::MAX - w as u64 - 1),
        ("len-near-u64max", u64::MAX - 16),
    ];
    v.retain(|(_, x)| *x <= field_max);
    // one class per value (the later, more specific name wins)
    let mut out: Vec<(&'static str, u64)> = Vec::new();
    for (c, x) in v.into_iter().rev() {
        if !out.iter().any(|(_, y)| *y == x) {
            out.push((c, x));
        }
    }
    out
}

fn part_hostile_rand(ctx: &mut Ctx, iters: usize, dict_stride: usize) {
    let mut di = 0usize;
    let frs = all_framers();
    let base = ctx.rng.fork(0x4853);
    // dictionary first (deterministic, sharded), then seeded random
    for fr in frs.iter().copied() {
        let Some((w, _)) = fr.len_params() else { continue };
        for (class, val) in len_dictionary(w) {
            for prefix in 0..2 {
                for tail in [0usize, 1, w.saturating_sub(1), w, 9, 17] {
                    for cd in [Cd::Bytes, Cd::Json] {
                        di += 1;
                        if di % dict_stride.max(1) != 0 || !ctx.mine() {
                            continue;
                        }
                        if ctx.rep.out_of_time() {
                            break;
                        }
                        let mut s = Vec::new();
                        if prefix == 1 {
                            s.extend_from_slice(&fr.ref_encode(b"[1]"));
                        }
                        s.extend_from_slice(&fr.header(val));
                        s.extend((0..tail).map(|i| b"{\"k\":[0]} "[i % 10]));
                        let n = s.len();
                        hostile_one(ctx, fr, cd, &s, &[n], class);
                        hostile_one(ctx, fr, cd, &s, &vec![1; n], class);
                        if n > w + 1 {
                            hostile_one(ctx, fr, cd, &s, &[n - tail - 1, tail + 1], class);
                        }
                    }
                }
            }
        }
    }
    for it in 0..iters {
        if ctx.rep.out_of_time() {
            break;
        }
        let mut r = base.fork(it as u64);
        let fr = *r.pick(&frs);
        let cd = if fr == Fr::Noop || r.chance(2, 3) { Cd::Bytes } else { Cd::Json };
        let (class, s): (&str, Vec<u8>) = match r.below(6) {
            0 => ("random", {
                let n = r.size(64);
                r.bytes(n)
            }),
            1 => ("random-small-bytes", {
                let n = r.size(48);
                (0..n).map(|_| *r.pick(&[0u8, 0, 1, 2, 3, 8, 0x7f, 0x80, 0xff])).collect()
            }),
            2 => ("delimiter-soup", {
                let a = hostile_alphabet(fr);
                let n = r.size(40);
                (0..n).map(|_| *r.pick(&a)).collect()
            }),
            3 => ("valid-then-garbage", {
                let mut s = Vec::new();
                for i in 0..r.below(4) {
                    let p = gen_bytes(fr, 0, i, r.size(20));
                    s.extend_from_slice(&fr.ref_encode(&p));
                }
                let n = r.size(24);
                s.extend(r.bytes(n));
                s
            }),
            4 => ("json-ish", {
                let texts: [&[u8]; 8] = [b"{\"a\":1}", b"[", b"[[[[[[[[[[[[[[[[[[[[[[[[[[[[[[[[[[[[[[[[", b"\"\\u12", b"nul", b"1e999", b"{\"a\":", b"\xff\xfe"];
                let mut s = Vec::new();
                for _ in 0..r.range(1, 4) {
                    let t = *r.pick(&texts);
                    if r.chance(3, 4) { s.extend_from_slice(&fr.ref_encode(t)) } else { s.extend_from_slice(t) }
                }
                s
            }),
            _ => ("big-noop", {
                let n = if fr == Fr::Noop { *r.pick(&[4095usize, 4096, 4097, 8192, 9000]) } else { r.size(200) };
                r.bytes(n)
            }),
        };
        let n = s.len();
        let (_, bounds, _) = hostile_expected(fr, cd, &s);
        let frags = random_frags(&mut r, fr, &bounds, n);
        hostile_one(ctx, fr, cd, &s, &frags, class);
    }
}

fn part_custom_err(ctx: &mut Ctx) {
    for w in [1usize, 2, 4, 8] {
        for be in [true, false] {
            if !ctx.mine() {
                continue;
            }
            let fr = Fr::Limit { w, be, max: 16 };
            for (good, tail) in [(0usize, 0usize), (1, 0), (1, 5), (2, 40)] {
                let mut s = Vec::new();
                for i in 0..good {
                    s.extend_from_slice(&fr.ref_encode(&gen_bytes(fr, 0, i, 3)));
                }
                s.extend_from_slice(&fr.header(17));
                s.extend((0..tail).map(|_| b'z'));
                for frags in [vec![s.len()], vec![1; s.len()]] {
                    let replay = json!({"part": "custom-err", "framer": fr.name(), "stream": hex(&s), "frags": frags});
                    match panics::catch(|| frame::decode_after_error(fr, &s, &frags)) {
                        Ok(out) => {
                            let oks = out.items.iter().take_while(|r| r.is_ok()).count();
                            let errs = out.items.iter().filter(|r| r.is_err()).count();
                            if oks != good || errs == 0 || out.items.iter().skip(oks).any(|r| r.is_ok()) {
                                ctx.rep.violation(
                                    &vsig("framer-error-not-reported", fr, Cd::Bytes, "custom-framer-err"),
                                    &format!("expected {good} items then Err from the framer; got {oks} items, {errs} errors"),
                                    replay,
                                );
                            } else {
                                ctx.rep.eval(Some(format!("custom-err/{}/good{good}/err{}", fr.name(), errs.min(3))));
                            }
                        }
                        Err(p) => {
                            ctx.rep.eval(None);
                            ctx.panic_verdict(&p, fr, Cd::Bytes, "poll-after-framer-error", replay);
                        }
                    }
                }
            }
        }
    }
}

// ---------------------------------------------------------------------------
// Replay
// ---------------------------------------------------------------------------

fn usizes(v: &Value) -> Vec<usize> {
    v.as_array().map(|a| a.iter().map(|x| x.as_u64().unwrap_or(0) as usize).collect()).unwrap_or_default()
}

fn replay(ctx: &mut Ctx, p: &Value) {
    let part = p["part"].as_str().unwrap_or("");
    let fr = Fr::parse(p["framer"].as_str().unwrap_or("")).unwrap_or(Fr::Noop);
    let cd = Cd::parse(p["codec"].as_str().unwrap_or("bytes"));
    match part {
        "frame" => {
            let specs: Vec<Spec> = p["items"].as_array().map(|a| a.iter().map(spec_parse).collect()).unwrap_or_default();
            let ws = usizes(&p["wscript"]);
            let mode = p["mode"].as_u64().unwrap_or(0) as u8;
            if let Some(e) = encode(ctx, fr, cd, &specs, &ws, mode)
                && p["stage"].is_null()
            {
                deliver(ctx, &e, &usizes(&p["frags"]), p["cut"].as_u64().map(|x| x as usize), "replay");
            }
        }
        "hostile" => {
            let s = unhex(p["stream"].as_str().unwrap_or(""));
            hostile_one(ctx, fr, cd, &s, &usizes(&p["frags"]), p["class"].as_str().unwrap_or("replay"));
        }
        "custom-err" => {
            let s = unhex(p["stream"].as_str().unwrap_or(""));
            let frags = usizes(&p["frags"]);
            if let Err(pn) = panics::catch(|| frame::decode_after_error(fr, &s, &frags)) {
                ctx.panic_verdict(&pn, fr, Cd::Bytes, "poll-after-framer-error", p.clone());
            }
        }
        _ => anc::replay(ctx, p),
    }
}

pub fn main(args: &Args) {
    let rep = Report::from_args("C13", &args.str("leg", "native"), args);
    let mut ctx = Ctx {
        rep,
        shard: args.shard(),
        nshards: args.nshards(),
        rr: 0,
        rng: Rng::new(args.seed()).fork(args.shard() + 1),
        thorough: args.thorough(),
        incomplete: false,
        tick: 0,
    };
    if let Some(path) = args.get("replay") {
        let text = std::fs::read_to_string(path).expect("replay file");
        let v: Value = vcommon::serde_json::from_str(&text).expect("replay json");
        replay(&mut ctx, &v["program"]);
        ctx.rep.finish();
        return;
    }
    let all = "rt-ex,rt-cuts,rt-rand,hostile-ex,hostile-rand,custom-err,anc-ex,anc-rand,anc-hostile";
    let parts = args.str("parts", all);
    let has = |p: &str| parts.split(',').any(|x| x == p);
    let t = ctx.thorough;
    let mut exhaustive_parts = 0;
    if has("rt-ex") {
        part_rt_ex(&mut ctx, args.usize("ex-n", if t { 12 } else { 10 }));
        exhaustive_parts += 1;
    }
    if has("rt-cuts") {
        part_rt_cuts(&mut ctx, args.usize("cuts-n", if t { 72 } else { 40 }));
        exhaustive_parts += 1;
    }
    if has("hostile-ex") {
        part_hostile_ex(&mut ctx, args.usize("hostile-n", if t { 7 } else { 6 }));
        exhaustive_parts += 1;
    }
    if has("custom-err") {
        part_custom_err(&mut ctx);
    }
    if has("anc-ex") {
        anc::part_ex(&mut ctx, args);
        exhaustive_parts += 1;
    }
    if has("rt-rand") {
        part_rt_rand(&mut ctx, args.iters(2500, 40_000), args.usize("rnd-max-len", 70_000));
    }
    if has("hostile-rand") {
        part_hostile_rand(&mut ctx, args.usize("hostile-iters", if t { 60_000 } else { 6000 }), args.usize("dict-stride", 1));
    }
    if has("anc-rand") {
        anc::part_rand(&mut ctx, args);
    }
    if has("anc-hostile") {
        anc::part_hostile(&mut ctx, args);
    }
    // under Miri the enumerations are samples by intent; only native legs claim exhaustiveness
    if exhaustive_parts > 0 && !cfg!(miri) {
        let inc = ctx.incomplete;
        ctx.rep.set_exhaustive(!inc);
    }
    ctx.rep.finish();
}
