//! C13 framing and ancillary codecs — not built yet.

use vcommon::Args;

pub fn main(_args: &Args) {
    eprintln!("c13: not implemented");
    std::process::exit(3);
}
