//! C13 ancillary (control message) part.
//!
//! * builder round trip: message lists x buffer capacities; `push` succeeds
//!   iff `CMSG_SPACE` fits (reference: own offset arithmetic with
//!   `libc::CMSG_*`), the bytes equal a reference encoding, the iterator
//!   yields exactly the accepted `(level, type, value)` list;
//! * a probe `AncillaryData` type observes the slice `AncillaryRef::data`
//!   hands to `decode` (must lie inside the message's data and inside the
//!   control buffer);
//! * hostile control buffers: well-formed chains with foreign lengths /
//!   truncated last message (what a kernel can deliver, class `valid-chain`):
//!   iteration is compared with a reference walker and bounded in steps.
//!   Malformed chains (`cmsg_len` < header, > buffer, huge; class
//!   `invalid-chain`) violate the contract of the unsafe `AncillaryIter::new`
//!   and are outside the property: they are run for observation and only
//!   counted (`obs_invalid_chain:*`). Lengths that abort a debug process
//!   (>= usize::MAX-7: libc's CMSG_ALIGN overflows in an extern "C" fn;
//!   >= 2^63 with data(): slice precondition) are not generated.

use std::{
    alloc::{Layout, alloc, dealloc},
    cell::Cell,
    mem::MaybeUninit,
};

use compio_buf::{IoBuf, IoBufMut, SetLen};
use compio_io::ancillary::{
    AncillaryBuf, AncillaryBuilder, AncillaryData, AncillaryIter, AncillaryRef, CodecError,
    bytemuck_ext::{BitwiseAncillaryData, Pod, Zeroable},
};
use vcommon::{Args, Rng, Value, json, panics};

use super::{
    Ctx,
    io::{hex, unhex},
};

const HDR: usize = 16; // CMSG_LEN(0) on 64-bit Linux
const CANARY: u8 = 0xCC;

fn space(n: usize) -> usize {
    unsafe { libc::CMSG_SPACE(n as u32) as usize }
}

fn clen(n: usize) -> usize {
    unsafe { libc::CMSG_LEN(n as u32) as usize }
}

fn align8(n: usize) -> Option<usize> {
    n.checked_add(7).map(|x| x & !7)
}

// ---------------------------------------------------------------------------
// A buffer with exact allocation bounds (Miri) or a canary slack (native)
// ---------------------------------------------------------------------------

pub struct ABuf {
    ptr: *mut u8,
    alloc: usize,
    off: usize,
    cap: usize,
    len: usize,
}

impl ABuf {
    pub fn new(cap: usize, slack: usize, off: usize) -> Self {
        let alloc_len = (off + cap + slack).max(1);
        let ptr = unsafe { alloc(Layout::from_size_align(alloc_len, 8).unwrap()) };
        assert!(!ptr.is_null());
        unsafe { ptr.write_bytes(CANARY, alloc_len) };
        Self { ptr, alloc: alloc_len, off, cap, len: 0 }
    }

    fn base(&self) -> *mut u8 {
        unsafe { self.ptr.add(self.off) }
    }

    /// Bytes physically available from the start of the buffer.
    fn physical(&self) -> usize {
        self.alloc - self.off
    }

    fn fill(&mut self, bytes: &[u8]) {
        assert!(bytes.len() <= self.cap);
        unsafe { std::ptr::copy_nonoverlapping(bytes.as_ptr(), self.base(), bytes.len()) };
        self.len = bytes.len();
    }

    fn snapshot(&self) -> Vec<u8> {
        unsafe { std::slice::from_raw_parts(self.base(), self.cap).to_vec() }
    }

    fn canary_intact(&self) -> bool {
        let tail = unsafe { std::slice::from_raw_parts(self.base().add(self.cap), self.physical() - self.cap) };
        let head = unsafe { std::slice::from_raw_parts(self.ptr, self.off) };
        tail.iter().chain(head).all(|b| *b == CANARY)
    }
}

impl Drop for ABuf {
    fn drop(&mut self) {
        unsafe { dealloc(self.ptr, Layout::from_size_align(self.alloc, 8).unwrap()) }
    }
}

impl IoBuf for ABuf {
    fn as_init(&self) -> &[u8] {
        unsafe { std::slice::from_raw_parts(self.base(), self.len) }
    }
}

impl SetLen for ABuf {
    unsafe fn set_len(&mut self, len: usize) {
        assert!(len <= self.cap, "C13-GUARD set_len({len}) beyond capacity {}", self.cap);
        self.len = len;
    }
}

impl IoBufMut for ABuf {
    fn as_uninit(&mut self) -> &mut [MaybeUninit<u8>] {
        unsafe { std::slice::from_raw_parts_mut(self.base().cast(), self.cap) }
    }
}

// ---------------------------------------------------------------------------
// Value kinds
// ---------------------------------------------------------------------------

#[derive(Clone, Copy)]
#[repr(C)]
pub struct Pod12 {
    a: u32,
    b: u16,
    c: u16,
    d: [u8; 4],
}
unsafe impl Zeroable for Pod12 {}
unsafe impl Pod for Pod12 {}
impl BitwiseAncillaryData for Pod12 {}

trait Wire: AncillaryData {
    fn from_b(b: &[u8]) -> Self;
    fn to_b(&self) -> Vec<u8>;
}

macro_rules! wire_pod {
    ($($t:ty),*) => {$(
        impl Wire for $t {
            fn from_b(b: &[u8]) -> Self { bytemuck::pod_read_unaligned(&b[..std::mem::size_of::<$t>()]) }
            fn to_b(&self) -> Vec<u8> { bytemuck::bytes_of(self).to_vec() }
        }
    )*};
}
wire_pod!((), u8, u16, u32, u64, u128, [u8; 3], [u8; 9], [u8; 17], [u8; 64], [u16; 5], Pod12);

impl Wire for libc::in_addr {
    fn from_b(b: &[u8]) -> Self {
        libc::in_addr { s_addr: u32::from_ne_bytes(b[..4].try_into().unwrap()) }
    }

    fn to_b(&self) -> Vec<u8> {
        self.s_addr.to_ne_bytes().to_vec()
    }
}

impl Wire for libc::in_pktinfo {
    fn from_b(b: &[u8]) -> Self {
        libc::in_pktinfo {
            ipi_ifindex: i32::from_ne_bytes(b[..4].try_into().unwrap()),
            ipi_spec_dst: libc::in_addr::from_b(&b[4..8]),
            ipi_addr: libc::in_addr::from_b(&b[8..12]),
        }
    }

    fn to_b(&self) -> Vec<u8> {
        let mut v = self.ipi_ifindex.to_ne_bytes().to_vec();
        v.extend(self.ipi_spec_dst.to_b());
        v.extend(self.ipi_addr.to_b());
        v
    }
}

impl Wire for libc::in6_pktinfo {
    fn from_b(b: &[u8]) -> Self {
        libc::in6_pktinfo {
            ipi6_addr: libc::in6_addr { s6_addr: b[..16].try_into().unwrap() },
            ipi6_ifindex: u32::from_ne_bytes(b[16..20].try_into().unwrap()),
        }
    }

    fn to_b(&self) -> Vec<u8> {
        let mut v = self.ipi6_addr.s6_addr.to_vec();
        v.extend(self.ipi6_ifindex.to_ne_bytes());
        v
    }
}

#[derive(Clone, Copy, Debug, PartialEq, Eq)]
pub enum Kind {
    InAddr,
    PktInfo,
    Pkt6,
    Unit,
    U8,
    U16,
    U32,
    U64,
    U128,
    A3,
    A9,
    A17,
    A64,
    W5,
    Pod12,
}

const KINDS: [Kind; 15] = [
    Kind::InAddr,
    Kind::PktInfo,
    Kind::Pkt6,
    Kind::Unit,
    Kind::U8,
    Kind::U16,
    Kind::U32,
    Kind::U64,
    Kind::U128,
    Kind::A3,
    Kind::A9,
    Kind::A17,
    Kind::A64,
    Kind::W5,
    Kind::Pod12,
];

macro_rules! kind_dispatch {
    ($k:expr, $T:ident => $body:expr) => {
        match $k {
            Kind::InAddr => { type $T = libc::in_addr; $body }
            Kind::PktInfo => { type $T = libc::in_pktinfo; $body }
            Kind::Pkt6 => { type $T = libc::in6_pktinfo; $body }
            Kind::Unit => { type $T = (); $body }
            Kind::U8 => { type $T = u8; $body }
            Kind::U16 => { type $T = u16; $body }
            Kind::U32 => { type $T = u32; $body }
            Kind::U64 => { type $T = u64; $body }
            Kind::U128 => { type $T = u128; $body }
            Kind::A3 => { type $T = [u8; 3]; $body }
            Kind::A9 => { type $T = [u8; 9]; $body }
            Kind::A17 => { type $T = [u8; 17]; $body }
            Kind::A64 => { type $T = [u8; 64]; $body }
            Kind::W5 => { type $T = [u16; 5]; $body }
            Kind::Pod12 => { type $T = Pod12; $body }
        }
    };
}

impl Kind {
    fn size(self) -> usize {
        kind_dispatch!(self, T => <T as AncillaryData>::SIZE)
    }

    fn name(self) -> String {
        format!("{self:?}")
    }

    fn parse(s: &str) -> Kind {
        KINDS.iter().copied().find(|k| k.name() == s).unwrap_or(Kind::U8)
    }
}

#[derive(Clone, Debug)]
pub struct AMsg {
    kind: Kind,
    level: i32,
    ty: i32,
    bytes: Vec<u8>,
}

impl AMsg {
    fn new(kind: Kind, level: i32, ty: i32, seed: u64) -> Self {
        let mut r = Rng::new(seed);
        let mut bytes = r.bytes(kind.size());
        for b in bytes.iter_mut() {
            if *b == 0 || *b == CANARY {
                *b = 0x5a;
            }
        }
        Self { kind, level, ty, bytes }
    }

    fn json(&self) -> Value {
        json!({"kind": self.kind.name(), "level": self.level, "ty": self.ty, "bytes": hex(&self.bytes)})
    }

    fn parse(v: &Value) -> Self {
        Self {
            kind: Kind::parse(v["kind"].as_str().unwrap_or("U8")),
            level: v["level"].as_i64().unwrap_or(0) as i32,
            ty: v["ty"].as_i64().unwrap_or(0) as i32,
            bytes: unhex(v["bytes"].as_str().unwrap_or("")),
        }
    }
}

fn push_kind<B: IoBufMut + ?Sized>(b: &mut AncillaryBuilder<'_, B>, m: &AMsg) -> Result<(), CodecError> {
    kind_dispatch!(m.kind, T => {
        let v = <T as Wire>::from_b(&m.bytes);
        b.push(m.level, m.ty, &v)
    })
}

fn data_kind(r: &AncillaryRef<'_>, kind: Kind) -> Result<Vec<u8>, CodecError> {
    kind_dispatch!(kind, T => r.data::<T>().map(|v| <T as Wire>::to_b(&v)))
}

// ---------------------------------------------------------------------------
// Probe: what slice does `data()` hand to `decode`?
// ---------------------------------------------------------------------------

thread_local! {
    static PROBE: Cell<(usize, usize)> = const { Cell::new((0, 0)) };
}

struct Probe;

impl AncillaryData for Probe {
    const SIZE: usize = 0;

    fn encode(&self, _: &mut [MaybeUninit<u8>]) -> Result<(), CodecError> {
        Ok(())
    }

    fn decode(buffer: &[u8]) -> Result<Self, CodecError> {
        PROBE.with(|p| p.set((buffer.as_ptr() as usize, buffer.len())));
        Ok(Probe)
    }
}

// ---------------------------------------------------------------------------
// Reference
// ---------------------------------------------------------------------------

/// Reference builder: which pushes fit, and the resulting bytes.
fn ref_build(cap: usize, msgs: &[AMsg]) -> (Vec<bool>, Vec<u8>) {
    let mut off = 0usize;
    let mut open = cap >= HDR;
    let mut acc = Vec::new();
    let mut out = Vec::new();
    for m in msgs {
        let s = space(m.kind.size());
        if open && off + s <= cap {
            acc.push(true);
            let mut b = vec![0u8; s];
            b[..8].copy_from_slice(&clen(m.kind.size()).to_ne_bytes());
            b[8..12].copy_from_slice(&m.level.to_ne_bytes());
            b[12..16].copy_from_slice(&m.ty.to_ne_bytes());
            b[HDR..HDR + m.bytes.len()].copy_from_slice(&m.bytes);
            out.extend(b);
            off += s;
            // CMSG_NXTHDR: the next header must fit
            if off + HDR > cap {
                open = false;
            }
        } else {
            acc.push(false);
        }
    }
    (acc, out)
}

/// Reference walk of a control buffer: `(offset, cmsg_len, level, type)`.
fn ref_walk(b: &[u8]) -> Vec<(usize, usize, i32, i32)> {
    let mut out = Vec::new();
    if b.len() < HDR {
        return out;
    }
    let mut off = 0usize;
    loop {
        let l = usize::from_ne_bytes(b[off..off + 8].try_into().unwrap());
        let level = i32::from_ne_bytes(b[off + 8..off + 12].try_into().unwrap());
        let ty = i32::from_ne_bytes(b[off + 12..off + 16].try_into().unwrap());
        out.push((off, l, level, ty));
        if l < HDR {
            break;
        }
        let Some(next) = align8(l).and_then(|a| off.checked_add(a)) else { break };
        if next.checked_add(HDR).is_none_or(|e| e > b.len()) {
            break;
        }
        off = next;
        if out.len() > b.len() / HDR + 2 {
            break;
        }
    }
    out
}

// ---------------------------------------------------------------------------
// Modes
// ---------------------------------------------------------------------------

#[derive(Clone, Copy, Debug, PartialEq, Eq)]
pub enum DataMode {
    /// call `data()` on every message (native: slack keeps it physical)
    All,
    /// call `data()` only when the slice it builds stays inside the allocation
    Safe,
    None,
}

#[derive(Clone, Copy)]
pub struct Opts {
    data: DataMode,
    slack: usize,
    /// 0 = both buffer types, 1 = only the harness' heap buffer, 2 = only AncillaryBuf<N>
    bufs: u8,
}

impl Opts {
    pub fn from_args(args: &Args) -> Self {
        let data = match args.str("anc-data", "all").as_str() {
            "safe" => DataMode::Safe,
            "none" => DataMode::None,
            _ => DataMode::All,
        };
        let bufs = match args.str("anc-buf", "both").as_str() {
            "dyn" => 1,
            "fixed" => 2,
            _ => 0,
        };
        Self { data, slack: args.usize("anc-slack", if cfg!(miri) { 0 } else { 96 }), bufs }
    }
}

struct Viol {
    sig: String,
    what: String,
}

fn v(sig: String, what: String) -> Viol {
    Viol { sig, what }
}

/// Iterate a control buffer with the real iterator and judge it against the
/// reference walk. `typed[i]` = kind to decode message i with (if any) and
/// whether the reference says the data is long enough.
fn iterate(
    buf: &[u8],
    physical: usize,
    class: &str,
    typed: &dyn Fn(usize, usize) -> Option<Kind>,
    expect_values: Option<&[&AMsg]>,
    opts: Opts,
    counters: &mut Vec<(&'static str, i64)>,
) -> Vec<Viol> {
    let mut out = Vec::new();
    let walk = ref_walk(buf);
    let base = buf.as_ptr() as usize;
    let bound = buf.len() / HDR + 2;
    let mut it = unsafe { AncillaryIter::new(buf) };
    let mut i = 0usize;
    loop {
        let Some(r) = it.next() else { break };
        if i >= bound {
            out.push(v(format!("C13/ancillary-iter-endless/{class}"), format!("more than {bound} messages from a {}-byte buffer", buf.len())));
            return out;
        }
        let Some(&(off, l, level, ty)) = walk.get(i) else {
            out.push(v(
                format!("C13/ancillary-iter-extra-message/{class}"),
                format!("message {i} (level {}, type {}, len {}) but the reference walk has only {}", r.level(), r.ty(), r.len(), walk.len()),
            ));
            return out;
        };
        if (r.level(), r.ty(), r.len()) != (level, ty, l) {
            out.push(v(
                format!("C13/ancillary-iter-header-mismatch/{class}"),
                format!("message {i}: iterator ({}, {}, {}) reference ({level}, {ty}, {l}) at offset {off}", r.level(), r.ty(), r.len()),
            ));
            return out;
        }
        // what the data slice should be: [off+HDR, off+max(cmsg_len, HDR)); keep a header's worth of margin
        // so that a regression to "cmsg_len bytes from the data pointer" stays physical as well
        let slice_end = (off + HDR).checked_add(l);
        let in_alloc = slice_end.is_some_and(|e| e <= physical);
        let call = match opts.data {
            DataMode::All => l <= isize::MAX as usize,
            DataMode::Safe => in_alloc,
            DataMode::None => false,
        };
        if !call {
            counters.push(("anc_data_calls_skipped", 1));
        } else {
            PROBE.with(|p| p.set((0, 0)));
            let _ = r.data::<Probe>();
            let (p, n) = PROBE.with(|p| p.get());
            let want_ptr = base + off + HDR;
            let want_len = l.saturating_sub(HDR).min(buf.len().saturating_sub(off + HDR));
            if p != want_ptr {
                out.push(v(format!("C13/ancillary-data-slice-misplaced/{class}"), format!("message {i}: decode slice starts at buffer offset {} instead of {}", p.wrapping_sub(base), off + HDR)));
            } else if p + n > base + buf.len() {
                out.push(v(
                    format!("C13/ancillary-data-slice-beyond-buffer/{class}"),
                    format!(
                        "message {i} at offset {off} with cmsg_len {l}: data() hands decode() a slice of {n} bytes at offset {} = {} bytes past the end of the {}-byte control buffer (the message carries {want_len} data bytes)",
                        off + HDR,
                        p + n - base - buf.len(),
                        buf.len()
                    ),
                ));
            } else if n != want_len {
                out.push(v(
                    format!("C13/ancillary-data-slice-beyond-cmsg/{class}"),
                    format!("message {i} at offset {off} with cmsg_len {l}: decode() gets {n} bytes, the message carries {want_len}"),
                ));
            }
            counters.push(("anc_data_calls", 1));
        }
        // typed decode
        if let Some(kind) = typed(i, l) {
            let have = l.saturating_sub(HDR).min(buf.len().saturating_sub(off + HDR));
            let physically_ok = off + HDR + kind.size() <= physical;
            if call && physically_ok {
                match data_kind(&r, kind) {
                    Ok(bytes) => {
                        if have < kind.size() {
                            out.push(v(
                                format!("C13/ancillary-decode-short-data/{class}"),
                                format!(
                                    "message {i}: data::<{}>() (SIZE {}) returned Ok from a message with {have} data bytes (cmsg_len {l}); value {} includes bytes beyond the message",
                                    kind.name(),
                                    kind.size(),
                                    hex(&bytes)
                                ),
                            ));
                        } else if let Some(ev) = expect_values {
                            if ev.get(i).is_some_and(|m| m.bytes != bytes) {
                                out.push(v(format!("C13/ancillary-value-mismatch/{class}"), format!("message {i} ({}): pushed {} read {}", kind.name(), hex(&ev[i].bytes), hex(&bytes))));
                            }
                        } else if buf[off + HDR..off + HDR + kind.size()] != bytes[..] {
                            out.push(v(format!("C13/ancillary-value-mismatch/{class}"), format!("message {i} ({}): read {} from {}", kind.name(), hex(&bytes), hex(&buf[off + HDR..off + HDR + kind.size()]))));
                        }
                    }
                    Err(CodecError::BufferTooSmall) => {
                        if have >= kind.size() {
                            out.push(v(format!("C13/ancillary-decode-rejected/{class}"), format!("message {i}: data::<{}>() = BufferTooSmall with {have} data bytes", kind.name())));
                        }
                    }
                    Err(e) => out.push(v(format!("C13/ancillary-decode-error/{class}"), format!("message {i}: {e}"))),
                }
            }
        }
        i += 1;
    }
    if i < walk.len() {
        out.push(v(format!("C13/ancillary-iter-missing-message/{class}"), format!("iterator yielded {i} messages, reference walk {} (buffer {} bytes)", walk.len(), buf.len())));
    }
    out
}

// ---------------------------------------------------------------------------
// Builder round trip
// ---------------------------------------------------------------------------

#[derive(Clone, Debug)]
struct BuildCase {
    /// 0 = ABuf of `cap` bytes; n > 0 = AncillaryBuf<n>
    fixed: usize,
    cap: usize,
    off: usize,
    reuse: bool,
    msgs: Vec<AMsg>,
}

impl BuildCase {
    fn json(&self) -> Value {
        json!({"part": "anc", "fixed": self.fixed, "cap": self.cap, "off": self.off, "reuse": self.reuse, "msgs": self.msgs.iter().map(|m| m.json()).collect::<Vec<_>>()})
    }
}

struct Built {
    results: Vec<Result<(), String>>,
    unchanged_fail: Option<String>,
}

fn build_into<B: IoBufMut + ?Sized>(buf: &mut B, msgs: &[AMsg], raw: Option<(*const u8, usize)>) -> Built {
    let mut b = AncillaryBuilder::new(buf);
    let mut results = Vec::new();
    let mut unchanged_fail = None;
    for (i, m) in msgs.iter().enumerate() {
        let before = raw.map(|(p, n)| unsafe { std::slice::from_raw_parts(p, n).to_vec() });
        let r = push_kind(&mut b, m);
        if r.is_err()
            && let (Some(bf), Some((p, n))) = (before, raw)
        {
            let after = unsafe { std::slice::from_raw_parts(p, n) };
            if bf != after && unchanged_fail.is_none() {
                let at = bf.iter().zip(after).position(|(a, b)| a != b).unwrap_or(0);
                unchanged_fail = Some(format!("push {i} ({}) failed but changed the buffer at offset {at}", m.kind.name()));
            }
        }
        results.push(match r {
            Ok(()) => Ok(()),
            Err(CodecError::BufferTooSmall) => Err("BufferTooSmall".to_string()),
            Err(e) => Err(format!("other: {e}")),
        });
    }
    Built { results, unchanged_fail }
}

const FIXED_SIZES: [usize; 10] = [16, 20, 24, 32, 40, 48, 56, 64, 96, 256];

/// Returns (violations, fit class) or the documented-panic marker.
fn run_build(c: &BuildCase, opts: Opts, counters: &mut Vec<(&'static str, i64)>) -> Result<(Vec<Viol>, &'static str), panics::PanicInfo> {
    let mut out = Vec::new();
    let (acc, want) = ref_build(c.cap, &c.msgs);
    let garbage: Vec<u8> = (0..c.cap).map(|i| 0xA0 | (i as u8 & 0x0f)).collect();

    macro_rules! fixed {
        ($($n:literal),*) => {
            match c.fixed {
                $($n => {
                    let mut b = Box::new(AncillaryBuf::<$n>::new());
                    if c.reuse {
                        let g = b.as_uninit();
                        for (d, s) in g.iter_mut().zip(&garbage) { d.write(*s); }
                        unsafe { b.set_len($n) };
                    }
                    let built = panics::catch(|| build_into(&mut *b, &c.msgs, None))?;
                    let bytes = b.as_init().to_vec();
                    let viols = if bytes.len() >= HDR {
                        let typed = |i: usize, _l: usize| accepted_kind(&c.msgs, &acc, i);
                        let ev: Vec<&AMsg> = c.msgs.iter().zip(&acc).filter(|(_, a)| **a).map(|(m, _)| m).collect();
                        panics::catch(|| iterate(&b[..], $n, "roundtrip", &typed, Some(&ev), opts, counters))?
                    } else { Vec::new() };
                    (built, bytes, viols, true)
                })*
                _ => unreachable!("fixed size"),
            }
        };
    }

    let (built, bytes, viols, canary_ok) = if c.fixed == 0 {
        let mut b = ABuf::new(c.cap, opts.slack, c.off);
        if c.reuse {
            b.fill(&garbage);
        }
        let raw = (b.base() as *const u8, c.cap);
        let built = panics::catch(|| build_into(&mut b, &c.msgs, Some(raw)))?;
        let bytes = b.as_init().to_vec();
        let viols = if bytes.len() >= HDR {
            let typed = |i: usize, _l: usize| accepted_kind(&c.msgs, &acc, i);
            let ev: Vec<&AMsg> = c.msgs.iter().zip(&acc).filter(|(_, a)| **a).map(|(m, _)| m).collect();
            panics::catch(|| iterate(b.as_init(), b.physical(), "roundtrip", &typed, Some(&ev), opts, counters))?
        } else {
            Vec::new()
        };
        // the rest of the capacity must still be zero (builder contract) and the slack untouched
        let snap = b.snapshot();
        if snap[bytes.len()..].iter().any(|x| *x != 0) {
            out.push(v("C13/ancillary-builder-tail-not-zeroed/roundtrip".into(), format!("capacity beyond the {} used bytes is not zero", bytes.len())));
        }
        (built, bytes, viols, b.canary_intact())
    } else {
        fixed!(16, 20, 24, 32, 40, 48, 56, 64, 96, 256)
    };
    out.extend(viols);
    if !canary_ok {
        out.push(v("C13/ancillary-write-outside-buffer/roundtrip".into(), "bytes outside the buffer capacity were modified".into()));
    }
    if let Some(u) = built.unchanged_fail {
        out.push(v("C13/ancillary-failed-push-changed-buffer/roundtrip".into(), u));
    }
    for (i, (r, a)) in built.results.iter().zip(&acc).enumerate() {
        match (r, a) {
            (Ok(()), true) => {}
            (Err(e), false) if e == "BufferTooSmall" => {}
            (Ok(()), false) => out.push(v("C13/ancillary-push-accepted-without-space/roundtrip".into(), format!("push {i} ({}) succeeded in a {}-byte buffer; CMSG_SPACE arithmetic says it does not fit", c.msgs[i].kind.name(), c.cap))),
            (Err(e), true) => out.push(v("C13/ancillary-push-rejected-with-space/roundtrip".into(), format!("push {i} ({}) = {e} in a {}-byte buffer although it fits", c.msgs[i].kind.name(), c.cap))),
            (Err(e), false) => out.push(v("C13/ancillary-push-undocumented-error/roundtrip".into(), format!("push {i}: {e}"))),
        }
    }
    if bytes != want && out.is_empty() {
        let at = bytes.iter().zip(&want).position(|(a, b)| a != b).unwrap_or(bytes.len().min(want.len()));
        out.push(v(
            "C13/ancillary-bytes-differ-from-cmsg-layout/roundtrip".into(),
            format!("built {} bytes, reference (libc CMSG_* arithmetic) {} bytes, first difference at {at}", bytes.len(), want.len()),
        ));
    }
    let n_acc = acc.iter().filter(|a| **a).count();
    let class = if c.msgs.is_empty() {
        "empty-list"
    } else if n_acc == 0 {
        "none-fit"
    } else if n_acc < c.msgs.len() {
        "some-fit"
    } else if want.len() == c.cap {
        "exact"
    } else if c.cap - want.len() < HDR {
        "snug"
    } else {
        "roomy"
    };
    Ok((out, class))
}

fn accepted_kind(msgs: &[AMsg], acc: &[bool], i: usize) -> Option<Kind> {
    msgs.iter().zip(acc).filter(|(_, a)| **a).nth(i).map(|(m, _)| m.kind)
}

fn do_build_case(ctx: &mut Ctx, c: &BuildCase, opts: Opts) {
    if (opts.bufs == 1 && c.fixed != 0) || (opts.bufs == 2 && c.fixed == 0) {
        return;
    }
    let mut counters = Vec::new();
    let kinds: Vec<String> = c.msgs.iter().map(|m| m.kind.name()).collect();
    let bufname = if c.fixed > 0 { "AncillaryBuf" } else { "dyn" };
    match run_build(c, opts, &mut counters) {
        Ok((viols, class)) => {
            // the signature says what was exercised; verdicts are recorded separately
            let last = kinds.last().cloned().unwrap_or_default();
            ctx.rep.eval(if c.msgs.is_empty() { None } else { Some(format!("anc/{bufname}/n{}/last={last}/{class}{}", kinds.len(), if c.reuse { "/reuse" } else { "" })) });
            if ctx.rep.want_sample() && c.msgs.len() >= 2 && class == "some-fit" {
                ctx.rep.sample(c.json());
            }
            if class == "exact" {
                ctx.rep.floor("saw-ancillary-exact-fit", true);
            }
            if class == "some-fit" || class == "none-fit" {
                ctx.rep.floor("saw-ancillary-push-rejected", true);
            }
            for x in viols {
                ctx.rep.violation(&x.sig, &x.what, c.json());
            }
        }
        Err(p) => {
            // documented: too short / misaligned buffers panic in new()
            let documented = (c.cap < HDR && p.message.contains("buffer too short")) || (c.off % 8 != 0 && p.message.contains("misaligned buffer"));
            if documented {
                ctx.rep.eval(Some(format!("anc/{bufname}/documented-panic/{}", if c.cap < HDR { "too-short" } else { "misaligned" })));
            } else if p.message.contains("C13-GUARD") {
                ctx.rep.eval(None);
                ctx.rep.violation("C13/ancillary-set_len-beyond-capacity/roundtrip", &p.message, c.json());
            } else {
                ctx.rep.eval(None);
                match p.origin() {
                    panics::Origin::Repo(loc) => ctx.rep.violation(&format!("C13/{}/ancillary/roundtrip", p.sig()), &format!("panic in compio at {loc}: {}", p.message), c.json()),
                    o => ctx.rep.inconclusive(&format!("harness/foreign panic {o:?}: {}", p.message.chars().take(120).collect::<String>())),
                }
            }
        }
    }
    for (k, n) in counters {
        ctx.rep.count(k, n);
    }
}

const LEVELS: [i32; 6] = [0, 1, 41, -1, i32::MAX, i32::MIN];

pub fn part_ex(ctx: &mut Ctx, args: &Args) {
    let opts = Opts::from_args(args);
    let kinds = [Kind::Unit, Kind::U8, Kind::InAddr, Kind::U64, Kind::PktInfo, Kind::A9, Kind::Pkt6, Kind::A17];
    let max_list = args.usize("anc-ex-list", 3);
    let mut lists: Vec<Vec<Kind>> = vec![vec![]];
    let mut cur: Vec<Vec<Kind>> = vec![vec![]];
    for _ in 0..max_list {
        let mut next = Vec::new();
        for c in &cur {
            for k in kinds {
                let mut d = c.clone();
                d.push(k);
                next.push(d);
            }
        }
        lists.extend(next.iter().cloned());
        cur = next;
    }
    let mut n = 0u64;
    for (li, l) in lists.iter().enumerate() {
        if !ctx.mine() {
            continue;
        }
        if ctx.rep.out_of_time() {
            ctx.incomplete = true;
            break;
        }
        let msgs: Vec<AMsg> = l
            .iter()
            .enumerate()
            .map(|(i, k)| AMsg::new(*k, LEVELS[(li + i) % LEVELS.len()], LEVELS[(li / 3 + 2 * i) % LEVELS.len()], (li * 8 + i) as u64))
            .collect();
        let total: usize = l.iter().map(|k| space(k.size())).sum();
        for cap in 0..=total + 17 {
            let c = BuildCase { fixed: 0, cap, off: 0, reuse: (cap + li) % 3 == 0, msgs: msgs.clone() };
            do_build_case(ctx, &c, opts);
            n += 1;
        }
        for fixed in FIXED_SIZES {
            let c = BuildCase { fixed, cap: fixed, off: 0, reuse: (fixed / 8 + li) % 2 == 0, msgs: msgs.clone() };
            do_build_case(ctx, &c, opts);
            n += 1;
        }
    }
    ctx.rep.count("anc_ex_cases", n as i64);
    ctx.rep.note(format!("anc-ex: every message list of 0..={max_list} messages over 8 value kinds x every capacity 0..=CMSG_SPACE(list)+17 (+ AncillaryBuf<N> for 10 N), {} lists", lists.len()));
}

pub fn part_rand(ctx: &mut Ctx, args: &Args) {
    let opts = Opts::from_args(args);
    let iters = args.usize("anc-iters", if ctx.thorough { 200_000 } else { 20_000 });
    let base = ctx.rng.fork(0x414e);
    for it in 0..iters {
        if ctx.rep.out_of_time() {
            break;
        }
        let mut r = base.fork(it as u64);
        let n = r.size(8);
        let msgs: Vec<AMsg> = (0..n).map(|_| AMsg::new(*r.pick(&KINDS), *r.pick(&LEVELS), r.next_u64() as i32, r.next_u64())).collect();
        let total: usize = msgs.iter().map(|m| space(m.kind.size())).sum();
        let (fixed, cap, off) = match r.below(8) {
            0 => (0, total, 0),
            1 => (0, total + r.below(HDR + 8), 0),
            2 => (0, total.saturating_sub(r.range(1, 24)), 0),
            3 => (0, r.below(total + 40), 0),
            4 => (0, r.below(HDR), 0),
            5 => (0, total.max(HDR), *r.pick(&[1usize, 2, 4])),
            _ => {
                let f = *r.pick(&FIXED_SIZES);
                (f, f, 0)
            }
        };
        let c = BuildCase { fixed, cap, off, reuse: r.chance(1, 2), msgs };
        do_build_case(ctx, &c, opts);
    }
}

// ---------------------------------------------------------------------------
// Hostile control buffers
// ---------------------------------------------------------------------------

fn raw_msg(cmsg_len: usize, level: i32, ty: i32, data: &[u8], padded_to: usize) -> Vec<u8> {
    let mut b = vec![0u8; padded_to.max(HDR)];
    b[..8].copy_from_slice(&cmsg_len.to_ne_bytes());
    b[8..12].copy_from_slice(&level.to_ne_bytes());
    b[12..16].copy_from_slice(&ty.to_ne_bytes());
    let n = data.len().min(b.len() - HDR);
    b[HDR..HDR + n].copy_from_slice(&data[..n]);
    b
}

fn hostile_one(ctx: &mut Ctx, bytes: &[u8], kinds: &[Kind], class: &str, sub: &str, opts: Opts) {
    let replay = json!({"part": "anc-hostile", "bytes": hex(bytes), "kinds": kinds.iter().map(|k| k.name()).collect::<Vec<_>>(), "class": class, "sub": sub});
    if bytes.len() < HDR {
        // documented panic of AncillaryIter::new; nothing to observe
        ctx.rep.eval(None);
        return;
    }
    let mut b = ABuf::new(bytes.len(), opts.slack, 0);
    b.fill(bytes);
    let mut counters = Vec::new();
    let typed = |i: usize, _l: usize| kinds.get(i).copied();
    let r = panics::catch(|| iterate(b.as_init(), b.physical(), class, &typed, None, opts, &mut counters));
    match r {
        Ok(viols) => {
            let w = ref_walk(bytes);
            let k = kinds.first().map(|k| k.name()).unwrap_or_default();
            ctx.rep.eval(Some(format!("anc-hostile/{class}/{sub}/msgs{}/first-as={k}", w.len().min(4))));
            for x in viols {
                if class == "invalid-chain" {
                    // malformed cmsg_len: outside the contract of the unsafe AncillaryIter::new and
                    // outside the property; observed and counted, never a verdict
                    ctx.rep.count(&format!("obs_invalid_chain:{}", x.sig.split('/').nth(1).unwrap_or("?")), 1);
                } else {
                    ctx.rep.violation(&x.sig, &x.what, replay.clone());
                }
            }
        }
        Err(p) => {
            ctx.rep.eval(None);
            match p.origin() {
                _ if class == "invalid-chain" => ctx.rep.count("obs_invalid_chain:panic", 1),
                panics::Origin::Repo(loc) => ctx.rep.violation(&format!("C13/{}/ancillary/{class}", p.sig()), &format!("panic under compio at {loc}: {} ({}:{})", p.message, p.file, p.line), replay),
                o => ctx.rep.inconclusive(&format!("harness/foreign panic {o:?}: {}", p.message.chars().take(120).collect::<String>())),
            }
        }
    }
    for (k, n) in counters {
        ctx.rep.count(k, n);
    }
}

const BAD_LENS: [(&str, usize); 10] = [
    ("len-0", 0),
    ("len-1", 1),
    ("len-15", 15),
    ("len-16", 16),
    ("len-17", 17),
    ("len-2^31", 1 << 31),
    ("len-u32max", u32::MAX as usize),
    ("len-i64max", i64::MAX as usize),
    ("len-usize-max-8", usize::MAX - 8),
    ("len-usize-max-15", usize::MAX - 15),
];

pub fn part_hostile(ctx: &mut Ctx, args: &Args) {
    let opts = Opts::from_args(args);
    let iters = args.usize("anc-hostile-iters", if ctx.thorough { 100_000 } else { 10_000 });
    // deterministic dictionary: one or two messages, each bad length in each position
    for (name, bad) in BAD_LENS {
        for pos in 0..2 {
            for tail in [0usize, 8, 24] {
                if !ctx.mine() || ctx.rep.out_of_time() {
                    continue;
                }
                let mut bytes = Vec::new();
                if pos == 1 {
                    bytes.extend(raw_msg(clen(4), 0, 8, &[1, 2, 3, 4], space(4)));
                }
                bytes.extend(raw_msg(bad, 1, 2, &[9; 8], HDR + tail));
                hostile_one(ctx, &bytes, &[Kind::InAddr, Kind::InAddr], "invalid-chain", name, opts);
            }
        }
    }
    let base = ctx.rng.fork(0x4148);
    for it in 0..iters {
        if ctx.rep.out_of_time() {
            break;
        }
        let mut r = base.fork(it as u64);
        let n = r.range(1, 4);
        let mut bytes = Vec::new();
        let mut kinds = Vec::new();
        let mut dlens = Vec::new();
        for _ in 0..n {
            let dlen = *r.pick(&[0usize, 1, 3, 4, 8, 11, 12, 16, 19, 20, 24, 40]);
            let data = r.bytes(dlen);
            bytes.extend(raw_msg(clen(dlen), *r.pick(&LEVELS), r.below(64) as i32, &data, space(dlen)));
            // the receiver decodes with a type of its own choosing
            kinds.push(*r.pick(&[Kind::InAddr, Kind::PktInfo, Kind::Pkt6, Kind::U8, Kind::U64, Kind::A17, Kind::Unit]));
            dlens.push(dlen);
        }
        let last = *dlens.last().unwrap();
        let last_off = bytes.len() - space(last);
        let (class, sub): (&str, String) = match r.below(7) {
            // what a kernel can deliver
            0 | 1 => ("valid-chain", "exact".into()),
            2 => {
                // last message without its padding
                bytes.truncate(last_off + clen(last));
                ("valid-chain", "last-unpadded".into())
            }
            3 if last > 0 => {
                // MSG_CTRUNC: last message cut, cmsg_len adjusted to what is there
                let keep = r.below(last);
                bytes.truncate(last_off + HDR + keep);
                bytes[last_off..last_off + 8].copy_from_slice(&(HDR + keep).to_ne_bytes());
                ("valid-chain", "last-truncated".into())
            }
            4 => {
                // trailing bytes that are no header
                let k = r.range(1, 15);
                bytes.extend(r.bytes(k));
                ("valid-chain", "trailing-bytes".into())
            }
            5 => {
                // malformed: a bad cmsg_len somewhere
                let which = r.below(n);
                let mut off = 0;
                for d in &dlens[..which] {
                    off += space(*d);
                }
                let remaining = bytes.len() - off;
                let (name, bad) = match r.below(4) {
                    0 => ("len-remaining+1".to_string(), remaining + 1),
                    1 => ("len-remaining+8".to_string(), remaining + 8),
                    2 => ("len-unaligned-short".to_string(), clen(dlens[which]).saturating_sub(r.range(1, 7)).max(HDR)),
                    _ => {
                        let (n, b) = *r.pick(&BAD_LENS);
                        (n.to_string(), b)
                    }
                };
                bytes[off..off + 8].copy_from_slice(&bad.to_ne_bytes());
                ("invalid-chain", name)
            }
            _ => {
                let k = r.range(HDR, 64);
                bytes = (0..k).map(|_| *r.pick(&[0u8, 0, 0, 1, 16, 17, 24, 0xff])).collect();
                kinds = vec![Kind::InAddr; 4];
                ("invalid-chain", "random-bytes".into())
            }
        };
        hostile_one(ctx, &bytes, &kinds, class, &sub, opts);
    }
}

pub fn replay(ctx: &mut Ctx, p: &Value) {
    let opts = Opts { data: DataMode::All, slack: if cfg!(miri) { 0 } else { 96 }, bufs: 0 };
    match p["part"].as_str().unwrap_or("") {
        "anc" => {
            let c = BuildCase {
                fixed: p["fixed"].as_u64().unwrap_or(0) as usize,
                cap: p["cap"].as_u64().unwrap_or(0) as usize,
                off: p["off"].as_u64().unwrap_or(0) as usize,
                reuse: p["reuse"].as_bool().unwrap_or(false),
                msgs: p["msgs"].as_array().map(|a| a.iter().map(AMsg::parse).collect()).unwrap_or_default(),
            };
            do_build_case(ctx, &c, opts);
        }
        "anc-hostile" => {
            let bytes = unhex(p["bytes"].as_str().unwrap_or(""));
            let kinds: Vec<Kind> = p["kinds"].as_array().map(|a| a.iter().map(|k| Kind::parse(k.as_str().unwrap_or(""))).collect()).unwrap_or_default();
            hostile_one(ctx, &bytes, &kinds, p["class"].as_str().unwrap_or("replay"), p["sub"].as_str().unwrap_or(""), opts);
        }
        other => ctx.rep.inconclusive(&format!("unknown replay part {other:?}")),
    }
}
