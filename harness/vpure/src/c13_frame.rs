//! C13 framing: framer configurations, reference wire format, drivers for the
//! real Sink / Stream halves of `Framed`, and the oracle.

use std::{
    fmt::{Debug, Display},
    io,
};

use compio_buf::{Slice, bytes::Bytes};
use compio_io::framed::{
    Framed,
    codec::{Decoder, Encoder, bytes::BytesCodec, serde_json::SerdeJsonCodec},
    frame::{AnyDelimited, CharDelimited, Frame, Framer, LengthDelimited, LineDelimited, NoopFramer},
};
use futures_util::{SinkExt, StreamExt};
use serde::{Deserialize, Serialize, ser::SerializeStruct};
use vcommon::{Value, json, task::block_on_bounded};

use super::io::{FragReader, RecWriter, STEP_BOUND_MSG, WEv, hex};

// ---------------------------------------------------------------------------
// Framer configurations
// ---------------------------------------------------------------------------

pub const DELIMS: [&[u8]; 5] = [b"\r\n", b"|", b"--", b"\x00\x01\x02", b"aab"];
const DELIM_NAMES: [&str; 5] = ["crlf", "pipe", "dashdash", "012", "aab"];
pub const NOOP_MAX: usize = 4096;

#[derive(Clone, Copy, Debug, PartialEq, Eq)]
pub enum Fr {
    Len { w: usize, be: bool },
    Line,
    CharR,
    Char4,
    Any(usize),
    Noop,
    /// Harness-defined framer: `LengthDelimited` that rejects lengths above
    /// `max` with `Err` (the only way the `Framer` trait offers to bound a
    /// frame).
    Limit { w: usize, be: bool, max: u64 },
}

pub fn all_framers() -> Vec<Fr> {
    let mut v = Vec::new();
    for w in 1..=8 {
        for be in [true, false] {
            v.push(Fr::Len { w, be });
        }
    }
    v.push(Fr::Line);
    v.push(Fr::CharR);
    v.push(Fr::Char4);
    for i in 0..DELIMS.len() {
        v.push(Fr::Any(i));
    }
    v.push(Fr::Noop);
    v
}

impl Fr {
    pub fn name(&self) -> String {
        match self {
            Fr::Len { w, be } => format!("Len{w}{}", if *be { "be" } else { "le" }),
            Fr::Line => "Char(lf)".into(),
            Fr::CharR => "Char(R3)".into(),
            Fr::Char4 => "Char(U4)".into(),
            Fr::Any(i) => format!("Any({})", DELIM_NAMES[*i]),
            Fr::Noop => "Noop".into(),
            Fr::Limit { w, be, max } => format!("Limit{w}{}max{max}", if *be { "be" } else { "le" }),
        }
    }

    pub fn parse(s: &str) -> Option<Fr> {
        for f in all_framers() {
            if f.name() == s {
                return Some(f);
            }
        }
        if let Some(r) = s.strip_prefix("Limit") {
            let w = r[..1].parse().ok()?;
            let be = &r[1..3] == "be";
            let max = r[6..].parse().ok()?;
            return Some(Fr::Limit { w, be, max });
        }
        None
    }

    pub fn kind(&self) -> &'static str {
        match self {
            Fr::Len { .. } => "LengthDelimited",
            Fr::Line | Fr::CharR | Fr::Char4 => "CharDelimited",
            Fr::Any(_) => "AnyDelimited",
            Fr::Noop => "NoopFramer",
            Fr::Limit { .. } => "CustomLimitFramer",
        }
    }

    pub fn delim(&self) -> Option<Vec<u8>> {
        match self {
            Fr::Line => Some(b"\n".to_vec()),
            Fr::CharR => Some("ℝ".as_bytes().to_vec()),
            Fr::Char4 => Some("𐍈".as_bytes().to_vec()),
            Fr::Any(i) => Some(DELIMS[*i].to_vec()),
            _ => None,
        }
    }

    pub fn len_params(&self) -> Option<(usize, bool)> {
        match self {
            Fr::Len { w, be } | Fr::Limit { w, be, .. } => Some((*w, *be)),
            _ => None,
        }
    }

    /// Can this payload be framed so that the documented wire format decodes
    /// to it again? (`Err(reason-class)` otherwise.)
    pub fn representable(&self, payload: &[u8]) -> Result<(), &'static str> {
        if let Some((w, _)) = self.len_params() {
            if w < 8 && (payload.len() as u64) >> (8 * w) != 0 {
                return Err("payload-exceeds-length-field");
            }
            return Ok(());
        }
        if let Some(d) = self.delim() {
            let mut s = payload.to_vec();
            s.extend_from_slice(&d);
            if find(&s, &d) != Some(payload.len()) {
                return Err("payload-contains-delimiter");
            }
        }
        Ok(())
    }

    pub fn header(&self, len: u64) -> Vec<u8> {
        let (w, be) = self.len_params().expect("length framer");
        if be { len.to_be_bytes()[8 - w..].to_vec() } else { len.to_le_bytes()[..w].to_vec() }
    }

    /// Documented wire format.
    pub fn ref_encode(&self, payload: &[u8]) -> Vec<u8> {
        if self.len_params().is_some() {
            let mut v = self.header(payload.len() as u64);
            v.extend_from_slice(payload);
            v
        } else if let Some(d) = self.delim() {
            let mut v = payload.to_vec();
            v.extend_from_slice(&d);
            v
        } else {
            payload.to_vec()
        }
    }

    /// Reference parse of a byte stream into complete frames:
    /// `(payload_start, payload_end, frame_end)`. The rest is a partial frame.
    pub fn ref_parse(&self, s: &[u8]) -> Vec<(usize, usize, usize)> {
        let mut out = Vec::new();
        let mut p = 0usize;
        if let Some((w, be)) = self.len_params() {
            loop {
                if s.len() - p < w {
                    break;
                }
                let mut b = [0u8; 8];
                let len = if be {
                    b[8 - w..].copy_from_slice(&s[p..p + w]);
                    u64::from_be_bytes(b)
                } else {
                    b[..w].copy_from_slice(&s[p..p + w]);
                    u64::from_le_bytes(b)
                };
                if len > (s.len() - p - w) as u64 {
                    break;
                }
                let len = len as usize;
                out.push((p + w, p + w + len, p + w + len));
                p += w + len;
            }
        } else if let Some(d) = self.delim() {
            while let Some(i) = find(&s[p..], &d) {
                out.push((p, p + i, p + i + d.len()));
                p += i + d.len();
            }
        }
        out
    }

    /// (start, end) of the header / delimiter bytes of the frame ending at
    /// `frame_end` that starts at `frame_start`.
    pub fn header_range(&self, frame_start: usize, frame_end: usize) -> (usize, usize) {
        if let Some((w, _)) = self.len_params() {
            (frame_start, (frame_start + w).min(frame_end))
        } else if let Some(d) = self.delim() {
            (frame_end.saturating_sub(d.len()).max(frame_start), frame_end)
        } else {
            (frame_start, frame_start)
        }
    }
}

pub fn find(hay: &[u8], needle: &[u8]) -> Option<usize> {
    if needle.is_empty() || hay.len() < needle.len() {
        return None;
    }
    (0..=hay.len() - needle.len()).find(|&i| &hay[i..i + needle.len()] == needle)
}

pub struct LimitLen {
    inner: LengthDelimited,
    max: u64,
}

impl Framer<Vec<u8>> for LimitLen {
    fn enclose(&mut self, buf: &mut Vec<u8>) {
        self.inner.enclose(buf)
    }

    fn extract(&mut self, buf: &Slice<Vec<u8>>) -> io::Result<Option<Frame>> {
        let w = self.inner.length_field_len();
        if buf.len() < w {
            return Ok(None);
        }
        let mut b = [0u8; 8];
        let len = if self.inner.length_field_is_big_endian() {
            b[8 - w..].copy_from_slice(&buf[..w]);
            u64::from_be_bytes(b)
        } else {
            b[..w].copy_from_slice(&buf[..w]);
            u64::from_le_bytes(b)
        };
        if len > self.max {
            return Err(io::Error::new(io::ErrorKind::InvalidData, "frame too long"));
        }
        self.inner.extract(buf)
    }
}

macro_rules! with_framer {
    ($fr:expr, | $f:ident | $body:expr) => {
        match $fr {
            Fr::Len { w, be } => {
                let $f = LengthDelimited::new()
                    .set_length_field_len(w)
                    .set_length_field_is_big_endian(be);
                $body
            }
            Fr::Line => {
                let $f = LineDelimited::new();
                $body
            }
            Fr::CharR => {
                let $f = CharDelimited::<'ℝ'>::new();
                $body
            }
            Fr::Char4 => {
                let $f = CharDelimited::<'𐍈'>::new();
                $body
            }
            Fr::Any(i) => {
                let $f = AnyDelimited::new(DELIMS[i]);
                $body
            }
            Fr::Noop => {
                let $f = NoopFramer::new();
                $body
            }
            Fr::Limit { w, be, max } => {
                let $f = LimitLen {
                    inner: LengthDelimited::new()
                        .set_length_field_len(w)
                        .set_length_field_is_big_endian(be),
                    max,
                };
                $body
            }
        }
    };
}

// ---------------------------------------------------------------------------
// Items
// ---------------------------------------------------------------------------

pub trait Item: Clone + PartialEq + Debug + Unpin + 'static {
    fn show(&self) -> Value;
    fn blen(&self) -> Option<usize> {
        None
    }
}

impl Item for Bytes {
    fn show(&self) -> Value {
        if self.len() <= 24 {
            json!(hex(self))
        } else {
            json!({"len": self.len(), "head": hex(&self[..12])})
        }
    }

    fn blen(&self) -> Option<usize> {
        Some(self.len())
    }
}

impl Item for Value {
    fn show(&self) -> Value {
        let s = self.to_string();
        if s.len() <= 60 { self.clone() } else { json!({"json_len": s.len()}) }
    }
}

#[derive(Clone, Debug, PartialEq, Deserialize)]
pub struct Msg {
    pub id: u32,
    pub name: String,
    pub data: Vec<u8>,
    pub opt: Option<i64>,
    /// Serialisation fails half-way (after bytes were produced).
    #[serde(skip)]
    pub poison: bool,
}

impl Serialize for Msg {
    fn serialize<S: serde::Serializer>(&self, s: S) -> Result<S::Ok, S::Error> {
        let mut st = s.serialize_struct("Msg", 4)?;
        st.serialize_field("id", &self.id)?;
        st.serialize_field("name", &self.name)?;
        if self.poison {
            return Err(serde::ser::Error::custom("poisoned item"));
        }
        st.serialize_field("data", &self.data)?;
        st.serialize_field("opt", &self.opt)?;
        st.end()
    }
}

impl Item for Msg {
    fn show(&self) -> Value {
        json!({"id": self.id, "name_len": self.name.len(), "data_len": self.data.len(), "opt": self.opt, "poison": self.poison})
    }
}

#[derive(Clone, Debug, PartialEq)]
pub enum Items {
    B(Vec<Bytes>),
    V(Vec<Value>),
    M(Vec<Msg>),
}

/// Expected outcome per complete frame: `Some(v)` = `Ok(v)`, `None` = `Err`.
#[derive(Clone, Debug)]
pub enum Exp {
    B(Vec<Option<Bytes>>),
    V(Vec<Option<Value>>),
    M(Vec<Option<Msg>>),
}

#[derive(Clone, Copy, Debug, PartialEq, Eq)]
pub enum Cd {
    Bytes,
    Json,
    JsonPretty,
}

impl Cd {
    pub fn name(&self) -> &'static str {
        match self {
            Cd::Bytes => "bytes",
            Cd::Json => "json",
            Cd::JsonPretty => "json-pretty",
        }
    }

    pub fn parse(s: &str) -> Cd {
        match s {
            "json" => Cd::Json,
            "json-pretty" => Cd::JsonPretty,
            _ => Cd::Bytes,
        }
    }

    fn json(&self) -> SerdeJsonCodec {
        if *self == Cd::JsonPretty { SerdeJsonCodec::pretty() } else { SerdeJsonCodec::new() }
    }
}

// ---------------------------------------------------------------------------
// Sink half
// ---------------------------------------------------------------------------

#[derive(Debug, Default, Clone)]
pub struct SinkOut {
    pub stream: Vec<u8>,
    /// Stream length after each item (meaningful in `send` modes only).
    pub bounds: Vec<usize>,
    pub item_errors: Vec<bool>,
    pub flush_last: bool,
    pub shutdown: bool,
    pub writes: usize,
}

const SINK_POLLS: usize = 4;

/// mode: 0 = send each; 1 = feed each, then flush; 2 = feed each, then close;
/// 3 = send each, then close.
pub fn sink_run<C, F, T>(codec: C, framer: F, items: &[T], wscript: &[usize], mode: u8) -> Result<SinkOut, String>
where
    C: Encoder<T, Vec<u8>> + Unpin,
    <C as Encoder<T, Vec<u8>>>::Error: Display,
    F: Framer<Vec<u8>> + Unpin,
    T: Item,
{
    let (w, log) = RecWriter::new(wscript.to_vec());
    let mut fr = Framed::symmetric::<T>(codec, framer).with_writer(w);
    let mut out = SinkOut::default();
    let send = mode == 0 || mode == 3;
    for it in items {
        let r = if send {
            block_on_bounded(fr.send(it.clone()), SINK_POLLS)
        } else {
            block_on_bounded(fr.feed(it.clone()), SINK_POLLS)
        };
        match r {
            Err(_) => return Err("sink returned Pending on an always-ready writer".into()),
            Ok(Err(_)) => out.item_errors.push(true),
            Ok(Ok(())) => out.item_errors.push(false),
        }
        out.bounds.push(log.borrow().bytes.len());
    }
    let fin = match mode {
        1 => Some(block_on_bounded(fr.flush(), SINK_POLLS)),
        2 | 3 => Some(block_on_bounded(fr.close(), SINK_POLLS)),
        _ => None,
    };
    match fin {
        Some(Err(_)) => return Err("sink flush/close returned Pending on an always-ready writer".into()),
        Some(Ok(Err(e))) => return Err(format!("sink flush/close failed: {e}")),
        _ => {}
    }
    let l = log.borrow();
    out.stream = l.bytes.clone();
    out.writes = l.events.iter().filter(|e| matches!(e, WEv::Write(_))).count();
    out.flush_last = matches!(l.events.last(), Some(WEv::Flush | WEv::Shutdown) | None);
    out.shutdown = l.events.contains(&WEv::Shutdown);
    Ok(out)
}

pub fn encode_case(fr: Fr, cd: Cd, items: &Items, wscript: &[usize], mode: u8) -> Result<SinkOut, String> {
    match items {
        Items::B(v) => with_framer!(fr, |f| sink_run(BytesCodec::new(), f, v, wscript, mode)),
        Items::V(v) => with_framer!(fr, |f| sink_run(cd.json(), f, v, wscript, mode)),
        Items::M(v) => with_framer!(fr, |f| sink_run(cd.json(), f, v, wscript, mode)),
    }
}

// ---------------------------------------------------------------------------
// Stream half
// ---------------------------------------------------------------------------

#[derive(Debug)]
pub struct DecOut<T> {
    pub items: Vec<Result<T, String>>,
    pub ended: bool,
    pub pending: bool,
    pub bound_hit: bool,
    pub reads: usize,
    pub polls: usize,
    pub zero_cap: usize,
}

pub fn stream_run<C, F, T>(codec: C, framer: F, data: &[u8], frags: &[usize], polls_after_err: Option<usize>, max_items: Option<usize>) -> DecOut<T>
where
    C: Decoder<T, Vec<u8>> + Unpin,
    <C as Decoder<T, Vec<u8>>>::Error: Display,
    F: Framer<Vec<u8>> + Unpin,
    T: Item,
{
    let (r, log) = FragReader::new(data.to_vec(), frags.to_vec(), data.len() + 6);
    let mut fr = Framed::symmetric::<T>(codec, framer).with_reader(r);
    let mut out = DecOut {
        items: Vec::new(),
        ended: false,
        pending: false,
        bound_hit: false,
        reads: 0,
        polls: 0,
        zero_cap: 0,
    };
    let max_polls = data.len() + 4;
    let mut err_budget = polls_after_err;
    for _ in 0..max_polls {
        if max_items.is_some_and(|m| out.items.len() >= m) {
            break;
        }
        out.polls += 1;
        match block_on_bounded(fr.next(), 2) {
            Err(_) => {
                out.pending = true;
                break;
            }
            Ok(None) => {
                out.ended = true;
                break;
            }
            Ok(Some(Ok(v))) => out.items.push(Ok(v)),
            Ok(Some(Err(e))) => {
                let s = e.to_string();
                let stop = s.contains(STEP_BOUND_MSG);
                out.items.push(Err(s));
                if stop {
                    break;
                }
                if let Some(b) = err_budget.as_mut() {
                    if *b == 0 {
                        break;
                    }
                    *b -= 1;
                }
            }
        }
    }
    let l = log.borrow();
    out.reads = l.reads;
    out.bound_hit = l.bound_hit;
    out.zero_cap = l.zero_cap;
    out
}

#[derive(Debug, Clone)]
pub struct Fail {
    pub rule: &'static str,
    pub what: String,
}

#[derive(Debug, Default, Clone)]
pub struct DecStats {
    pub reads: usize,
    pub items_ok: usize,
    pub items_err: usize,
}

fn show_res<T: Item>(r: &Result<T, String>) -> Value {
    match r {
        Ok(v) => json!({"ok": v.show()}),
        Err(e) => json!({"err": e.chars().take(80).collect::<String>()}),
    }
}

/// Oracle for framers with boundaries. `bounds[i]` = stream offset where
/// frame i ends; `k` = number of bytes delivered before EOF.
///
/// `poisoned`: the bytes after the last complete frame are a header the framer
/// must reject (`Err`); the stream then reports errors and need not end.
pub fn judge_framed<T: Item>(expected: &[Option<T>], bounds: &[usize], k: usize, out: &DecOut<T>, poisoned: bool) -> Option<Fail> {
    if out.pending {
        return Some(Fail { rule: "pending-on-ready-source", what: format!("poll_next returned Pending after {} reads although the reader is always ready", out.reads) });
    }
    if out.bound_hit {
        return Some(Fail { rule: "endless-loop", what: format!("more than len+6 = {} reads for {k} delivered bytes", k + 6) });
    }
    let c = bounds.iter().take_while(|b| **b <= k).count();
    let partial = k > if c == 0 { 0 } else { bounds[c - 1] };
    for (i, r) in out.items.iter().enumerate() {
        if i < c {
            match (&expected[i], r) {
                (Some(e), Ok(v)) if e == v => {}
                (None, Err(_)) => {}
                (Some(e), Ok(v)) => {
                    // merged / split or content?
                    let rule = match (e.blen(), v.blen()) {
                        (Some(a), Some(b)) if a != b => "frame-boundary-moved",
                        _ => "item-mismatch",
                    };
                    return Some(Fail { rule, what: format!("item {i}: expected {} got {}", e.show(), v.show()) });
                }
                (Some(e), Err(x)) => {
                    return Some(Fail { rule: "error-for-complete-frame", what: format!("item {i}: expected {} got Err({x})", e.show()) });
                }
                (None, Ok(v)) => {
                    return Some(Fail { rule: "item-from-undecodable-frame", what: format!("item {i}: expected a decode error, got {}", v.show()) });
                }
            }
            if let Ok(v) = r
                && let Some(l) = v.blen()
                && l > k
            {
                return Some(Fail { rule: "frame-larger-than-delivered", what: format!("item {i} has {l} bytes, {k} delivered") });
            }
        } else {
            match r {
                Ok(v) => {
                    let rule = if partial { "bogus-item-from-partial-frame" } else { "bogus-item-after-end" };
                    return Some(Fail { rule, what: format!("item {i} = {} but only {c} complete frames were delivered ({k} bytes, bounds {bounds:?})", v.show()) });
                }
                Err(e) if !partial => {
                    return Some(Fail { rule: "spurious-error", what: format!("Err({e}) after {c} complete frames and no partial frame") });
                }
                Err(_) => {}
            }
        }
    }
    if out.items.len() < c {
        return Some(Fail {
            rule: "frame-dropped",
            what: format!("stream ended={} after {} items, {c} complete frames were delivered; last: {}", out.ended, out.items.len(), out.items.last().map(show_res).unwrap_or(Value::Null)),
        });
    }
    if poisoned {
        if out.items.len() <= c {
            return Some(Fail { rule: "unacceptable-header-not-rejected", what: format!("stream ended={} after {c} items without an error for the unacceptable frame header", out.ended) });
        }
        return None;
    }
    if !out.ended {
        let errs = out.items.iter().filter(|r| r.is_err()).count();
        return Some(Fail { rule: "no-end-of-stream", what: format!("{} polls, {} items ({errs} errors) for {k} bytes and the stream did not end", out.polls, out.items.len()) });
    }
    None
}

/// NoopFramer + BytesCodec: a byte-stream bridge; chunk boundaries are not
/// part of the contract, content and order are.
pub fn judge_noop(delivered: &[u8], out: &DecOut<Bytes>) -> Option<Fail> {
    if out.pending {
        return Some(Fail { rule: "pending-on-ready-source", what: "poll_next returned Pending".into() });
    }
    if out.bound_hit {
        return Some(Fail { rule: "endless-loop", what: format!("more than len+6 reads for {} bytes", delivered.len()) });
    }
    let mut cat = Vec::new();
    for (i, r) in out.items.iter().enumerate() {
        match r {
            Ok(b) => {
                if b.is_empty() {
                    return Some(Fail { rule: "empty-chunk", what: format!("item {i} is empty") });
                }
                if b.len() > NOOP_MAX {
                    return Some(Fail { rule: "chunk-exceeds-max-size", what: format!("item {i} has {} bytes", b.len()) });
                }
                cat.extend_from_slice(b);
            }
            Err(e) => return Some(Fail { rule: "spurious-error", what: format!("item {i}: Err({e})") }),
        }
    }
    if cat != delivered {
        let rule = if cat.len() < delivered.len() { "bytes-dropped" } else { "bytes-invented" };
        return Some(Fail { rule, what: format!("chunks concatenate to {} bytes, {} delivered", cat.len(), delivered.len()) });
    }
    if !out.ended {
        return Some(Fail { rule: "no-end-of-stream", what: "stream did not end".into() });
    }
    None
}

fn stats<T>(o: &DecOut<T>) -> DecStats {
    DecStats {
        reads: o.reads,
        items_ok: o.items.iter().filter(|r| r.is_ok()).count(),
        items_err: o.items.iter().filter(|r| r.is_err()).count(),
    }
}

/// Deliver `data` (already cut) in `frags` to the real Stream half and judge.
pub fn decode_case(fr: Fr, cd: Cd, exp: &Exp, bounds: &[usize], data: &[u8], frags: &[usize], poisoned: bool) -> (Option<Fail>, DecStats) {
    let c = bounds.iter().take_while(|b| **b <= data.len()).count();
    let mi = poisoned.then_some(c + 2);
    match exp {
        Exp::B(e) => {
            let out: DecOut<Bytes> = with_framer!(fr, |f| stream_run(BytesCodec::new(), f, data, frags, None, mi));
            let v = if fr == Fr::Noop { judge_noop(data, &out) } else { judge_framed(e, bounds, data.len(), &out, poisoned) };
            (v, stats(&out))
        }
        Exp::V(e) => {
            let out: DecOut<Value> = with_framer!(fr, |f| stream_run(cd.json(), f, data, frags, None, mi));
            (judge_framed(e, bounds, data.len(), &out, poisoned), stats(&out))
        }
        Exp::M(e) => {
            let out: DecOut<Msg> = with_framer!(fr, |f| stream_run(cd.json(), f, data, frags, None, mi));
            (judge_framed(e, bounds, data.len(), &out, poisoned), stats(&out))
        }
    }
}

/// Custom framer returning `Err`: the stream must give that error and stay
/// pollable (error again or end), never panic. Returns the outcomes.
pub fn decode_after_error(fr: Fr, data: &[u8], frags: &[usize]) -> DecOut<Bytes> {
    with_framer!(fr, |f| stream_run(BytesCodec::new(), f, data, frags, Some(2), None))
}
