//! C13 helpers: always-ready in-memory reader (scripted fragments, step
//! bound) and recording writer (scripted short writes), both `'static`.

use std::{cell::RefCell, io, rc::Rc};

use compio_buf::{BufResult, IoBuf, IoBufMut, SetLenExt};
use compio_io::{AsyncRead, AsyncWrite};

pub const STEP_BOUND_MSG: &str = "C13-STEP-BOUND";

#[derive(Debug, Default)]
pub struct ReadLog {
    pub reads: usize,
    pub eof_reads: usize,
    pub bound_hit: bool,
    pub zero_cap: usize,
}

/// Delivers `data` in the scripted fragment sizes (rest in one piece when the
/// script runs out), then EOF. Every `read` is one step; beyond `bound` steps
/// it fails with a recognisable error so that a spinning consumer terminates.
pub struct FragReader {
    data: Vec<u8>,
    frags: Vec<usize>,
    pos: usize,
    fi: usize,
    left: usize,
    bound: usize,
    pub log: Rc<RefCell<ReadLog>>,
}

impl FragReader {
    pub fn new(data: Vec<u8>, frags: Vec<usize>, bound: usize) -> (Self, Rc<RefCell<ReadLog>>) {
        let log = Rc::new(RefCell::new(ReadLog::default()));
        (
            Self {
                data,
                frags,
                pos: 0,
                fi: 0,
                left: 0,
                bound,
                log: log.clone(),
            },
            log,
        )
    }
}

impl AsyncRead for FragReader {
    async fn read<B: IoBufMut>(&mut self, mut buf: B) -> BufResult<usize, B> {
        {
            let mut l = self.log.borrow_mut();
            l.reads += 1;
            if l.reads > self.bound {
                l.bound_hit = true;
                return BufResult(Err(io::Error::other(STEP_BOUND_MSG)), buf);
            }
        }
        if self.pos >= self.data.len() {
            self.log.borrow_mut().eof_reads += 1;
            return BufResult(Ok(0), buf);
        }
        while self.left == 0 {
            self.left = match self.frags.get(self.fi) {
                Some(n) => *n,
                None => self.data.len() - self.pos,
            };
            self.fi += 1;
        }
        let dst = buf.as_uninit();
        let n = self.left.min(dst.len()).min(self.data.len() - self.pos);
        if n == 0 {
            // no room: indistinguishable from EOF for the caller; counted
            self.log.borrow_mut().zero_cap += 1;
            return BufResult(Ok(0), buf);
        }
        for i in 0..n {
            dst[i].write(self.data[self.pos + i]);
        }
        self.pos += n;
        self.left -= n;
        unsafe { buf.advance_to(n) };
        BufResult(Ok(n), buf)
    }
}

#[derive(Debug, Clone, Copy, PartialEq, Eq)]
pub enum WEv {
    Write(usize),
    Flush,
    Shutdown,
}

#[derive(Debug, Default)]
pub struct WriteLog {
    pub bytes: Vec<u8>,
    pub events: Vec<WEv>,
}

/// Accepts at most `script[i % len]` bytes on the i-th write (>= 1).
pub struct RecWriter {
    script: Vec<usize>,
    calls: usize,
    pub log: Rc<RefCell<WriteLog>>,
}

impl RecWriter {
    pub fn new(script: Vec<usize>) -> (Self, Rc<RefCell<WriteLog>>) {
        let log = Rc::new(RefCell::new(WriteLog::default()));
        (
            Self {
                script,
                calls: 0,
                log: log.clone(),
            },
            log,
        )
    }
}

impl AsyncWrite for RecWriter {
    async fn write<T: IoBuf>(&mut self, buf: T) -> BufResult<usize, T> {
        let lim = if self.script.is_empty() {
            usize::MAX
        } else {
            self.script[self.calls % self.script.len()].max(1)
        };
        self.calls += 1;
        let s = buf.as_init();
        let n = s.len().min(lim);
        {
            let mut l = self.log.borrow_mut();
            l.bytes.extend_from_slice(&s[..n]);
            l.events.push(WEv::Write(n));
        }
        BufResult(Ok(n), buf)
    }

    async fn flush(&mut self) -> io::Result<()> {
        self.log.borrow_mut().events.push(WEv::Flush);
        Ok(())
    }

    async fn shutdown(&mut self) -> io::Result<()> {
        self.log.borrow_mut().events.push(WEv::Shutdown);
        Ok(())
    }
}

pub fn hex(b: &[u8]) -> String {
    let mut s = String::with_capacity(b.len() * 2);
    for x in b {
        s.push_str(&format!("{x:02x}"));
    }
    s
}

pub fn unhex(s: &str) -> Vec<u8> {
    (0..s.len() / 2)
        .map(|i| u8::from_str_radix(&s[2 * i..2 * i + 2], 16).unwrap_or(0))
        .collect()
}
