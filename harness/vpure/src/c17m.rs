//! C17 AsyncifyPool (Miri + native, no driver) — not built yet.

use vcommon::Args;

pub fn main(_args: &Args) {
    eprintln!("c17m: not implemented");
    std::process::exit(3);
}
